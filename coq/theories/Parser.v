(* Parser.v — token-level executable transcription of src/syntax/parser.rs (Parser::new, bump,
   parse_program / parse_program_body / parse_block_body / parse_statement and every statement
   form, synchronize and the error-recovery paths, parse_expression /
   parse_expression_continuation, array literals, calls, index, member access,
   parse_string_literal).  Definitions only; proofs in proofs/ParserProofs*.v.

   Input: the token list the lexer model produces (Lexer.token: kind, payload, owned flag, span).
   The Rust `Lexer` iterator never yields an EOF token (`next()` returns `None` at the end of the
   text), so the list has no EOF entry; the parser's EOF is synthetic:
     Parser::new : lexer.next().unwrap_or_default()              EOF with span 0..0
     bump        : lexer.next().unwrap_or(EOF, cur.end..cur.end) EOF at the end of the last token.
   Output: the statements with every span the parser builds, the syntax diagnostics in emission
   order (kind, span, label text; every label of parser.rs carries the span of its diagnostic),
   how many tokens were pulled from the lexer and whether the lexer was run to its end (the
   parser pulls tokens lazily and merges the lexer's diagnostics afterwards, so only the
   diagnostics of the pulled prefix are ever reported).

   Faithfulness notes
   * parse_expression matches on `mem::take(&mut self.cur.token)`: from then on the current token
     is EOF (same span) until the arm bumps.  Every arm but the error arm bumps first thing, so the
     only visible effect is in the error arm: its `synchronize()` sees EOF and does nothing, the
     placeholder `Number("0")` gets the span of the offending token, and every enclosing loop
     then sees EOF — the rest of the token stream is never pulled.  [v_expr_takes_token].
   * the default arm of parse_statement bumps once before synchronizing; without that bump a
     stray `)` inside a block would be re-parsed forever.  [v_stmt_error_bumps]
     Both switches are read off the source by translator/gen_parser.py ([variant_of_source]).
   * positions are only ever copied (no arithmetic, no comparison), spans are pairs
     (start, end); `Range::default()` is (0, 0).
   * the parser has no slice / index / unwrap of its own: `param_spans.last().map_or(..)` is
     total, and the byte accesses of parse_template_segments are guarded by `< len` (they are
     modelled on lists in Template.v).  So there is no ParsePanic outcome to model; the only
     non-result is fuel exhaustion [NoFuel], which ParserProofs shows impossible for the fuel
     [parse_program] hands out.
   * the dead test `Token::is_reserved_keyword(&Token::Identifier(p))` in the parameter loop is
     always false and is not transcribed.
   * binding powers come from GenPratt.v, token sets / messages / labels from GenParser.v, the
     reserved-keyword set from GenLexer.v, string templates from Template.v + GenTemplate.v. *)
From Coq Require Import ZArith List Bool Arith.
Require Import NS.theories.Utf8 NS.theories.GenLexer NS.theories.Lexer NS.theories.GenParser.
Require NS.theories.F64 NS.theories.Lang NS.theories.GenPratt NS.theories.Template NS.theories.GenTemplate.
Import ListNotations.
Open Scope nat_scope.

(* ------------------------------------------------------------------ results *)

Inductive presult (A : Type) :=
  | Done (a : A)
  | NoFuel.
Arguments Done {A} a.
Arguments NoFuel {A}.

Notation "'let*' p ':=' c 'in' k" :=
  (match c with Done p => k | NoFuel => NoFuel end)
  (at level 200, p pattern, c at level 100, k at level 200).

Record pvariant := {
  v_expr_takes_token : bool;   (* parse_expression: match mem::take(&mut self.cur.token) *)
  v_stmt_error_bumps : bool    (* parse_statement default arm: bump() before synchronize() *)
}.
Definition variant_of_source : pvariant :=
  {| v_expr_takes_token := src_expr_takes_token; v_stmt_error_bumps := src_stmt_error_bumps |}.

(* ------------------------------------------------------------------ syntax tree with spans *)

Definition span := (nat * nat)%type.
Definition no_span : span := (0, 0).            (* Range::default() *)

Inductive sexpr :=
  | XNum (text : bytes) (sp : span)
  | XStr (raw : bytes) (owned : bool) (parts : Template.sparts) (sp : span)
  | XBool (b : bool) (sp : span)
  | XNull (sp : span)
  | XVar (n : bytes) (sp : span)
  | XBin (op : Lang.binop) (l r : sexpr) (sp : span)
  | XUn (op : Lang.unop) (e : sexpr) (sp : span)
  | XArr (es : list sexpr) (sp : span)
  | XIdx (a i : sexpr) (isp sp : span)
  | XMember (o : sexpr) (f : bytes) (fsp sp : span)
  | XCall (c : sexpr) (args : list sexpr) (sp : span).

(* a Block is (statements, span); `else_b: None` is has_else = false with an empty block *)
Inductive sstmt :=
  | YFun (name : bytes) (name_sp : span) (params : list bytes) (param_sps : list span)
         (body : list sstmt) (body_sp : span) (sp : span)
  | YMake (var : bytes) (var_sp : span) (e : sexpr) (sp : span)
  | YSet (var : bytes) (var_sp : span) (e : sexpr) (sp : span)
  | YSetIdx (target e : sexpr) (sp : span)
  | YIf (c : sexpr) (t : list sstmt) (t_sp : span) (has_else : bool) (f : list sstmt) (f_sp : span) (sp : span)
  | YLoop (c : sexpr) (body : list sstmt) (body_sp : span) (sp : span)
  | YBlock (body : list sstmt) (body_sp : span) (sp : span)
  | YRet (e : option sexpr) (sp : span)
  | YBreak (sp : span)
  | YNext (sp : span)
  | YExpr (e : sexpr) (sp : span).

(* Expr::span *)
Definition span_of (e : sexpr) : span :=
  match e with
  | XNum _ sp | XStr _ _ _ sp | XBool _ sp | XNull sp | XVar _ sp | XBin _ _ _ sp | XUn _ _ sp
  | XArr _ sp | XIdx _ _ _ sp | XMember _ _ _ sp | XCall _ _ sp => sp
  end.

(* ------------------------------------------------------------------ diagnostics *)

Record pdiag := { pd_err : synerr; pd_span : span; pd_label : option bytes }.

(* ------------------------------------------------------------------ parser state *)

(* cur = self.cur; rest = what the lexer has not been asked for yet; errs = self.errors, newest
   first; at_end = lexer.next() has returned None at least once *)
Record pstate := { cur : token; rest : list token; errs : list pdiag; at_end : bool }.

Definition kind (st : pstate) : tok := t_kind (cur st).
Definition cstart (st : pstate) : nat := t_start (cur st).
Definition cend (st : pstate) : nat := t_end (cur st).
Definition cspan (st : pstate) : span := (cstart st, cend st).
Definition payload (st : pstate) : bytes := t_payload (cur st).

Definition eof_tok (a b : nat) : token :=
  {| t_kind := TEOF; t_payload := []; t_owned := false; t_start := a; t_end := b |}.

(* Parser::new *)
Definition init (ts : list token) : pstate :=
  match ts with
  | [] => {| cur := eof_tok 0 0; rest := []; errs := []; at_end := true |}
  | t :: r => {| cur := t; rest := r; errs := []; at_end := false |}
  end.

Definition bump (st : pstate) : pstate :=
  match rest st with
  | [] => {| cur := eof_tok (cend st) (cend st); rest := []; errs := errs st; at_end := true |}
  | t :: r => {| cur := t; rest := r; errs := errs st; at_end := at_end st |}
  end.

(* mem::take(&mut self.cur.token): the token becomes Token::default() = EOF, the span stays *)
Definition take (st : pstate) : pstate :=
  {| cur := eof_tok (cstart st) (cend st); rest := rest st; errs := errs st; at_end := at_end st |}.
Definition take_v (v : pvariant) (st : pstate) : pstate :=
  if v_expr_takes_token v then take st else st.

Definition emit (e : synerr) (sp : span) (lbl : option bytes) (st : pstate) : pstate :=
  {| cur := cur st; rest := rest st;
     errs := {| pd_err := e; pd_span := sp; pd_label := lbl |} :: errs st; at_end := at_end st |}.
(* the frequent shape: diagnostic and label on the current token *)
Definition emit_here (e : synerr) (lbl : bytes) (st : pstate) : pstate := emit e (cspan st) (Some lbl) st.

Definition mem_tok (k : tok) (l : list tok) : bool := existsb (tok_eqb k) l.

(* `if let Token::K = self.cur.token { self.bump() } else { self.emit_error(sp, e, label) }` *)
Definition expect (k : tok) (e : synerr) (sp : span) (lbl : bytes) (st : pstate) : pstate :=
  if tok_eqb (kind st) k then bump st else emit e sp (Some lbl) st.
Definition expect_here (k : tok) (e : synerr) (lbl : bytes) (st : pstate) : pstate :=
  expect k e (cspan st) lbl st.

(* synchronize: while !matches!(cur, sync_toks) { bump() } *)
Fixpoint sync_rest (last_end : nat) (r : list token) : token * list token * bool :=
  match r with
  | [] => (eof_tok last_end last_end, [], true)
  | t :: r' => if mem_tok (t_kind t) sync_toks then (t, r', false) else sync_rest (t_end t) r'
  end.
Definition synchronize (st : pstate) : pstate :=
  if mem_tok (kind st) sync_toks then st
  else let '(c, r, e) := sync_rest (cend st) (rest st) in
       {| cur := c; rest := r; errs := errs st; at_end := at_end st || e |}.

(* ------------------------------------------------------------------ expressions *)

Definition binop_of_tok (k : tok) : option Lang.binop := assoc_bytes (tok_name k) GenPratt.op_tokens.
Definition l_bp (op : Lang.binop) : Z := fst (GenPratt.binop_bp op).
Definition r_bp (op : Lang.binop) : Z := snd (GenPratt.binop_bp op).

(* `(name, span)` after `.`, `do`: identifier, reserved keyword (placeholder + diagnostic on the
   token), anything else (placeholder + diagnostic [e_sp]) *)
Definition name_or_placeholder (other_sp : span) (other_lbl : bytes) (st : pstate) : bytes * pstate :=
  let k := kind st in
  if tok_eqb k TIdentifier then (payload st, st)
  else if mem_tok k reserved_toks then
    (placeholder_name, emit SReservedKeyword (cspan st) (Some (lbl_reserved k)) st)
  else (placeholder_name, emit SExpectedIdentifier other_sp (Some other_lbl) st).

Fixpoint parse_expression (f : nat) (v : pvariant) (min_bp : Z) (st : pstate) {struct f}
  : presult (sexpr * pstate) :=
  match f with
  | O => NoFuel
  | S f' =>
    let start := cstart st in
    let sp := cspan st in
    let content := payload st in
    let owned := t_owned (cur st) in
    let st0 := take_v v st in
    let primary : presult (sexpr * pstate) :=
      match kind st with
      | TNumber => Done (XNum content sp, bump st0)
      | TString =>
          Done (XStr content owned
                  (Template.parse_string_literal GenTemplate.variant_of_source content owned) sp,
                bump st0)
      | TTrue => Done (XBool true sp, bump st0)
      | TFalse => Done (XBool false sp, bump st0)
      | TNull => Done (XNull sp, bump st0)
      | TIdentifier => Done (XVar content sp, bump st0)
      | TNot =>
          let* (e, st1) := parse_expression f' v (GenPratt.unary_bp Lang.Not) (bump st0) in
          Done (XUn Lang.Not e (start, cend st1), st1)
      | TMinus =>
          let* (e, st1) := parse_expression f' v (GenPratt.unary_bp Lang.Neg) (bump st0) in
          Done (XUn Lang.Neg e (start, cend st1), st1)
      | TLParen =>
          let* (e, st1) := parse_expression f' v GenPratt.paren_bp (bump st0) in
          Done (e, expect_here TRParen SExpectedNumberOrVariableOrLParen lbl_rparen st1)
      | TLBracket =>
          let st1 := bump st0 in
          let* (es, st2) :=
            (if tok_eqb (kind st1) TRBracket then Done ([], st1)
             else exprs_loop f' v TRBracket GenPratt.elem_bp st1) in
          if tok_eqb (kind st2) TRBracket then Done (XArr es (start, cend st2), bump st2)
          else let st3 := emit_here SExpectedRBracket lbl_rbracket st2 in
               Done (XArr es (start, cend st3), st3)
      | _ =>
          let st1 := emit_here SExpectedNumberOrVariableOrLParen lbl_expression st0 in
          let st2 := synchronize st1 in
          Done (XNum [48%Z] (cspan st2), st2)
      end in
    let* (lhs, st') := primary in
    continuation f' v lhs min_bp st'
  end

with continuation (f : nat) (v : pvariant) (lhs : sexpr) (min_bp : Z) (st : pstate) {struct f}
  : presult (sexpr * pstate) :=
  match f with
  | O => NoFuel
  | S f' =>
    let start := fst (span_of lhs) in
    let k := kind st in
    if tok_eqb k TDot then
      let st1 := bump st in
      let fsp := cspan st1 in
      let '(field, st2) := name_or_placeholder fsp lbl_ident_after_dot st1 in
      let st3 := bump st2 in
      continuation f' v (XMember lhs field fsp (start, cend st3)) min_bp st3
    else if tok_eqb k TLParen then
      let st1 := bump st in
      let* (args, st2) :=
        (if tok_eqb (kind st1) TRParen then Done ([], st1)
         else exprs_loop f' v TRParen GenPratt.arg_bp st1) in
      let st3 := expect_here TRParen SExpectedRParen lbl_rparen st2 in
      continuation f' v (XCall lhs args (start, cend st3)) min_bp st3
    else if tok_eqb k TLBracket then
      let bstart := cstart st in
      let st1 := bump st in
      let* (idx, st2) := parse_expression f' v GenPratt.index_bp st1 in
      let e := cend st2 in
      let st3 := if tok_eqb (kind st2) TRBracket then bump st2
                 else emit_here SExpectedRBracket lbl_rbracket st2 in
      continuation f' v (XIdx lhs idx (bstart, e) (start, e)) min_bp st3
    else
      match binop_of_tok k with
      | Some op =>
          if (l_bp op <? min_bp)%Z then Done (lhs, st)
          else
            let* (rhs, st2) := parse_expression f' v (r_bp op) (bump st) in
            continuation f' v (XBin op lhs rhs (start, cend st2)) min_bp st2
      | None => Done (lhs, st)
      end
  end

(* the two copies of `loop { e = parse_expression(bp); push; if Comma { bump; if closer { break } }
   else { break } }` (array elements, call arguments) *)
with exprs_loop (f : nat) (v : pvariant) (closer : tok) (bp : Z) (st : pstate) {struct f}
  : presult (list sexpr * pstate) :=
  match f with
  | O => NoFuel
  | S f' =>
    let* (e, st1) := parse_expression f' v bp st in
    if tok_eqb (kind st1) TComma then
      let st2 := bump st1 in
      if tok_eqb (kind st2) closer then Done ([e], st2)
      else let* (es, st3) := exprs_loop f' v closer bp st2 in Done (e :: es, st3)
    else Done ([e], st1)
  end.

(* ------------------------------------------------------------------ statement forms
   (higher-order in the recursive parsers they call, so that each is a plain definition) *)

Definition expr_parser := Z -> pstate -> presult (sexpr * pstate).
Definition cont_parser := sexpr -> Z -> pstate -> presult (sexpr * pstate).
Definition block_parser := pstate -> presult (list sstmt * span * pstate).
Definition params_parser := pstate -> presult (list bytes * list span * pstate).

(* parse_block_body around its statement loop *)
Definition block_body (loop : pstate -> presult (list sstmt * pstate)) : block_parser :=
  fun st =>
    let start := cstart st in
    let* (ss, st') := loop st in
    Done (ss, (start, cend st'), st').

(* the parameter loop of parse_function_def *)
Fixpoint params_loop (f : nat) (st : pstate) {struct f} : presult (list bytes * list span * pstate) :=
  match f with
  | O => NoFuel
  | S f' =>
    let k := kind st in
    let sp := cspan st in
    let next (name : bytes) (st1 : pstate) :=      (* st1: after the bump of the parameter *)
      if tok_eqb (kind st1) TComma then
        let* (ps, sps, st2) := params_loop f' (bump st1) in Done (name :: ps, sp :: sps, st2)
      else Done ([name], [sp], st1) in
    if tok_eqb k TIdentifier then next (payload st) (bump st)
    else if mem_tok k reserved_toks then
      next placeholder_name (bump (emit SReservedKeyword sp (Some (lbl_reserved k)) st))
    else Done ([], [], st)
  end.

Definition last_end (sps : list span) (d : nat) : nat :=
  match rev sps with s :: _ => snd s | [] => d end.

Definition parse_function_def (pl : params_parser) (blk : block_parser) (st : pstate)
  : presult (sstmt * pstate) :=
  let start := cstart st in
  let do_sp := cspan st in
  let st1 := bump st in
  let name_sp := cspan st1 in
  let '(name, st2) := name_or_placeholder do_sp lbl_fn_name st1 in
  let st3 := bump st2 in
  let lparen_end := cend st3 in
  let st4 := expect TLParen SExpectedLParen (start, snd name_sp) lbl_lparen_fn st3 in
  let* (ps, sps, st5) := pl st4 in
  let rparen_end := cend st5 in
  let st6 := expect TRParen SExpectedRParen (start, last_end sps lparen_end) lbl_rparen st5 in
  let start_end := cend st6 in
  let st7 := expect TStart SExpectedStartBlock (start, rparen_end) lbl_start_after_rparen st6 in
  let* (body, bsp, st8) := blk st7 in
  let st9 := expect TEnd SUnterminatedBlock (start, start_end) lbl_end_block st8 in
  Done (YFun name (fst do_sp, rparen_end) ps sps body bsp (start, cend st9), st9).

Definition parse_return (pe : expr_parser) (st : pstate) : presult (sstmt * pstate) :=
  let start := cstart st in
  let st1 := bump st in
  if mem_tok (kind st1) return_stop_toks then Done (YRet None (start, cend st1), st1)
  else let* (e, st2) := pe value_bp st1 in Done (YRet (Some e) (start, cend st2), st2).

Definition parse_assignment (pe : expr_parser) (st : pstate) : presult (sstmt * pstate) :=
  let start := cstart st in
  let make_sp := cspan st in
  let st1 := bump st in
  let k1 := kind st1 in
  let '(var, var_sp, st2) :=
    if tok_eqb k1 TIdentifier then (payload st1, cspan st1, st1)
    else if mem_tok k1 reserved_toks then
      (placeholder_name, cspan st1, emit SReservedKeyword (cspan st1) (Some (lbl_reserved k1)) st1)
    else (placeholder_name, no_span, emit SExpectedIdentifier make_sp (Some lbl_var_name) st1) in
  let st3 := bump st2 in
  if tok_eqb (kind st3) TGet then
    let* (e, st4) := pe value_bp (bump st3) in
    Done (YMake var var_sp e (start, cend st4), st4)
  else Done (YMake var var_sp (XNull var_sp) (start, cend st3), st3).

Definition parse_if (pe : expr_parser) (blk : block_parser) (st : pstate) : presult (sstmt * pstate) :=
  let start := cstart st in
  let if_sp := cspan st in
  let st1 := bump st in
  let st2 := expect TLParen SExpectedLParen if_sp lbl_lparen_if st1 in
  let* (cond, st3) := pe cond_bp st2 in
  let cond_end := snd (span_of cond) in
  let rparen_end := cend st3 in
  let st4 := expect TRParen SExpectedRParen (start, cond_end) lbl_rparen st3 in
  let st5 := expect TStart SExpectedStartBlock (start, rparen_end) lbl_start_after_rparen st4 in
  let* (then_b, then_sp, st6) := blk st5 in
  let st7 := expect_here TEnd SUnterminatedBlock lbl_end_block st6 in
  if tok_eqb (kind st7) TIfNotSo then
    let else_sp := cspan st7 in
    let st8 := bump st7 in
    let start_end := cend st8 in
    let st9 := expect TStart SExpectedStartBlock else_sp lbl_start_after_else st8 in
    let* (else_b, else_bsp, st10) := blk st9 in
    let st11 := expect TEnd SUnterminatedBlock (fst else_sp, start_end) lbl_end_block st10 in
    Done (YIf cond then_b then_sp true else_b else_bsp (start, cend st11), st11)
  else Done (YIf cond then_b then_sp false [] no_span (start, cend st7), st7).

Definition parse_loop (pe : expr_parser) (blk : block_parser) (st : pstate) : presult (sstmt * pstate) :=
  let start := cstart st in
  let jasi_sp := cspan st in
  let st1 := bump st in
  let st2 := expect TLParen SExpectedLParen jasi_sp lbl_lparen_jasi st1 in
  let* (cond, st3) := pe cond_bp st2 in
  let cond_end := snd (span_of cond) in
  let rparen_end := cend st3 in
  let st4 := expect TRParen SExpectedRParen (start, cond_end) lbl_rparen st3 in
  let start_end := cend st4 in
  let st5 := expect TStart SExpectedStartBlock (start, rparen_end) lbl_start_after_rparen st4 in
  let* (body, bsp, st6) := blk st5 in
  let st7 := expect TEnd SUnterminatedBlock (start, start_end) lbl_end_block st6 in
  Done (YLoop cond body bsp (start, cend st7), st7).

Definition parse_block_stmt (blk : block_parser) (st : pstate) : presult (sstmt * pstate) :=
  let start := cstart st in
  let st1 := bump st in
  let* (body, bsp, st2) := blk st1 in
  let st3 := expect_here TEnd SUnterminatedBlock lbl_end_block st2 in
  Done (YBlock body bsp (start, cend st3), st3).

(* the Token::Identifier arm of parse_statement *)
Definition parse_ident_statement (pc : cont_parser) (pe : expr_parser) (st : pstate)
  : presult (sstmt * pstate) :=
  let start := cstart st in
  let var := payload st in
  let var_sp := cspan st in
  let st1 := bump st in
  let* (e, st2) := pc (XVar var var_sp) GenPratt.stmt_bp st1 in
  if tok_eqb (kind st2) TGet then
    let* (val, st4) := pe value_bp (bump st2) in
    let sp := (start, cend st4) in
    match e with
    | XVar n s => Done (YSet n s val sp, st4)
    | XIdx _ _ _ _ => Done (YSetIdx e val sp, st4)
    | _ => Done (YExpr (XNull no_span) no_span,
                 emit SInvalidAssignmentTarget sp (Some lbl_assign_target) st4)
    end
  else Done (YExpr e (start, cend st2), st2).

(* the default arm of parse_statement *)
Definition statement_error (v : pvariant) (st : pstate) : presult (sstmt * pstate) :=
  let st1 := emit_here SExpectedStatement lbl_statement st in
  let st2 := if v_stmt_error_bumps v then bump st1 else st1 in
  Done (YExpr (XNull no_span) no_span, synchronize st2).

Fixpoint parse_statement (f : nat) (v : pvariant) (st : pstate) {struct f} : presult (sstmt * pstate) :=
  match f with
  | O => NoFuel
  | S f' =>
    let pe : expr_parser := parse_expression f' v in
    let blk : block_parser := block_body (block_loop f' v) in
    match kind st with
    | TDo => parse_function_def (params_loop f') blk st
    | TReturn => parse_return pe st
    | TMake => parse_assignment pe st
    | TIfToSay => parse_if pe blk st
    | TJasi => parse_loop pe blk st
    | TComot => let st1 := bump st in Done (YBreak (cstart st, cend st1), st1)
    | TNext => let st1 := bump st in Done (YNext (cstart st, cend st1), st1)
    | TStart => parse_block_stmt blk st
    | TIdentifier => parse_ident_statement (continuation f' v) pe st
    | _ => statement_error v st
    end
  end

(* the loop of parse_block_body *)
with block_loop (f : nat) (v : pvariant) (st : pstate) {struct f} : presult (list sstmt * pstate) :=
  match f with
  | O => NoFuel
  | S f' =>
    if mem_tok (kind st) block_stop_toks then Done ([], st)
    else
      let* (s, st1) := parse_statement f' v st in
      let* (ss, st2) := block_loop f' v st1 in
      Done (s :: ss, st2)
  end.

(* the loop of parse_program_body *)
Fixpoint program_loop (f : nat) (v : pvariant) (st : pstate) {struct f} : presult (list sstmt * pstate) :=
  match f with
  | O => NoFuel
  | S f' =>
    if mem_tok (kind st) stmt_start_toks then
      let* (s, st1) := parse_statement f' v st in
      let* (ss, st2) := program_loop f' v st1 in
      Done (s :: ss, st2)
    else Done ([], st)
  end.

(* ------------------------------------------------------------------ parse_program *)

Record parsed := {
  p_stmts : list sstmt;
  p_span : span;              (* span of the root Block *)
  p_diags : list pdiag;       (* syntax diagnostics, emission order *)
  p_pulled : nat;             (* tokens taken from the lexer (a prefix of the token list) *)
  p_lexed_all : bool          (* the lexer was asked past its last token *)
}.

(* what measures the work left: tokens not yet pulled, plus the current one unless it is EOF *)
Definition size (st : pstate) : nat :=
  length (rest st) + (if tok_eqb (kind st) TEOF then 0 else 1).

Definition program_fuel (ts : list token) : nat := 3 * length ts + 4.

Definition parse_from (fuel : nat) (v : pvariant) (ts : list token) : presult parsed :=
  let st0 := init ts in
  let start := cstart st0 in
  let* (ss, st1) := program_loop fuel v st0 in
  let st2 := if tok_eqb (kind st1) TEOF then st1
             else emit STrailingTokensAfterProgramEnd (cspan st1) None st1 in
  Done {| p_stmts := ss; p_span := (start, cend st1); p_diags := rev (errs st2);
          p_pulled := length ts - length (rest st2); p_lexed_all := at_end st2 |}.

Definition parse_program (v : pvariant) (ts : list token) : presult parsed :=
  parse_from (program_fuel ts) v ts.

(* ------------------------------------------------------------------ views of the result *)

(* moving every position along h (h = fun _ => 0 forgets the spans) *)
Definition map_span (h : nat -> nat) (s : span) : span := (h (fst s), h (snd s)).

Fixpoint map_expr (h : nat -> nat) (e : sexpr) : sexpr :=
  match e with
  | XNum t sp => XNum t (map_span h sp)
  | XStr r o p sp => XStr r o p (map_span h sp)
  | XBool b sp => XBool b (map_span h sp)
  | XNull sp => XNull (map_span h sp)
  | XVar n sp => XVar n (map_span h sp)
  | XBin op l r sp => XBin op (map_expr h l) (map_expr h r) (map_span h sp)
  | XUn op a sp => XUn op (map_expr h a) (map_span h sp)
  | XArr es sp => XArr (map (map_expr h) es) (map_span h sp)
  | XIdx a i isp sp => XIdx (map_expr h a) (map_expr h i) (map_span h isp) (map_span h sp)
  | XMember o f fsp sp => XMember (map_expr h o) f (map_span h fsp) (map_span h sp)
  | XCall c args sp => XCall (map_expr h c) (map (map_expr h) args) (map_span h sp)
  end.

Fixpoint map_stmt (h : nat -> nat) (s : sstmt) : sstmt :=
  match s with
  | YFun n nsp ps psps body bsp sp =>
      YFun n (map_span h nsp) ps (map (map_span h) psps) (map (map_stmt h) body) (map_span h bsp) (map_span h sp)
  | YMake x xsp e sp => YMake x (map_span h xsp) (map_expr h e) (map_span h sp)
  | YSet x xsp e sp => YSet x (map_span h xsp) (map_expr h e) (map_span h sp)
  | YSetIdx t e sp => YSetIdx (map_expr h t) (map_expr h e) (map_span h sp)
  | YIf c t tsp he f fsp sp =>
      YIf (map_expr h c) (map (map_stmt h) t) (map_span h tsp) he (map (map_stmt h) f) (map_span h fsp) (map_span h sp)
  | YLoop c b bsp sp => YLoop (map_expr h c) (map (map_stmt h) b) (map_span h bsp) (map_span h sp)
  | YBlock b bsp sp => YBlock (map (map_stmt h) b) (map_span h bsp) (map_span h sp)
  | YRet e sp => YRet (option_map (map_expr h) e) (map_span h sp)
  | YBreak sp => YBreak (map_span h sp)
  | YNext sp => YNext (map_span h sp)
  | YExpr e sp => YExpr (map_expr h e) (map_span h sp)
  end.

Definition map_tok (h : nat -> nat) (t : token) : token :=
  {| t_kind := t_kind t; t_payload := t_payload t; t_owned := t_owned t;
     t_start := h (t_start t); t_end := h (t_end t) |}.
Definition map_diag (h : nat -> nat) (d : pdiag) : pdiag :=
  {| pd_err := pd_err d; pd_span := map_span h (pd_span d); pd_label := pd_label d |}.
Definition map_state (h : nat -> nat) (st : pstate) : pstate :=
  {| cur := map_tok h (cur st); rest := map (map_tok h) (rest st);
     errs := map (map_diag h) (errs st); at_end := at_end st |}.
Definition map_parsed (h : nat -> nat) (p : parsed) : parsed :=
  {| p_stmts := map (map_stmt h) (p_stmts p); p_span := map_span h (p_span p);
     p_diags := map (map_diag h) (p_diags p); p_pulled := p_pulled p; p_lexed_all := p_lexed_all p |}.
Definition map_presult {A B} (g : A -> B) (r : presult A) : presult B :=
  match r with Done a => Done (g a) | NoFuel => NoFuel end.

Definition forget : nat -> nat := fun _ => 0.
(* the syntax tree modulo spans; what a diagnostic says without where *)
Definition strip_stmts (ss : list sstmt) : list sstmt := map (map_stmt forget) ss.
Definition diag_kinds (ds : list pdiag) : list (synerr * option bytes) :=
  map (fun d => (pd_err d, pd_label d)) ds.
(* what two token lists share when they differ only in layout *)
Definition kpo (t : token) : tok * bytes * bool := (t_kind t, t_payload t, t_owned t).

(* ---- the named Lang AST (every id None / 0); [num] reads a number literal (the Rust code keeps the
   text in the tree and calls str::parse::<f64> in the resolver / runtime) *)
Definition to_lang_seg (g : Template.tseg) : Lang.seg :=
  match g with Template.TSLit s => Lang.SegLit s | Template.TSVar n => Lang.SegVar n None end.

Fixpoint to_lang_expr (num : bytes -> F64.f64) (e : sexpr) : Lang.expr :=
  match e with
  | XNum t _ => Lang.ENum (num t)
  | XStr _ _ (Template.SStatic s) _ => Lang.EStr s
  | XStr _ _ (Template.SInterp segs) _ => Lang.EInterp (map to_lang_seg segs)
  | XBool b _ => Lang.EBool b
  | XNull _ => Lang.ENull
  | XVar n _ => Lang.EVar n None
  | XBin op l r _ => Lang.EBin op (to_lang_expr num l) (to_lang_expr num r)
  | XUn op a _ => Lang.EUn op (to_lang_expr num a)
  | XArr es _ => Lang.EArr (map (to_lang_expr num) es)
  | XIdx a i _ _ => Lang.EIdx (to_lang_expr num a) (to_lang_expr num i)
  | XMember o f _ _ => Lang.EMember (to_lang_expr num o) f
  | XCall c args _ => Lang.ECall (to_lang_expr num c) (map (to_lang_expr num) args) None
  end.

Fixpoint to_lang_stmt (num : bytes -> F64.f64) (s : sstmt) : Lang.stmt :=
  match s with
  | YFun n _ ps _ body _ _ => Lang.SFun None n ps (map (to_lang_stmt num) body) None 0%Z 0%Z
  | YMake x _ e _ => Lang.SMake None x None (to_lang_expr num e)
  | YSet x _ e _ => Lang.SSet None x None (to_lang_expr num e)
  | YSetIdx t e _ => Lang.SSetIdx None (to_lang_expr num t) (to_lang_expr num e)
  | YIf c t _ he f _ _ =>
      Lang.SIf None (to_lang_expr num c) (map (to_lang_stmt num) t)
               (if he then Some (map (to_lang_stmt num) f) else None)
  | YLoop c b _ _ => Lang.SLoop None (to_lang_expr num c) (map (to_lang_stmt num) b)
  | YBlock b _ _ => Lang.SBlock None (map (to_lang_stmt num) b)
  | YRet e _ => Lang.SRet None (option_map (to_lang_expr num) e)
  | YBreak _ => Lang.SBreak None
  | YNext _ => Lang.SNext None
  | YExpr e _ => Lang.SExpr None (to_lang_expr num e)
  end.

Definition to_lang (num : bytes -> F64.f64) (ss : list sstmt) : list Lang.stmt := map (to_lang_stmt num) ss.
