(* ParserShape — the one shape guarantee of the PARSER that C06's structural checker relies on
   (definitions only; proofs in proofs/ParserShapeProofs.v): the target of every index
   assignment in a syntax tree is an index expression (src/syntax/parser.rs builds
   Stmt::AssignIndex only when the assignment target it parsed is Expr::Index). *)
From Coq Require Import List Bool.
Require Import NS.theories.Parser.
Import ListNotations.

Definition is_xidx (e : sexpr) : bool := match e with XIdx _ _ _ _ => true | _ => false end.

Fixpoint yidx (s : sstmt) {struct s} : bool :=
  match s with
  | YSetIdx t _ _ => is_xidx t
  | YFun _ _ _ _ body _ _ => forallb yidx body
  | YIf _ t _ he f _ _ => forallb yidx t && (if he then forallb yidx f else true)
  | YLoop _ b _ _ | YBlock b _ _ => forallb yidx b
  | _ => true
  end.
