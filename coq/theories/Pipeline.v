(* Pipeline.v — the WHOLE pipeline from source bytes to printed values, assembled from the
   per-property models.  Definitions only; proofs in proofs/Pipeline*.v, statements in
   Properties/PIPELINE.v.

     source bytes
       --Lexer.lex (variant read off scanner.rs)-->            tokens, lexical diagnostics
       --Parser.parse_program (variant read off parser.rs)-->  tree with spans, syntax diagnostics
       --Parser.to_lang NumParse.to_number-->                  named Lang AST (no ids)
       --StaticRules.check-->                                  rule violations (error level)
       accepted?  --Spec.run_spec-->                           printed values, ending   (run_source)
                  --LexResolve.lex_ids--Lang.run_impl None-->  printed values, ending   (run_source_impl)

   What "accepted" mirrors (src/bin/naija/cmd.rs run_source, tests/common.rs with_pipeline and
   its users, harness/src/lang.rs one_case): the parser merges the lexer's diagnostics (those of
   the calls it made) in front of its own; ANY diagnostic of that merged list stops the pipeline
   before the resolver; the resolver's error-level diagnostics (StaticRules models exactly the
   error-level rules; warnings do not stop a run) stop it before the runtime.

   The parser pulls tokens lazily (Parser.p_pulled / p_lexed_all) and the lexer only records the
   diagnostics of the `next()` calls that were made, so a lexical error behind the point where the
   parser gave up is never reported: [lex_calls n] is the diagnostics of the first n calls.

   Number literals: the tree keeps the literal text; resolver and runtime call
   `text.parse::<f64>()` on it.  The model reads it with NumParse.to_number (C13: Rust's
   dec2flt grammar + correct rounding); proofs/PipelineProofs.v shows that every Number token the
   lexer model can produce is inside the decimal grammar (never the NaN fallback). *)
From Coq Require Import ZArith List Bool Arith.
Require Import NS.theories.Utf8 NS.theories.GenLexer NS.theories.Lexer NS.theories.GenParser NS.theories.Parser.
Require NS.theories.F64 NS.theories.Lang NS.theories.Spec NS.theories.NumParse
        NS.theories.StaticRules NS.theories.LexResolve.
Import ListNotations.
Open Scope nat_scope.

(* ------------------------------------------------------------------ lexer diagnostics reported *)

(* the diagnostics pushed by the first [n] calls of `Iterator::next` on the lexer (a call that
   returns None leaves the lexer at the end of the text: later calls push nothing) *)
Fixpoint lex_calls (n : nat) (v : variant) (s : bytes) (c : cursor) : outcome (list diag) :=
  match n with
  | O => Ok []
  | S n' =>
      match next_token (token_fuel c) v s c with
      | Ok (t, c', ds) =>
          if is_eof t && (length s <=? c_pos c') then Ok ds
          else match lex_calls n' v s c' with
               | Ok ds' => Ok (ds ++ ds')
               | other => other
               end
      | LexPanic site p => LexPanic site p
      | OutOfFuel => OutOfFuel
      end
  end.

(* Parser::new and every bump call lexer.next() once: [p_pulled] calls returned a token, and
   when the parser ever saw the end ([p_lexed_all]) one more call returned None *)
Definition calls_made (p : parsed) : nat := p_pulled p + (if p_lexed_all p then 1 else 0).

(* ------------------------------------------------------------------ the front end *)

Definition num_of_text : bytes -> F64.f64 := NumParse.to_number.

Record front_data := {
  fd_tokens : list token;                        (* every token of the text *)
  fd_lex_all : list diag;                        (* every lexical diagnostic of the text *)
  fd_lex : list diag;                            (* those the pipeline reports *)
  fd_parsed : parsed;                            (* tree with spans, syntax diagnostics *)
  fd_ast : list Lang.stmt;                       (* named AST, every id None *)
  fd_viol : list StaticRules.violation           (* broken static rules (error level) *)
}.

(* the non-results; Properties/PIPELINE.v shows none of them occurs on valid UTF-8 *)
Inductive front_failure :=
  | FLexPanic (site : panic_site) (at_pos : nat)
  | FLexFuel
  | FParseFuel.

Inductive front_result :=
  | Front (d : front_data)
  | FrontFails (f : front_failure).

Definition failure_of_lex {A} (r : outcome A) : front_failure :=
  match r with
  | LexPanic site p => FLexPanic site p
  | _ => FLexFuel
  end.

Definition front (src : bytes) : front_result :=
  match lex Lexer.variant_of_source src with
  | Ok (toks, ldiags, _) =>
      match parse_program Parser.variant_of_source toks with
      | Done p =>
          match lex_calls (calls_made p) Lexer.variant_of_source src (start_cursor src) with
          | Ok reported =>
              let ast := to_lang num_of_text (p_stmts p) in
              Front {| fd_tokens := toks; fd_lex_all := ldiags; fd_lex := reported;
                       fd_parsed := p; fd_ast := ast; fd_viol := StaticRules.check ast |}
          | other => FrontFails (failure_of_lex other)
          end
      | NoFuel => FrontFails FParseFuel
      end
  | other => FrontFails (failure_of_lex other)
  end.

Definition is_nil {A} (l : list A) : bool := match l with [] => true | _ :: _ => false end.

(* "do run": no diagnostic in the merged lexer + parser list, no error-level resolver diagnostic *)
Definition accepted (d : front_data) : bool :=
  is_nil (fd_lex d) && is_nil (p_diags (fd_parsed d)) && is_nil (fd_viol d).

Inductive phase := PhLexical | PhSyntax | PhStatic.

(* the phase that stopped the pipeline: the merged parse-phase list is lexical diagnostics first,
   then syntax diagnostics; the resolver only runs when that list is empty *)
Definition rejecting_phase (d : front_data) : option phase :=
  if negb (is_nil (fd_lex d)) then Some PhLexical
  else if negb (is_nil (p_diags (fd_parsed d))) then Some PhSyntax
  else if negb (is_nil (fd_viol d)) then Some PhStatic
  else None.

(* what the user is shown on rejection: the merged parse-phase list, or (only when it is empty)
   the resolver's errors *)
Record rejection := {
  rj_lex : list diag;
  rj_syntax : list pdiag;
  rj_static : list StaticRules.violation
}.

Definition rejection_of (d : front_data) : rejection :=
  if is_nil (fd_lex d) && is_nil (p_diags (fd_parsed d))
  then {| rj_lex := []; rj_syntax := []; rj_static := fd_viol d |}
  else {| rj_lex := fd_lex d; rj_syntax := p_diags (fd_parsed d); rj_static := [] |}.

(* ------------------------------------------------------------------ running *)

(* E = the ending type of the evaluator (Spec.sending / Lang.ending) *)
Inductive outcome_of (E : Type) :=
  | Ran (outs : list Lang.value) (e : E)             (* accepted and evaluated *)
  | Rejected (ph : phase) (r : rejection)            (* diagnostics: never evaluated *)
  | NoFront (f : front_failure)                      (* lexer panic / fuel (impossible on valid UTF-8) *)
  | Unresolved.                                      (* accepted, but the names-only resolution failed
                                                        (run_source_impl only) *)
Arguments Ran {E} outs e.
Arguments Rejected {E} ph r.
Arguments NoFront {E} f.
Arguments Unresolved {E}.

(* the reference pipeline: documented semantics over names *)
Definition spec_of_front (eps : F64.f64) (fuel : nat) (r : front_result) : outcome_of Spec.sending :=
  match r with
  | FrontFails f => NoFront f
  | Front d =>
      match rejecting_phase d with
      | Some ph => Rejected ph (rejection_of d)
      | None => let '(o, e) := Spec.run_spec eps fuel (fd_ast d) in Ran o e
      end
  end.

Definition run_source (eps : F64.f64) (fuel : nat) (src : bytes) : outcome_of Spec.sending :=
  spec_of_front eps fuel (front src).

(* the ids the runtime is directed by: C04's names-only resolution of the parser's tree *)
Definition ids (ast : list Lang.stmt) : option (list Lang.stmt) := LexResolve.lex_ids ast.

(* the id-directed twin: the transcription of src/runtime.rs on the resolved tree, no plan *)
Definition impl_of_front (eps : F64.f64) (fuel : nat) (r : front_result) : outcome_of Lang.ending :=
  match r with
  | FrontFails f => NoFront f
  | Front d =>
      match rejecting_phase d with
      | Some ph => Rejected ph (rejection_of d)
      | None =>
          match ids (fd_ast d) with
          | Some p => let '(o, e) := Lang.run_impl None eps fuel p in Ran o e
          | None => Unresolved
          end
      end
  end.

Definition run_source_impl (eps : F64.f64) (fuel : nat) (src : bytes) : outcome_of Lang.ending :=
  impl_of_front eps fuel (front src).

(* ------------------------------------------------------------------ observations without positions
   (what two layouts of one token sequence must share) *)

Definition ldiag_kind (d : diag) : lexerr * Z := (d_err d, d_label d).

Record front_view := {
  fv_tokens : list (tok * bytes * bool);
  fv_lex : list (lexerr * Z);
  fv_syntax : list (synerr * option bytes);
  fv_tree : list sstmt;                          (* the tree with every position forgotten *)
  fv_ast : list Lang.stmt;
  fv_viol : list StaticRules.violation;
  fv_accepted : bool
}.

Definition view_of (d : front_data) : front_view :=
  {| fv_tokens := map kpo (fd_tokens d);
     fv_lex := map ldiag_kind (fd_lex d);
     fv_syntax := diag_kinds (p_diags (fd_parsed d));
     fv_tree := strip_stmts (p_stmts (fd_parsed d));
     fv_ast := fd_ast d;
     fv_viol := fd_viol d;
     fv_accepted := accepted d |}.

Definition front_view_of (r : front_result) : option front_view :=
  match r with Front d => Some (view_of d) | FrontFails _ => None end.

Record rejection_view := {
  rv_lex : list (lexerr * Z);
  rv_syntax : list (synerr * option bytes);
  rv_static : list StaticRules.violation
}.

Definition rejection_view_of (r : rejection) : rejection_view :=
  {| rv_lex := map ldiag_kind (rj_lex r); rv_syntax := diag_kinds (rj_syntax r); rv_static := rj_static r |}.

Inductive outcome_view (E : Type) :=
  | VRan (outs : list Lang.value) (e : E)
  | VRejected (ph : phase) (r : rejection_view)
  | VNoFront
  | VUnresolved.
Arguments VRan {E} outs e.
Arguments VRejected {E} ph r.
Arguments VNoFront {E}.
Arguments VUnresolved {E}.

Definition outcome_view_of {E} (o : outcome_of E) : outcome_view E :=
  match o with
  | Ran outs e => VRan outs e
  | Rejected ph r => VRejected ph (rejection_view_of r)
  | NoFront _ => VNoFront
  | Unresolved => VUnresolved
  end.

(* ------------------------------------------------------------------ number literals
   the spellings a Number token can have: digits, or digits '.' digits *)
Definition all_digits (d : bytes) : bool :=
  match d with _ :: _ => forallb is_digit d | [] => false end.

Fixpoint split_at_dot (d : bytes) : bytes * option bytes :=
  match d with
  | [] => ([], None)
  | b :: t => if (b =? 46)%Z then ([], Some t)
              else let '(i, f) := split_at_dot t in (b :: i, f)
  end.

Definition number_literal (p : bytes) : bool :=
  match split_at_dot p with
  | (i, None) => all_digits i
  | (i, Some f) => all_digits i && all_digits f
  end.

(* every XNum leaf of a tree carries such a text, or the parser's placeholder "0" (which is one) *)
Definition tok_number_ok (t : token) : bool :=
  if tok_eqb (t_kind t) TNumber then number_literal (t_payload t) else true.

(* ------------------------------------------------------------------ worked example (bytes)
   make x get 2 add 3 times 4
   do f(a) start return a minus 1 end
   shout(f(x))
   shout("v={x}")                           -> prints 13 and "v=14" *)
Definition ex_src_line : bytes :=
  [109;97;107;101;32;120;32;103;101;116;32;50;32;97;100;100;32;51;32;116;105;109;101;115;32;52;10;
   100;111;32;102;40;97;41;32;115;116;97;114;116;32;114;101;116;117;114;110;32;97;32;109;105;110;117;115;32;49;32;101;110;100;10;
   115;104;111;117;116;40;102;40;120;41;41;10;
   115;104;111;117;116;40;34;118;61;123;120;125;34;41;10]%Z.

(* the same token sequence: a leading comment, one token per line / TAB / FF / CRLF, a comment
   in the middle, no final line break *)
Definition ex_src_tall : bytes :=
  [35;32;104;101;97;100;13;10;
   109;97;107;101;10;120;9;103;101;116;12;50;32;35;32;116;119;111;10;97;100;100;13;10;51;10;116;105;109;101;115;10;10;52;10;
   100;111;10;102;10;40;10;97;10;41;10;115;116;97;114;116;10;114;101;116;117;114;110;10;97;10;109;105;110;117;115;10;49;10;101;110;100;10;
   115;104;111;117;116;32;40;32;102;32;40;32;120;32;41;32;41;32;
   115;104;111;117;116;40;10;34;118;61;123;120;125;34;10;41;32;35;32;98;121;101]%Z.

(* a program the static rules reject (y is not declared), one with a syntax error, one with a
   lexical error *)
Definition ex_src_static : bytes := [115;104;111;117;116;40;121;41]%Z.               (* shout(y) *)
Definition ex_src_syntax : bytes := [109;97;107;101;32;103;101;116;32;49]%Z.          (* make get 1 *)
Definition ex_src_lexical : bytes := [109;97;107;101;32;120;32;103;101;116;32;64;49]%Z. (* make x get @1 *)
(* the parser gives up at `)`; the unterminated string behind it is never lexed *)
Definition ex_src_unlexed : bytes :=
  [109;97;107;101;32;120;32;103;101;116;32;41;32;34;97;98;99]%Z.                      (* make x get ) <quote>abc *)
