(* PlanCheck — C03: a checker for optimisation plans (translation validation).

   The static analysis of /repo (cfg.rs, reachability.rs, summary.rs, liveness.rs,
   diagnostics.rs, opt.rs: ~3000 lines) is NOT transcribed.  Instead this file defines, on
   the resolved AST of Lang.v, syntactic classes of plan entries whose removal is proved
   (proofs/PlanProofs.v) not to change `Lang.run_impl`, and an executable classifier
   `plan_ok` that is run (extracted) on the plan the real analysis produced for each
   generated program:

     Unreachable  the statement lies after a statement that can never complete normally
                  (return / comot / next / if-else and blocks made of such) in its own
                  block, or inside a statement so positioned;
     UnusedFn     the function id is outside a set of function ids that is closed under
                  "called from the root's / a member's live code";
     NeverRead    `make`/assignment to a local that is read nowhere in the program, all of
                  whose writers are pruned, and whose right-hand side is a total pure
                  expression (literals, operator trees over literals with fitting types,
                  variable reads, interpolations, arrays of those);
   everything else the analysis prunes (dead stores found by flow-sensitive liveness, right
   hand sides with calls or with operators on variables) is NOT covered by a theorem and is
   reported as such (classes DeadStore* below); it stays in the residual plan `c_p2`, and the
   theorem proved is  run (plan) = run (residual plan).

   Definitions only; no proofs. *)
From Coq Require Import ZArith List Bool.
Require Import NS.theories.F64 NS.theories.StrLib NS.theories.Lang.
Import ListNotations.
Open Scope Z_scope.

Definition memz (i : Z) (l : list Z) : bool := existsb (Z.eqb i) l.

Definition stmts_of (p : plan) : list Z := match p with Some (ss, _) => ss | None => [] end.
Definition fns_of (p : plan) : list Z := match p with Some (_, fs) => fs | None => [] end.

(* ---------- statements that can never complete normally ---------- *)
Fixpoint never_normal (t : stmt) : bool :=
  match t with
  | SRet _ _ | SBreak _ | SNext _ => true
  | SIf _ _ th (Some el) => existsb never_normal th && existsb never_normal el
  | SBlock _ b => existsb never_normal b
  | _ => false
  end.

(* the same relative to a plan: a nested statement the plan skips does not end its block *)
Fixpoint nn_p (p : plan) (t : stmt) : bool :=
  match t with
  | SRet _ _ | SBreak _ | SNext _ => true
  | SIf _ _ th (Some el) =>
      existsb (fun x => nn_p p x && negb (in_plan_stmt p (stmt_sid x))) th &&
      existsb (fun x => nn_p p x && negb (in_plan_stmt p (stmt_sid x))) el
  | SBlock _ b => existsb (fun x => nn_p p x && negb (in_plan_stmt p (stmt_sid x))) b
  | _ => false
  end.

Definition oid (o : option Z) : list Z := match o with Some i => [i] | None => [] end.

(* ids of the statements in live positions: not after a never-normal statement of their
   block and not nested in a statement so positioned.  A function body is a fresh live
   region wherever its definition stands (definitions are hoisted). *)
Definition ids_block_with (f : bool -> stmt -> list Z) : bool -> list stmt -> list Z :=
  fix go (lv : bool) (b : list stmt) {struct b} : list Z :=
  match b with
  | [] => []
  | x :: r => f lv x ++ go (lv && negb (never_normal x)) r
  end.

Fixpoint lids (live : bool) (t : stmt) {struct t} : list Z :=
  (if live then oid (stmt_sid t) else []) ++
  match t with
  | SFun _ _ _ body _ _ _ => ids_block_with lids true body
  | SIf _ _ th el =>
      ids_block_with lids live th ++ match el with Some e => ids_block_with lids live e | None => [] end
  | SLoop _ _ body => ids_block_with lids live body
  | SBlock _ body => ids_block_with lids live body
  | _ => []
  end.

Definition live_ids_block (lv : bool) (b : list stmt) : list Z := ids_block_with lids lv b.

Definition prunable_unreachable (prog : list stmt) (i : Z) : bool :=
  negb (memz i (live_ids_block true prog)).

(* ---------- pure expressions ---------- *)
Inductive lty := TNum | TStr | TBool | TNull | TArr.

Definition is_seglit (sg : seg) : bool := match sg with SegLit _ => true | SegVar _ _ => false end.

Definition boolish (t : lty) : bool := match t with TBool | TNull => true | _ => false end.

Definition bin_ty (op : binop) (a b : lty) : option lty :=
  match op with
  | Add => match a, b with
           | TNum, TNum => Some TNum
           | TStr, TStr | TStr, TNum | TNum, TStr => Some TStr
           | _, _ => None
           end
  | Minus | Times => match a, b with TNum, TNum => Some TNum | _, _ => None end
  | Divide | Mod => None
  | And | Or => if boolish a && boolish b then Some TBool else None
  | OEq | OGt | OLt =>
      match a, b with
      | TNum, TNum | TStr, TStr | TBool, TBool => Some TBool
      | TNull, _ | _, TNull => Some TBool
      | _, _ => None
      end
  end.

(* type of an expression built from literals and template strings whose operators cannot fail
   (the image of literal_type in src/resolver.rs, where `Expr::String` covers templates) *)
Fixpoint lit_ty (e : expr) : option lty :=
  match e with
  | ENum _ => Some TNum
  | EStr _ => Some TStr
  | EBool _ => Some TBool
  | ENull => Some TNull
  | EInterp _ => Some TStr     (* a template string: whatever its variables hold, the result is a string *)
  | EArr es =>
      if forallb (fun x => match lit_ty x with Some _ => true | None => false end) es
      then Some TArr else None
  | EBin op a b =>
      match lit_ty a, lit_ty b with
      | Some ta, Some tb => bin_ty op ta tb
      | _, _ => None
      end
  | EUn Not a => match lit_ty a with Some t => if boolish t then Some TBool else None | None => None end
  | EUn Neg a => match lit_ty a with Some TNum => Some TNum | _ => None end
  | _ => None
  end.

Definition has_ty (v : value) (t : lty) : bool :=
  match v, t with
  | VNum _, TNum | VStr _, TStr | VBool _, TBool | VNull, TNull | VArr _, TArr => true
  | _, _ => false
  end.

(* evaluates to a value without output and without touching the state, in every state in
   which the variables it mentions are bound *)
Fixpoint pure_total (e : expr) : bool :=
  match e with
  | EVar _ _ => true
  | EInterp _ => true
  | EArr es => forallb pure_total es
  | ECall (EVar f _) [a] _ =>
      (* the two global built-ins src/analysis/effects.rs calls PureNoTrap that the model has *)
      match global_builtin f with
      | Some GTypeOf | Some GToString => pure_total a
      | _ => false
      end
  | _ => match lit_ty e with Some _ => true | None => false end
  end.

(* the syntactic image of classify_expr = PureNoTrap (src/resolver.rs) without calls:
   no output, no state change, but operators may still raise Type mismatch *)
Fixpoint pure_notrap_expr (e : expr) : bool :=
  match e with
  | ENum _ | EStr _ | EBool _ | ENull | EVar _ _ | EInterp _ => true
  | EBin op a b =>
      match op with Divide | Mod => false | _ => pure_notrap_expr a && pure_notrap_expr b end
  | EUn _ a => pure_notrap_expr a
  | EArr es => forallb pure_notrap_expr es
  | _ => false
  end.

(* ids with a slot in each open scope of the activation after t has executed *)
Definition decl1 (Ds : list (list Z)) (t : stmt) : list (list Z) :=
  match t with
  | SMake _ _ (Some x) _ =>
      match Ds with
      | D :: r => (if memz x D then D else x :: D) :: r
      | [] => []
      end
  | _ => Ds
  end.

(* parameter ids, in the order bind_params leaves the slots *)
Fixpoint param_ids (ls : Z) (ps : list name) (k : Z) (acc : list Z) : list Z :=
  match ps with
  | [] => acc
  | _ :: r => param_ids ls r (k + 1) ((ls + k) :: acc)
  end.


Definition is_fun (t : stmt) : bool := match t with SFun _ _ _ _ _ _ _ => true | _ => false end.

(* ---------- pure, trap-free callees (round 4) ----------
   The analysis prunes a store whose right-hand side calls a user function when the callee's
   transitive class is PureNoTrap and it has no transitive capture write (opt.rs
   stmt_effective_class, summary.rs).  `pf_stmts P pt Ds body` is the verified image of that
   class for a callee body run under plan P: every expression is total and pure (pfe: pure_total
   plus calls of functions of the table pt), conditions are boolean/null literals trees,
   assignments go to locals of the running activation (tracked in Ds as in LiveCheck), there
   is no index assignment, mutation, output or nested definition.  Nothing is required about
   termination: a callee that loops or recurses for ever is in the class. *)
Fixpoint pfe (pt : list Z) (e : expr) {struct e} : bool :=
  match e with
  | EVar _ _ => true
  | EInterp _ => true
  | EArr es => forallb (pfe pt) es
  | ECall (EVar f _) args tgt =>
      match global_builtin f with
      | Some GTypeOf | Some GToString => match args with [a] => pfe pt a | _ => false end
      | Some _ => false
      | None => match tgt with
                | Some t => memz t pt && forallb (pfe pt) args
                | None => false
                end
      end
  | _ => match lit_ty e with Some _ => true | None => false end
  end.

Definition cond_ok (e : expr) : bool :=
  match lit_ty e with Some TBool | Some TNull => true | _ => false end.

Definition pf_stmts_with (P : plan) (pfs : list (list Z) -> stmt -> bool)
  : list (list Z) -> list stmt -> bool :=
  fix go (Ds : list (list Z)) (ts : list stmt) {struct ts} : bool :=
  match ts with
  | [] => true
  | t :: r =>
      if is_fun t then false                                  (* would be hoisted *)
      else if in_plan_stmt P (stmt_sid t) then go Ds r
      else pfs Ds t && go (decl1 Ds t) r
  end.

Fixpoint pf_stmt (P : plan) (pt : list Z) (Ds : list (list Z)) (t : stmt) {struct t} : bool :=
  let blk := pf_stmts_with P (pf_stmt P pt) in
  match t with
  | SMake _ _ (Some _) e => pfe pt e && negb (Nat.eqb (length Ds) 0)
  | SSet _ _ (Some x) e => pfe pt e && memz x (concat Ds)
  | SIf _ c th el =>
      cond_ok c && blk ([] :: Ds) th && match el with Some b => blk ([] :: Ds) b | None => true end
  | SLoop _ c body => cond_ok c && blk ([] :: Ds) body
  | SBlock _ body => blk ([] :: Ds) body
  | SRet _ None => true
  | SRet _ (Some e) => pfe pt e
  | SBreak _ | SNext _ => true
  | SExpr _ e => pfe pt e
  | _ => false
  end.
Definition pf_stmts (P : plan) (pt : list Z) := pf_stmts_with P (pf_stmt P pt).

(* the body of function f, if f is in the table *)
Definition pf_fun (P : plan) (pt : list Z) (fid : option Z) (ls : Z) (ps : list name) (body : list stmt) : bool :=
  match fid with
  | Some f => if memz f pt then pf_stmts P pt [[]; param_ids ls ps 0 []] body else true
  | None => true
  end.

(* ---------- the configuration a plan is checked against ---------- *)
Record pcfg := {
  c_p1 : plan;          (* the plan under test *)
  c_p2 : plan;          (* residual plan: the entries of c_p1 not covered by a class *)
  c_dead : list Z;      (* never-read local ids all of whose writers are pruned by c_p1 only *)
  c_live : list Z;      (* function ids that live code may call *)
  c_all : bool;         (* every function counts as live (then c_p1 prunes no function c_p2 keeps) *)
  c_nr : bool;          (* never-read entries allowed (then fuel / missing-variable endings of the residual run are excluded) *)
  c_calls : bool;       (* round 5: right-hand sides of dropped never-read stores may call the functions of c_pt *)
  c_pt : list Z         (* functions whose bodies are pure and trap-free under plan c_p2 (pf_stmts) *)
}.

Definition only1_stmt (c : pcfg) (sid : option Z) : bool :=
  in_plan_stmt (c_p1 c) sid && negb (in_plan_stmt (c_p2 c) sid).
Definition only1_fn (c : pcfg) (fid : option Z) : bool :=
  in_plan_fn (c_p1 c) fid && negb (in_plan_fn (c_p2 c) fid).

Definition var_ok (c : pcfg) (l : option Z) : bool :=
  match l with
  | Some i => negb (memz i (c_dead c))
  | None => match c_dead c with [] => true | _ => false end
  end.

Definition call_ok (c : pcfg) (target : option Z) : bool :=
  match target with
  | Some t => c_all c || memz t (c_live c)
  | None => c_all c
  end.

Definition fn_live (c : pcfg) (fid : option Z) : bool :=
  c_all c || match fid with Some t => memz t (c_live c) | None => false end.

Definition seg_ok (c : pcfg) (sg : seg) : bool :=
  match sg with SegLit _ => true | SegVar _ l => var_ok c l end.

Fixpoint expr_ok (c : pcfg) (e : expr) : bool :=
  match e with
  | ENum _ | EStr _ | EBool _ | ENull => true
  | EInterp segs => forallb (seg_ok c) segs
  | EVar _ l => var_ok c l
  | EBin _ a b => expr_ok c a && expr_ok c b
  | EUn _ a => expr_ok c a
  | EArr es => forallb (expr_ok c) es
  | EIdx a i => expr_ok c a && expr_ok c i
  | EMember o _ => expr_ok c o
  | ECall callee args target =>
      forallb (expr_ok c) args &&
      match callee with
      | EMember o _ => expr_ok c o
      | EVar f _ => match global_builtin f with Some _ => true | None => call_ok c target end
      | _ => true
      end
  end.

Definition params_ok (c : pcfg) (ls : Z) (np : nat) : bool :=
  forallb (fun d => negb ((ls <=? d) && (d <? ls + Z.of_nat np))) (c_dead c).

(* what c_p1 may skip although c_p2 executes it, in a live position *)
Definition pruned_ok (c : pcfg) (t : stmt) : bool :=
  match t with
  | SMake _ _ (Some d) e | SSet _ _ (Some d) e =>
      c_nr c && memz d (c_dead c) && (if c_calls c then pfe (c_pt c) e else pure_total e)
  | _ => false
  end.


Definition item_ok_with (sok : stmt -> bool) (c : pcfg) (live : bool) (x : stmt) : bool :=
  (if is_fun x then sok x else true)
  && (if live then
        if in_plan_stmt (c_p2 c) (stmt_sid x) then true
        else if in_plan_stmt (c_p1 c) (stmt_sid x) then pruned_ok c x
        else sok x
      else true).

Definition next_live (c : pcfg) (live : bool) (x : stmt) : bool :=
  live && negb (nn_p (c_p2 c) x && negb (in_plan_stmt (c_p2 c) (stmt_sid x))).

Definition block_ok_with (sok : stmt -> bool) (c : pcfg) : bool -> list stmt -> bool :=
  fix go (live : bool) (b : list stmt) {struct b} : bool :=
  match b with
  | [] => true
  | x :: r => item_ok_with sok c live x && go (next_live c live x) r
  end.

Fixpoint stmt_ok (c : pcfg) (t : stmt) {struct t} : bool :=
  match t with
  | SFun _ _ ps body fid ls _ =>
      (if c_calls c then pf_fun (c_p2 c) (c_pt c) fid ls ps body else true) &&
      (if fn_live c fid then block_ok_with (stmt_ok c) c true body && params_ok c ls (length ps) else true)
  | SMake _ _ l e => var_ok c l && expr_ok c e
  | SSet _ _ l e => var_ok c l && expr_ok c e
  | SSetIdx _ tg e => expr_ok c tg && expr_ok c e
  | SIf _ cnd th el =>
      expr_ok c cnd && block_ok_with (stmt_ok c) c true th &&
      match el with Some b => block_ok_with (stmt_ok c) c true b | None => true end
  | SLoop _ cnd body => expr_ok c cnd && block_ok_with (stmt_ok c) c true body
  | SBlock _ body => block_ok_with (stmt_ok c) c true body
  | SRet _ (Some e) => expr_ok c e
  | SRet _ None => true
  | SBreak _ | SNext _ => true
  | SExpr _ e => expr_ok c e
  end.

Definition item_ok (c : pcfg) := item_ok_with (stmt_ok c) c.
Definition block_ok (c : pcfg) := block_ok_with (stmt_ok c) c.

Definition cfg_ok (c : pcfg) : bool :=
  forallb (fun i => in_plan_stmt (c_p1 c) (Some i)) (stmts_of (c_p2 c)) &&
  forallb (fun i => in_plan_fn (c_p1 c) (Some i)) (fns_of (c_p2 c)) &&
  forallb (fun t => negb (only1_fn c (Some t))) (c_live c) &&
  (if c_all c then forallb (fun i => in_plan_fn (c_p2 c) (Some i)) (fns_of (c_p1 c)) else true).

(* the hypothesis of the soundness theorem *)
Definition covered_ok (c : pcfg) (prog : list stmt) : bool :=
  cfg_ok c && block_ok c true prog.

(* ---------- the configurations of the three class theorems ---------- *)
Definition ucfg (ss : list Z) : pcfg :=
  {| c_p1 := Some (ss, []); c_p2 := None; c_dead := []; c_live := []; c_all := true; c_nr := false; c_calls := false; c_pt := [] |}.

Definition fcfg (fs live : list Z) : pcfg :=
  {| c_p1 := Some ([], fs); c_p2 := None; c_dead := []; c_live := live; c_all := false; c_nr := false; c_calls := false; c_pt := [] |}.
(* `live` is closed under calls from live code and contains none of fs *)
Definition unused_fns_ok (prog : list stmt) (fs live : list Z) : bool := covered_ok (fcfg fs live) prog.

Definition ncfg (ss dead : list Z) : pcfg :=
  {| c_p1 := Some (ss, []); c_p2 := None; c_dead := dead; c_live := []; c_all := true; c_nr := true; c_calls := false; c_pt := [] |}.
Definition never_read_ok (prog : list stmt) (ss dead : list Z) : bool := covered_ok (ncfg ss dead) prog.

(* endings of the residual run that are excluded when never-read entries are dropped:
   fuel exhaustion (the dropped right-hand side costs fuel) and the three "variable is not
   there" panic sites of runtime.rs (scoping is the resolver's business: C04/C06) *)
Definition tol_ending (e : ending) : bool :=
  match e with
  | EFuel => true
  | Panicked PVarMissing | Panicked PSegVar | Panicked PAssignMissing => true
  | _ => false
  end.

(* round 4: when stores whose right-hand side calls a user function are dropped, four more
   endings of the less-pruned run are not compared: the panic sites the resolver rules out
   (WfStatic.wf_static: argument count, parameter range, stray loop control; WfScoped: the
   callee is registered) *)
Definition xsite_ending (e : ending) : bool :=
  match e with
  | Panicked PFuncMissing | Panicked PArgCount | Panicked PParamRange | Panicked PBreakEscapes => true
  | _ => false
  end.
Definition tol_ending_x (calls : bool) (e : ending) : bool := tol_ending e || (calls && xsite_ending e).

(* ---------- collecting facts for the classifier ---------- *)
Definition seg_vars (sg : seg) : list Z := match sg with SegLit _ => [] | SegVar _ l => oid l end.

Fixpoint expr_vars (e : expr) : list Z :=
  match e with
  | ENum _ | EStr _ | EBool _ | ENull => []
  | EInterp segs => flat_map seg_vars segs
  | EVar _ l => oid l
  | EBin _ a b => expr_vars a ++ expr_vars b
  | EUn _ a => expr_vars a
  | EArr es => flat_map expr_vars es
  | EIdx a i => expr_vars a ++ expr_vars i
  | EMember o _ => expr_vars o
  | ECall callee args _ => expr_vars callee ++ flat_map expr_vars args
  end.

Fixpoint expr_calls (e : expr) : list Z :=
  match e with
  | ENum _ | EStr _ | EBool _ | ENull | EInterp _ | EVar _ _ => []
  | EBin _ a b => expr_calls a ++ expr_calls b
  | EUn _ a => expr_calls a
  | EArr es => flat_map expr_calls es
  | EIdx a i => expr_calls a ++ expr_calls i
  | EMember o _ => expr_calls o
  | ECall callee args target =>
      flat_map expr_calls args ++
      match callee with
      | EMember o _ => expr_calls o
      | EVar f _ => match global_builtin f with Some _ => [] | None => oid target end
      | _ => []
      end
  end.

Definition stmt_exprs (t : stmt) : list expr :=
  match t with
  | SMake _ _ _ e | SSet _ _ _ e | SExpr _ e | SRet _ (Some e) => [e]
  | SSetIdx _ tg e => [tg; e]
  | SIf _ c _ _ | SLoop _ c _ => [c]
  | _ => []
  end.

(* generic fold over every statement of a program (all positions, all nesting levels) *)
Fixpoint all_stmts (t : stmt) {struct t} : list stmt :=
  let blk := fix blk (b : list stmt) : list stmt :=
    match b with [] => [] | x :: r => all_stmts x ++ blk r end in
  t :: match t with
       | SFun _ _ _ body _ _ _ => blk body
       | SIf _ _ th el => blk th ++ match el with Some e => blk e | None => [] end
       | SLoop _ _ body | SBlock _ body => blk body
       | _ => []
       end.
Definition all_stmts_block (b : list stmt) : list stmt := flat_map all_stmts b.

(* every local id read anywhere *)
Definition read_ids (prog : list stmt) : list Z :=
  flat_map (fun t => flat_map expr_vars (stmt_exprs t)) (all_stmts_block prog).

Definition writer_of (t : stmt) : option (Z * expr) :=
  match t with
  | SMake _ _ (Some d) e | SSet _ _ (Some d) e => Some (d, e)
  | _ => None
  end.

(* parameter ids of every function *)
Definition all_param_ids (prog : list stmt) : list Z :=
  flat_map (fun t => match t with
                     | SFun _ _ ps _ _ ls _ => map (fun k => ls + Z.of_nat k) (seq 0 (length ps))
                     | _ => []
                     end) (all_stmts_block prog).

(* candidate dead ids: written by some make/assignment, every writer is in the plan and has
   a total pure right-hand side, never read, not a parameter *)
Definition dead_ids (prog : list stmt) (ss : list Z) : list Z :=
  let sts := all_stmts_block prog in
  let reads := read_ids prog in
  let params := all_param_ids prog in
  let bad := flat_map (fun t => match writer_of t with
                                | Some (d, e) =>
                                    if in_plan_stmt (Some (ss, [])) (stmt_sid t) && pure_total e
                                    then [] else [d]
                                | None => []
                                end) sts in
  let cands := flat_map (fun t => match writer_of t with Some (d, _) => [d] | None => [] end) sts in
  nodup Z.eq_dec
    (filter (fun d => negb (memz d bad) && negb (memz d reads) && negb (memz d params)) cands).

(* candidate dead ids, counting only what can execute: statements in live positions of the
   root and of the functions live code can call (a local that only dead code or an unused
   function still mentions is never read by any run) *)
Fixpoint lstmts (lf : list Z) (live : bool) (t : stmt) {struct t} : list stmt :=
  let blk := fix blk (lv : bool) (b : list stmt) {struct b} : list stmt :=
    match b with
    | [] => []
    | x :: r => lstmts lf lv x ++ blk (lv && negb (never_normal x)) r
    end in
  (if live then [t] else []) ++
  match t with
  | SFun _ _ _ body (Some f) _ _ => if memz f lf then blk true body else []
  | SFun _ _ _ _ None _ _ => []
  | SIf _ _ th el => blk live th ++ match el with Some e => blk live e | None => [] end
  | SLoop _ _ body | SBlock _ body => blk live body
  | _ => []
  end.
Fixpoint lstmts_block (lf : list Z) (lv : bool) (b : list stmt) : list stmt :=
  match b with
  | [] => []
  | x :: r => lstmts lf lv x ++ lstmts_block lf (lv && negb (never_normal x)) r
  end.

(* calls made by the statements in live positions of a block, nested function bodies
   excluded (they are separate regions) *)
Fixpoint live_calls (live : bool) (t : stmt) {struct t} : list Z :=
  let blk := fix blk (lv : bool) (b : list stmt) {struct b} : list Z :=
    match b with
    | [] => []
    | x :: r => live_calls lv x ++ blk (lv && negb (never_normal x)) r
    end in
  (if live then flat_map expr_calls (stmt_exprs t) else []) ++
  match t with
  | SFun _ _ _ _ _ _ _ => []
  | SIf _ _ th el => blk live th ++ match el with Some e => blk live e | None => [] end
  | SLoop _ _ body | SBlock _ body => blk live body
  | _ => []
  end.
Fixpoint live_calls_block (lv : bool) (b : list stmt) : list Z :=
  match b with
  | [] => []
  | x :: r => live_calls lv x ++ live_calls_block (lv && negb (never_normal x)) r
  end.

(* (function id, calls of its body's live code) for every definition in the program *)
Definition fn_table (prog : list stmt) : list (Z * list Z) :=
  flat_map (fun t => match t with
                     | SFun _ _ _ body (Some f) _ _ => [(f, live_calls_block true body)]
                     | _ => []
                     end) (all_stmts_block prog).

Fixpoint close_fns (fuel : nat) (tbl : list (Z * list Z)) (r : list Z) : list Z :=
  match fuel with
  | O => r
  | S k =>
      let add := flat_map (fun fc => if memz (fst fc) r then snd fc else []) tbl in
      let r' := nodup Z.eq_dec (r ++ add) in
      if Nat.eqb (length r') (length r) then r else close_fns k tbl r'
  end.

Definition live_fns (prog : list stmt) : list Z :=
  let tbl := fn_table prog in
  close_fns (S (length tbl)) tbl (nodup Z.eq_dec (live_calls_block true prog)).

(* the largest table closed under pf_fun: start from every function, drop the ones that fail *)
Definition fun_defs (prog : list stmt) : list (Z * (Z * (list name * list stmt))) :=
  flat_map (fun t => match t with
                     | SFun _ _ ps body (Some f) ls _ => [(f, (ls, (ps, body)))]
                     | _ => []
                     end) (all_stmts_block prog).
Fixpoint pt_iter (n : nat) (P : plan) (fd : list (Z * (Z * (list name * list stmt)))) (pt : list Z) : list Z :=
  match n with
  | O => pt
  | S k =>
      let pt' := filter (fun f => forallb (fun d => negb (fst d =? f) ||
                                                   pf_stmts P pt [[]; param_ids (fst (snd d)) (fst (snd (snd d))) 0 []]
                                                            (snd (snd (snd d)))) fd) pt in
      if Nat.eqb (length pt') (length pt) then pt else pt_iter k P fd pt'
  end.
Definition mk_pt (P : plan) (prog : list stmt) : list Z :=
  let fd := fun_defs prog in
  pt_iter (S (length fd)) P fd (nodup Z.eq_dec (map fst fd)).

Definition dead_ids_live_gen (ok : expr -> bool) (prog : list stmt) (ss : list Z) : list Z :=
  let sts := lstmts_block (live_fns prog) true prog in
  let reads := flat_map (fun t => flat_map expr_vars (stmt_exprs t)) sts in
  let params := all_param_ids prog in
  let bad := flat_map (fun t => match writer_of t with
                                | Some (d, e) =>
                                    if in_plan_stmt (Some (ss, [])) (stmt_sid t) && ok e
                                    then [] else [d]
                                | None => []
                                end) sts in
  (* candidates: every written local, also those only code that never runs writes *)
  let cands := flat_map (fun t => match writer_of t with Some (d, _) => [d] | None => [] end)
                        (all_stmts_block prog) in
  nodup Z.eq_dec
    (filter (fun d => negb (memz d bad) && negb (memz d reads) && negb (memz d params)) cands).

Definition dead_ids_live := dead_ids_live_gen pure_total.

(* ---------- classification of the entries of a real plan ---------- *)
Inductive pclass :=
| CUnreachable          (* covered: prune_sound_partial_unreachable *)
| CNeverRead            (* covered: prune_sound_partial_never_read *)
| CNeverReadMayFail     (* never read, all writers pruned, but the right-hand side applies
                           operators to variables: can raise Type mismatch (not covered) *)
| CDeadStore            (* make/assignment with a call-free pure right-hand side found dead by
                           flow-sensitive liveness (not covered by a theorem) *)
| CDeadStoreCall        (* the same with calls to user functions / pure built-ins *)
| CNoClass.             (* anything else: the analysis pruned something it must not *)

Inductive fclass := FUnused | FNoClass.

Definition direct_bad_name (f : name) : bool :=
  mem_name f array_mut_methods || mem_name f proc_mut_names.

(* an expression that directly contains an operation pruning must never drop: output,
   input, mutation, process methods, or an operation classified PureMayTrap *)
Fixpoint expr_forbidden (e : expr) : bool :=
  match e with
  | ENum _ | EStr _ | EBool _ | ENull | EInterp _ | EVar _ _ => false
  | EBin op a b =>
      match op with Divide | Mod => true | _ => false end || expr_forbidden a || expr_forbidden b
  | EUn _ a => expr_forbidden a
  | EArr es => existsb expr_forbidden es
  | EIdx _ _ => true
  | EMember _ _ => true      (* a member access that is not a callee always raises Type mismatch *)
  | ECall callee args _ =>
      existsb expr_forbidden args ||
      match callee with
      | EMember o f => direct_bad_name f || expr_forbidden o
      | EVar f _ => match global_builtin f with
                    | Some GShout | Some GReadLine => true
                    | _ => false
                    end
      | _ => true
      end
  end.

(* built from literals, template strings and operators only: whether it can fail is decided by
   lit_ty (the image of literal_type in src/resolver.rs); a pruned one that lit_ty refuses is
   an entry the analysis must never emit *)
Fixpoint closed_lit (e : expr) : bool :=
  match e with
  | ENum _ | EStr _ | EBool _ | ENull | EInterp _ => true
  | EBin _ a b => closed_lit a && closed_lit b
  | EUn _ a => closed_lit a
  | EArr es => forallb closed_lit es
  | _ => false
  end.
Definition lit_trap (e : expr) : bool :=
  closed_lit e && match lit_ty e with Some _ => false | None => true end.

Definition find_live_stmt (prog : list stmt) (i : Z) : option stmt :=
  List.find (fun t => opt_eqb (stmt_sid t) (Some i)) (all_stmts_block prog).

Definition classify_stmt (prog : list stmt) (dead : list Z) (reads : list Z) (ss : list Z) (i : Z) : pclass :=
  if prunable_unreachable prog i then CUnreachable
  else match find_live_stmt prog i with
       | Some t =>
           match writer_of t with
           | Some (d, e) =>
               if memz d dead then CNeverRead
               else if lit_trap e then CNoClass
               else if pure_notrap_expr e then
                 if negb (memz d reads) then CNeverReadMayFail else CDeadStore
               else if expr_forbidden e then CNoClass
               else CDeadStoreCall
           | None => CNoClass
           end
       | None => CUnreachable   (* the id names no statement: skipping it is vacuous *)
       end.

Definition covered_class (k : pclass) : bool :=
  match k with CUnreachable | CNeverRead => true | _ => false end.

Record verdict := {
  v_stmt : list (Z * pclass);
  v_fn : list (Z * fclass);
  v_residual : list Z * list Z;
  v_dead : list Z;
  v_live : list Z;
  v_checked : bool          (* covered_ok of the configuration built here: the hypothesis of
                               prune_sound_partial_residual holds for this program and plan *)
}.

Definition plan_ok_gen (calls : bool) (pt : list Z) (dead : list Z) (prog : list stmt) (ss fs : list Z) : verdict :=
  let reads := read_ids prog in
  let live := live_fns prog in
  let cs := map (fun i => (i, classify_stmt prog dead reads ss i)) ss in
  let cf := map (fun f => (f, if memz f live then FNoClass else FUnused)) fs in
  let ss2 := flat_map (fun ic => if covered_class (snd ic) then [] else [fst ic]) cs in
  let fs2 := filter (fun f => memz f live) fs in
  let c := {| c_p1 := Some (ss, fs); c_p2 := Some (ss2, fs2); c_dead := dead; c_live := live;
              c_all := false; c_nr := true; c_calls := calls; c_pt := pt |} in
  {| v_stmt := cs; v_fn := cf; v_residual := (ss2, fs2); v_dead := dead; v_live := live;
     v_checked := covered_ok c prog |}.
Definition plan_ok_with (dead : list Z) := plan_ok_gen false [] dead.

(* the dead set is a hint: whatever it is, v_checked decides.  First the set that ignores
   code no run can reach; should the verified check refuse it, the plain one. *)
Definition plan_ok (prog : list stmt) (ss fs : list Z) : verdict :=
  let v := plan_ok_with (nodup Z.eq_dec (dead_ids prog ss ++ dead_ids_live prog ss)) prog ss fs in
  if v_checked v then v else plan_ok_with (dead_ids prog ss) prog ss fs.

(* round 5: never-read stores whose right-hand side calls pure, trap-free user functions.  The
   table depends on the residual plan (statements it skips inside a callee), the residual on
   the table: two rounds, then v_checked decides; otherwise fall back. *)
Definition plan_ok_x (prog : list stmt) (ss fs : list Z) : verdict :=
  let v0 := plan_ok prog ss fs in
  let pt1 := mk_pt (Some (v_residual v0)) prog in
  let v1 := plan_ok_gen true pt1 (dead_ids_live_gen (pfe pt1) prog ss) prog ss fs in
  let pt2 := mk_pt (Some (v_residual v1)) prog in
  let v2 := plan_ok_gen true pt2 (dead_ids_live_gen (pfe pt2) prog ss) prog ss fs in
  if v_checked v2 then v2 else if v_checked v1 then v1 else v0.

(* ---------- never-read locals whose declaration the analysis keeps ----------
   The analysis keeps `make u get e` when a later statement still mentions u, even if that
   statement (`u get e'`) is itself pruned.  Such a plan P is compared with the AUGMENTED plan
   P' = P + every writer of a never-read local all of whose writers have total right-hand
   sides: P' against P and P' against its residual are both instances of the general theorem. *)
Definition dead_ids2 (prog : list stmt) : list Z :=
  let sts := all_stmts_block prog in
  let reads := read_ids prog in
  let params := all_param_ids prog in
  let bad := flat_map (fun t => match writer_of t with
                                | Some (d, e) => if pure_total e then [] else [d]
                                | None => []
                                end) sts in
  let cands := flat_map (fun t => match writer_of t with Some (d, _) => [d] | None => [] end) sts in
  nodup Z.eq_dec
    (filter (fun d => negb (memz d bad) && negb (memz d reads) && negb (memz d params)) cands).

Definition writer_sids (prog : list stmt) (dead : list Z) : list Z :=
  flat_map (fun t => match writer_of t with
                     | Some (d, _) => if memz d dead then oid (stmt_sid t) else []
                     | None => []
                     end) (all_stmts_block prog).

Record verdict2 := {
  w_aug : list Z;            (* statement ids added to the plan *)
  w_main : verdict;          (* plan_ok of the augmented plan *)
  w_checked_aug : bool       (* covered_ok: augmented plan against the real plan *)
}.

Definition plan_ok2 (prog : list stmt) (ss fs : list Z) : verdict2 :=
  let d2 := dead_ids2 prog in
  let extra := nodup Z.eq_dec (filter (fun i => negb (memz i ss)) (writer_sids prog d2)) in
  let ss' := ss ++ extra in
  let ca := {| c_p1 := Some (ss', fs); c_p2 := Some (ss, fs); c_dead := d2; c_live := [];
               c_all := true; c_nr := true; c_calls := false; c_pt := [] |} in
  {| w_aug := extra; w_main := plan_ok prog ss' fs; w_checked_aug := covered_ok ca prog |}.
