(* Pool.v — executable model of src/arena/pool.rs (size_class, Pool, PoolSet) and a
   client that owns buffers.  Definitions only. *)
From Coq Require Import ZArith List Bool.
Require Import NS.theories.Generated NS.theories.Bump.
Import ListNotations.
Open Scope Z_scope.

(* size_class(n: u32): n.saturating_sub(1) / 8 for n <= 128; 16 + (n-129)/32 for n <= 256 *)
Definition size_class (n : Z) : option Z :=
  if n <=? 128 then Some (Z.max (n - 1) 0 / 8)
  else if n <=? 256 then Some (16 + (n - 129) / 32)
  else None.

Record pool := mkPool {
  p_base : Z;            (* offset of the SlotBlock in the backing arena *)
  p_ssz : Z;             (* slot size *)
  p_cnt : Z;             (* slot count *)
  p_free : list Z;       (* LIFO stack of free indices, top first *)
  p_bump : Z;            (* next never-used slot *)
  p_live : Z             (* live_count *)
}.

Definition pool_new (base ssz cnt : Z) : pool := mkPool base ssz cnt [] 0 0.

(* Pool::alloc: slot index, or None when exhausted *)
Definition pool_alloc (p : pool) : option (Z * pool) :=
  match p_free p with
  | i :: rest => Some (i, mkPool (p_base p) (p_ssz p) (p_cnt p) rest (p_bump p) (p_live p + 1))
  | [] =>
      if p_bump p >=? p_cnt p then None
      else Some (p_bump p, mkPool (p_base p) (p_ssz p) (p_cnt p) [] (p_bump p + 1) (p_live p + 1))
  end.

Definition slot_addr (p : pool) (i : Z) : Z := p_base p + i * p_ssz p.

(* SlotBlock::index_of (wrapping_sub makes addresses below the base "huge", hence None) *)
Definition index_of (p : pool) (addr : Z) : option Z :=
  let off := addr - p_base p in
  if (off <? 0) || (off >=? p_ssz p * p_cnt p) || negb (off mod p_ssz p =? 0) then None
  else Some (off / p_ssz p).

Definition pool_contains (p : pool) (addr : Z) : bool :=
  let off := addr - p_base p in (0 <=? off) && (off <? p_ssz p * p_cnt p).

(* Pool::dealloc; None = the `expect`/debug_assert would fire *)
Definition pool_dealloc (p : pool) (addr : Z) : option pool :=
  match index_of p addr with
  | None => None
  | Some i =>
      if (i <? p_bump p) && (0 <? p_live p)
      then Some (mkPool (p_base p) (p_ssz p) (p_cnt p) (i :: p_free p) (p_bump p) (p_live p - 1))
      else None
  end.

(* ------------------------------------------------------------------ *)
(* Client of one pool (the small-pool correspondence and the core theorems) *)

Record pclient := mkPClient { pc_pool : pool; pc_live : list Z (* addresses, newest first *) }.

Inductive pop := PAlloc | PFree (idx : nat) | PContains (addr : Z).

Inductive pres :=
| PRSlot (addr len : Z) | PRExhausted | PRFreed (addr : Z) | PRNone | PRBool (b : bool) | PRPanic.

Definition remove_nth {A} (n : nat) (l : list A) : list A := firstn n l ++ skipn (S n) l.

Definition pstep (c : pclient) (o : pop) : pclient * pres :=
  match o with
  | PAlloc =>
      match pool_alloc (pc_pool c) with
      | Some (i, p') => (mkPClient p' (slot_addr p' i :: pc_live c), PRSlot (slot_addr p' i) (p_ssz p'))
      | None => (c, PRExhausted)
      end
  | PFree idx =>
      match pc_live c with
      | [] => (c, PRNone)
      | _ =>
          let k := Nat.modulo idx (length (pc_live c)) in
          match nth_error (pc_live c) k with
          | None => (c, PRNone)
          | Some a =>
              match pool_dealloc (pc_pool c) a with
              | Some p' => (mkPClient p' (remove_nth k (pc_live c)), PRFreed a)
              | None => (c, PRPanic)
              end
          end
      end
  | PContains addr => (c, PRBool (pool_contains (pc_pool c) addr))
  end.

Definition prun (c : pclient) (ops : list pop) : pclient :=
  fold_left (fun c o => fst (pstep c o)) ops c.

Definition pcounters (p : pool) : Z * Z * Z := (p_live p, Z.of_nat (length (p_free p)), p_bump p).

(* ------------------------------------------------------------------ *)
(* PoolSet on top of a bump arena *)

Record pset := mkPSet { ps_pools : list pool; ps_arena : st }.

(* Pool::new: SlotBlock (size*count, align 8) then FreeList (count*4, align 4) *)
Definition pool_new_in (dbg : bool) (s : st) (ssz cnt : Z) : option (pool * st) :=
  match alloc_raw dbg s (ssz * cnt) 8 with
  | None => None
  | Some (base, _, s1) =>
      match alloc_raw dbg s1 (cnt * 4) 4 with
      | None => None
      | Some (_, _, s2) => Some (pool_new base ssz cnt, s2)
      end
  end.

Fixpoint pools_new (dbg : bool) (s : st) (sizes counts : list Z) : option (list pool * st) :=
  match sizes, counts with
  | ssz :: sizes', cnt :: counts' =>
      match pool_new_in dbg s ssz cnt with
      | None => None
      | Some (p, s') =>
          match pools_new dbg s' sizes' counts' with
          | None => None
          | Some (ps, s'') => Some (p :: ps, s'')
          end
      end
  | _, _ => Some ([], s)
  end.

Definition pset_new (dbg : bool) (s : st) : option pset :=
  match pools_new dbg s slot_sizes slot_counts with
  | Some (ps, s') => Some (mkPSet ps s')
  | None => None
  end.

Fixpoint set_nth {A} (n : nat) (x : A) (l : list A) : list A :=
  match l, n with
  | [], _ => []
  | _ :: t, O => x :: t
  | h :: t, S n' => h :: set_nth n' x t
  end.

Inductive origin := FromPool (cls idx : Z) | FromArena.

(* PoolSet::alloc: (address, length, origin); None = arena exhausted (expect panics) *)
Definition set_alloc (dbg : bool) (ps : pset) (size : Z) : option (Z * Z * origin * pset) :=
  let fallback :=
    match alloc_raw dbg (ps_arena ps) size 1 with
    | Some (beg, len, s') => Some (beg, len, FromArena, mkPSet (ps_pools ps) s')
    | None => None
    end in
  match size_class size with
  | Some c =>
      match nth_error (ps_pools ps) (Z.to_nat c) with
      | Some p =>
          match pool_alloc p with
          | Some (i, p') =>
              Some (slot_addr p' i, p_ssz p', FromPool c i,
                    mkPSet (set_nth (Z.to_nat c) p' (ps_pools ps)) (ps_arena ps))
          | None => fallback
          end
      | None => fallback
      end
  | None => fallback
  end.

(* PoolSet::dealloc: None = a panic inside Pool::dealloc *)
Definition set_dealloc (ps : pset) (addr size : Z) : option pset :=
  match size_class size with
  | Some c =>
      match nth_error (ps_pools ps) (Z.to_nat c) with
      | Some p =>
          if pool_contains p addr then
            match pool_dealloc p addr with
            | Some p' => Some (mkPSet (set_nth (Z.to_nat c) p' (ps_pools ps)) (ps_arena ps))
            | None => None
            end
          else Some ps
      | None => Some ps
      end
  | None => Some ps
  end.

Definition set_contains (ps : pset) (addr : Z) : bool :=
  existsb (fun p => pool_contains p addr) (ps_pools ps).

Record sbuf := mkSBuf { sb_addr : Z; sb_size : Z; sb_len : Z; sb_org : origin }.

Record sclient := mkSClient { sc_set : pset; sc_live : list sbuf }.

Inductive sop := SAlloc (size : Z) | SFree (idx : nat) | SContains (addr : Z) | SClass (n : Z).

Inductive sres :=
| SRBuf (pooled : bool) (addr len : Z) | SRFreed (addr : Z) | SRNone | SRBool (b : bool)
| SRClass (c : option Z) | SRPanic.

Definition sstep (dbg : bool) (c : sclient) (o : sop) : sclient * sres :=
  match o with
  | SAlloc size =>
      match set_alloc dbg (sc_set c) size with
      | Some (addr, len, org, ps') =>
          (mkSClient ps' (mkSBuf addr size len org :: sc_live c),
           SRBuf (set_contains ps' addr) addr len)
      | None => (c, SRPanic)
      end
  | SFree idx =>
      match sc_live c with
      | [] => (c, SRNone)
      | _ =>
          let k := Nat.modulo idx (length (sc_live c)) in
          match nth_error (sc_live c) k with
          | None => (c, SRNone)
          | Some b =>
              match set_dealloc (sc_set c) (sb_addr b) (sb_size b) with
              | Some ps' => (mkSClient ps' (remove_nth k (sc_live c)), SRFreed (sb_addr b))
              | None => (c, SRPanic)
              end
          end
      end
  | SContains addr => (c, SRBool (set_contains (sc_set c) addr))
  | SClass n => (c, SRClass (size_class n))
  end.

Definition srun (dbg : bool) (c : sclient) (ops : list sop) : sclient :=
  fold_left (fun c o => fst (sstep dbg c o)) ops c.

Definition class_counters (ps : pset) (c : Z) : Z * Z * Z :=
  match nth_error (ps_pools ps) (Z.to_nat c) with
  | Some p => pcounters p
  | None => (0, 0, 0)
  end.
