(* Pratt — token-level model of src/syntax/parser.rs `parse_expression` /
   `parse_expression_continuation` (the expression grammar of NaijaScript), driven by the
   binding powers regenerated from the source (GenPratt.v).  Definitions only; proofs in
   proofs/PrattProofs.v.

   Tokens are the lexer's tokens with their payload reduced to what the expression parser
   looks at: literals (number, string, true, false, null) are opaque leaves, identifiers
   carry their name, `not`, the ten binary operator tokens (`minus` is also the prefix
   minus), `( ) [ ] , .`, and "anything else" (`get`, `start`, `end`, EOF, ...), which ends
   an expression.  The result has the shape of Lang.expr without the checker's ids.

   Wherever the Rust parser emits a syntax diagnostic (and then recovers), the model
   returns `PErr`: the theorems are about inputs the parser accepts silently.  `POof` is
   fuel exhaustion; `parse_tokens` supplies a fuel (three levels of the mutual recursion per
   token, plus one) for which it is impossible (PrattProofs.enough_fuel). *)
From Coq Require Import ZArith List Bool.
Require Import NS.theories.Lang NS.theories.GenPratt.
Import ListNotations.
Open Scope Z_scope.

Definition atom := list Z.

Inductive ptok :=
| TLit (a : atom)          (* Number / String / True / False / Null token *)
| TIdent (n : name)
| TNot
| TOp (op : binop)         (* the ten operator tokens; `TOp Minus` in prefix position is unary minus *)
| TLP | TRP | TLB | TRB | TComma | TDot
| TOther (k : atom).       (* any other token kind: ends an expression *)

Inductive pexpr :=
| PLit (a : atom)
| PVar (n : name)
| PUn (u : unop) (e : pexpr)
| PBin (op : binop) (a b : pexpr)
| PArr (es : list pexpr)
| PIdx (a i : pexpr)
| PMember (o : pexpr) (f : name)
| PCall (c : pexpr) (args : list pexpr).

Inductive pres (A : Type) := POk (a : A) | PErr | POof.
Arguments POk {A} a. Arguments PErr {A}. Arguments POof {A}.

Definition pbind {A B} (r : pres A) (f : A -> pres B) : pres B :=
  match r with POk a => f a | PErr => PErr | POof => POof end.

Definition l_bp (op : binop) : Z := fst (binop_bp op).
Definition r_bp (op : binop) : Z := snd (binop_bp op).

(* which closing token ends an element list: `]` for array literals, `)` for call arguments *)
Inductive closer := CBracket | CParen.
Definition is_close (c : closer) (t : ptok) : bool :=
  match c, t with CBracket, TRB => true | CParen, TRP => true | _, _ => false end.
Definition list_bp (c : closer) : Z := match c with CBracket => elem_bp | CParen => arg_bp end.

(* parse_expression(min_bp) / parse_expression_continuation(lhs, min_bp) /
   the two comma-separated loops (array literal, call arguments) *)
Fixpoint parse_expr (f : nat) (m : Z) (ts : list ptok) {struct f} : pres (pexpr * list ptok) :=
  match f with
  | O => POof
  | S f' =>
    match ts with
    | TLit a :: r => cont f' m (PLit a) r
    | TIdent n :: r => cont f' m (PVar n) r
    | TNot :: r =>
        pbind (parse_expr f' (unary_bp Not) r) (fun '(e, r') => cont f' m (PUn Not e) r')
    | TOp Minus :: r =>
        pbind (parse_expr f' (unary_bp Neg) r) (fun '(e, r') => cont f' m (PUn Neg e) r')
    | TLP :: r =>
        pbind (parse_expr f' paren_bp r)
              (fun '(e, r') => match r' with TRP :: r'' => cont f' m e r'' | _ => PErr end)
    | TLB :: r =>
        pbind (parse_elems f' CBracket r) (fun '(es, r') => cont f' m (PArr es) r')
    | _ => PErr
    end
  end

with cont (f : nat) (m : Z) (lhs : pexpr) (ts : list ptok) {struct f} : pres (pexpr * list ptok) :=
  match f with
  | O => POof
  | S f' =>
    match ts with
    | TDot :: TIdent fld :: r => cont f' m (PMember lhs fld) r
    | TDot :: _ => PErr
    | TLP :: r =>
        pbind (parse_elems f' CParen r) (fun '(args, r') => cont f' m (PCall lhs args) r')
    | TLB :: r =>
        pbind (parse_expr f' index_bp r)
              (fun '(i, r') => match r' with TRB :: r'' => cont f' m (PIdx lhs i) r'' | _ => PErr end)
    | TOp op :: r =>
        if l_bp op <? m then POk (lhs, ts)
        else pbind (parse_expr f' (r_bp op) r) (fun '(rhs, r') => cont f' m (PBin op lhs rhs) r')
    | _ => POk (lhs, ts)
    end
  end

(* after `[` / `(`: nothing, or expressions separated by commas with an optional trailing
   comma; consumes the closing token *)
with parse_elems (f : nat) (c : closer) (ts : list ptok) {struct f} : pres (list pexpr * list ptok) :=
  match f with
  | O => POof
  | S f' =>
    match ts with
    | t :: r => if is_close c t then POk ([], r) else elems_loop f' c ts
    | [] => PErr
    end
  end

with elems_loop (f : nat) (c : closer) (ts : list ptok) {struct f} : pres (list pexpr * list ptok) :=
  match f with
  | O => POof
  | S f' =>
    pbind (parse_expr f' (list_bp c) ts)
      (fun '(e, r) =>
         match r with
         | TComma :: t :: r2 =>
             if is_close c t then POk ([e], r2)
             else pbind (elems_loop f' c (t :: r2)) (fun '(es, r3) => POk (e :: es, r3))
         | TComma :: [] => PErr
         | t :: r1 => if is_close c t then POk ([e], r1) else PErr
         | [] => PErr
         end)
  end.

(* the expression must use up the token list *)
Definition parse_tokens (ts : list ptok) : pres pexpr :=
  match parse_expr (S (3 * length ts)) 0 ts with
  | POk (e, []) => POk e
  | POk (_, _ :: _) => PErr
  | PErr => PErr
  | POof => POof
  end.

(* the identifier-statement path of parse_statement: the first identifier is already the
   left-hand side when the Pratt loop starts *)
Definition parse_stmt_expr (f : nat) (n : name) (ts : list ptok) : pres (pexpr * list ptok) :=
  cont f stmt_bp (PVar n) ts.

(* ---------- source trees with a free choice of redundant parentheses ---------- *)
Inductive aexpr :=
| ALit (a : atom)
| AVar (n : name)
| AUn (u : unop) (e : aexpr)
| ABin (op : binop) (a b : aexpr)
| AArr (es : aexprs)
| AIdx (a i : aexpr)
| AMember (o : aexpr) (f : name)
| ACall (c : aexpr) (args : aexprs)
| AParen (e : aexpr)                  (* a pair of parentheses the grammar does not need *)
with aexprs :=
| ANil
| ACons (e : aexpr) (es : aexprs).

Fixpoint erase (a : aexpr) : pexpr :=
  match a with
  | ALit x => PLit x
  | AVar n => PVar n
  | AUn u e => PUn u (erase e)
  | ABin op x y => PBin op (erase x) (erase y)
  | AArr es => PArr (erases es)
  | AIdx x i => PIdx (erase x) (erase i)
  | AMember o f => PMember (erase o) f
  | ACall c args => PCall (erase c) (erases args)
  | AParen e => erase e
  end
with erases (es : aexprs) : list pexpr :=
  match es with
  | ANil => []
  | ACons e r => erase e :: erases r
  end.

(* contexts: the minimum binding power the printed text must withstand.  Operands of postfix
   forms sit in a context above every operator. *)
Definition post_ctx : Z := 1 + Z.max (unary_bp Not) (unary_bp Neg).

Definition un_tok (u : unop) : ptok := match u with Not => TNot | Neg => TOp Minus end.

Definition wrap (ts : list ptok) : list ptok := TLP :: ts ++ [TRP].

(* print with parentheses exactly where the context requires them, plus the AParen ones *)
Fixpoint pr (m : Z) (a : aexpr) : list ptok :=
  match a with
  | ALit x => [TLit x]
  | AVar n => [TIdent n]
  | AUn u e =>
      let body := un_tok u :: pr (unary_bp u) e in
      if m <=? unary_bp u then body else wrap body
  | ABin op x y =>
      let body := pr (l_bp op) x ++ TOp op :: pr (r_bp op) y in
      if m <=? l_bp op then body else wrap body
  | AArr es => TLB :: prs elem_bp es ++ [TRB]
  | AIdx x i => pr post_ctx x ++ TLB :: pr index_bp i ++ [TRB]
  | AMember o f => pr post_ctx o ++ [TDot; TIdent f]
  | ACall c args => pr post_ctx c ++ TLP :: prs arg_bp args ++ [TRP]
  | AParen e => wrap (pr paren_bp e)
  end
with prs (m : Z) (es : aexprs) : list ptok :=
  match es with
  | ANil => []
  | ACons e ANil => pr m e
  | ACons e r => pr m e ++ TComma :: prs m r
  end.

Definition print (a : aexpr) : list ptok := pr 0 a.

(* the canonical annotation of a tree: no redundant parentheses *)
Fixpoint embed (e : pexpr) : aexpr :=
  match e with
  | PLit x => ALit x
  | PVar n => AVar n
  | PUn u x => AUn u (embed x)
  | PBin op x y => ABin op (embed x) (embed y)
  | PArr es => AArr ((fix go (l : list pexpr) : aexprs :=
                        match l with [] => ANil | x :: r => ACons (embed x) (go r) end) es)
  | PIdx x i => AIdx (embed x) (embed i)
  | PMember o f => AMember (embed o) f
  | PCall c args => ACall (embed c) ((fix go (l : list pexpr) : aexprs :=
                        match l with [] => ANil | x :: r => ACons (embed x) (go r) end) args)
  end.

(* the first milestone's fragment: atoms, unary, binary, parentheses *)
Fixpoint basic (a : aexpr) : bool :=
  match a with
  | ALit _ | AVar _ => true
  | AUn _ e => basic e
  | ABin _ x y => basic x && basic y
  | AParen e => basic e
  | _ => false
  end.

(* ---------- side conditions on the generated table (proved of GenPratt by vm_compute) ---------- *)
Definition all_binops : list binop := [Add; Minus; Times; Divide; Mod; And; Or; OEq; OGt; OLt].
Definition all_unops : list unop := [Not; Neg].

Definition table_ok : bool :=
  forallb (fun op =>
    (l_bp op <? r_bp op) &&                                   (* left associative *)
    (paren_bp <=? l_bp op) && (elem_bp <=? l_bp op) && (arg_bp <=? l_bp op) &&
    (index_bp <=? l_bp op) && (0 <=? l_bp op) &&
    forallb (fun u => (l_bp op <? unary_bp u) && (r_bp op <=? unary_bp u)) all_unops) all_binops &&
  forallb (fun u => (paren_bp <=? unary_bp u) && (elem_bp <=? unary_bp u) && (arg_bp <=? unary_bp u) &&
                    (index_bp <=? unary_bp u) && (0 <=? unary_bp u)) all_unops &&
  (0 <=? paren_bp) && (0 <=? elem_bp) && (0 <=? arg_bp) && (0 <=? index_bp) && (stmt_bp =? 0) &&
  postfix_unguarded.

(* the documented precedence levels, loosest first *)
Definition level (op : binop) : Z :=
  match op with
  | Or => 1 | And => 2 | OEq | OGt | OLt => 3 | Add | Minus => 4 | Times | Divide | Mod => 5
  end.

(* the generated binding powers realise exactly these levels: strictly ordered between
   levels, equal inside a level, every operator below the unary operators *)
Definition levels_ok : bool :=
  forallb (fun a => forallb (fun b =>
     (if level a <? level b then r_bp a <=? l_bp b else true) &&
     (if level a =? level b then (l_bp a =? l_bp b) && (r_bp a =? r_bp b) else true)) all_binops) all_binops.
