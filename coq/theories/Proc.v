(* Proc.v — executable model of the process-command path of /repo (property C15):
     src/process.rs           ProcessCommand (builder), ProcessCaps, HostPolicy, validate
     src/runtime.rs           eval_process_command_call_mut (builder methods as a script calls
                              them), eval_timeout_ms, eval_process_command_call (policy gate,
                              validate, hand-over to the backend)
   Model file: definitions only, no proofs (proofs/ProcProofs.v).

   Strings are lists of bytes (Z in 0..255).  The caps record, its defaults and the
   per-check flags (which cap, allow_empty, forbid_equals) come from the generated
   theories/GenProc.v.  The platform backend (sys::process::run, i.e. std::process::Command
   and the OS) is NOT modelled: it is a Section variable [spawn]; the model says which
   specification it is applied to and when it is not applied at all. *)
From Coq Require Import ZArith List Bool.
Require Import NS.theories.GenProc.
Import ListNotations.
Open Scope Z_scope.

Definition str := list Z.

(* ------------------------------------------------------------------ byte strings *)

(* value.len() — tail recursive so that the extracted code handles MiB-sized texts *)
Fixpoint zlen_acc {A : Type} (s : list A) (acc : Z) : Z :=
  match s with [] => acc | _ :: t => zlen_acc t (acc + 1) end.
Definition zlen (s : str) : Z := zlen_acc s 0.
(* vec.len() *)
Definition zcount {A : Type} (l : list A) : Z := zlen_acc l 0.

(* value.contains(byte) for an ASCII byte ('\0' = 0, '=' = 61) *)
Definition has_byte (b : Z) (s : str) : bool := existsb (Z.eqb b) s.

Definition is_empty (s : str) : bool := match s with [] => true | _ => false end.

Fixpoint str_eqb (a b : str) : bool :=
  match a, b with
  | [], [] => true
  | x :: a', y :: b' => (x =? y) && str_eqb a' b'
  | _, _ => false
  end.

(* ------------------------------------------------------------------ builder state *)

Inductive stdin_policy := StdinInherit | StdinNull | StdinText (t : str).
Inductive output_policy := OutInherit | OutNull | OutCapture.

(* struct ProcessCommand *)
Record command := mkCommand {
  c_program : str;
  c_args : list str;
  c_cwd : option str;
  c_env : list (str * str);
  c_stdin : stdin_policy;
  c_stdout : output_policy;
  c_stderr : output_policy;
  c_timeout : option Z          (* Option<u32> *)
}.

(* ProcessCommand::new *)
Definition command_new (program : str) : command :=
  mkCommand program [] None [] StdinInherit OutInherit OutInherit None.

(* push_arg *)
Definition push_arg (c : command) (a : str) : command :=
  mkCommand (c_program c) (c_args c ++ [a]) (c_cwd c) (c_env c) (c_stdin c) (c_stdout c) (c_stderr c) (c_timeout c).

(* set_cwd *)
Definition set_cwd (c : command) (d : str) : command :=
  mkCommand (c_program c) (c_args c) (Some d) (c_env c) (c_stdin c) (c_stdout c) (c_stderr c) (c_timeout c).

(* set_env: `self.env.iter_mut().rev().find(|pair| pair.key == key)`: the LAST pair with an
   equal key gets the new value in place; otherwise the pair is pushed at the end.
   [replace_first] works on the reversed vector. *)
Fixpoint replace_first (k v : str) (l : list (str * str)) : option (list (str * str)) :=
  match l with
  | [] => None
  | (k', v') :: t =>
      if str_eqb k' k then Some ((k', v) :: t)
      else match replace_first k v t with
           | Some t' => Some ((k', v') :: t')
           | None => None
           end
  end.

Definition env_set (e : list (str * str)) (k v : str) : list (str * str) :=
  match replace_first k v (rev e) with
  | Some l => rev l
  | None => e ++ [(k, v)]
  end.

Definition set_env (c : command) (k v : str) : command :=
  mkCommand (c_program c) (c_args c) (c_cwd c) (env_set (c_env c) k v) (c_stdin c) (c_stdout c) (c_stderr c) (c_timeout c).

(* set_stdin_text / set_stdin_policy *)
Definition set_stdin (c : command) (p : stdin_policy) : command :=
  mkCommand (c_program c) (c_args c) (c_cwd c) (c_env c) p (c_stdout c) (c_stderr c) (c_timeout c).

Definition set_stdout (c : command) (p : output_policy) : command :=
  mkCommand (c_program c) (c_args c) (c_cwd c) (c_env c) (c_stdin c) p (c_stderr c) (c_timeout c).

Definition set_stderr (c : command) (p : output_policy) : command :=
  mkCommand (c_program c) (c_args c) (c_cwd c) (c_env c) (c_stdin c) (c_stdout c) p (c_timeout c).

(* set_timeout_ms *)
Definition set_timeout (c : command) (t : Z) : command :=
  mkCommand (c_program c) (c_args c) (c_cwd c) (c_env c) (c_stdin c) (c_stdout c) (c_stderr c) (Some t).

(* ------------------------------------------------------------------ validate *)

(* ProcessError::SpecInvalid(<message>) raised by validate, in order of first appearance
   in the source (GenProc.validate_messages). *)
Inductive verr :=
  | VProgram | VArgCount | VEnvCount | VArgument | VArgBytes | VCwd
  | VEnvKey | VEnvValue | VEnvBytes | VStdin | VTimeoutZero | VTimeoutMax.

Definition all_verrs : list verr :=
  [VProgram; VArgCount; VEnvCount; VArgument; VArgBytes; VCwd;
   VEnvKey; VEnvValue; VEnvBytes; VStdin; VTimeoutZero; VTimeoutMax].

Inductive result (A : Type) := Ok (a : A) | Err (e : verr).
Arguments Ok {A} a.
Arguments Err {A} e.

(* fn validate_named_text: empty test, NUL test, '=' test, u32::try_from(len), len > max *)
Definition named_text (nt : named_text_spec) (kind : verr) (c : caps) (value : str) : result Z :=
  if negb (nt_allow_empty nt) && is_empty value then Err kind
  else if has_byte 0 value then Err kind
  else if nt_forbid_equals nt && has_byte 61 value then Err kind
  else
    let len := zlen value in
    if len >? cap_type_max then Err kind
    else if len >? nt_cap nt c then Err kind
    else Ok len.

(* fn validate_count: u32::try_from(len), len > max *)
Definition count_check (kind : verr) (len max : Z) : result unit :=
  if len >? cap_type_max then Err kind
  else if len >? max then Err kind
  else Ok tt.

(* the loop over the arguments: per argument the text check, then
   total.checked_add(len) (an overflow of the u32 accumulator is an error, never a wrap) *)
Fixpoint args_total (c : caps) (args : list str) (total : Z) : result Z :=
  match args with
  | [] => Ok total
  | a :: t =>
      match named_text nt_argument VArgument c a with
      | Err e => Err e
      | Ok len =>
          if total + len >? cap_type_max then Err VArgBytes
          else args_total c t (total + len)
      end
  end.

(* the loop over the environment pairs: key check, value check,
   total.checked_add(key_len).and_then(|v| v.checked_add(value_len)) *)
Fixpoint env_total (c : caps) (env : list (str * str)) (total : Z) : result Z :=
  match env with
  | [] => Ok total
  | (k, v) :: t =>
      match named_text nt_environment_key VEnvKey c k with
      | Err e => Err e
      | Ok klen =>
          match named_text nt_environment_value VEnvValue c v with
          | Err e => Err e
          | Ok vlen =>
              if total + klen >? cap_type_max then Err VEnvBytes
              else if total + klen + vlen >? cap_type_max then Err VEnvBytes
              else env_total c t (total + klen + vlen)
          end
      end
  end.

(* struct ProcessSpec: what the platform backend receives *)
Record spec := mkSpec {
  s_program : str;
  s_args : list str;
  s_cwd : option str;
  s_env : list (str * str);
  s_stdin : stdin_policy;
  s_stdout : output_policy;
  s_stderr : output_policy;
  s_timeout : Z
}.

Definition effective_timeout (c : caps) (b : command) : Z :=
  match c_timeout b with Some t => t | None => default_timeout_ms c end.

(* ProcessCommand::validate — every check in source order *)
Definition validate (c : caps) (b : command) : result spec :=
  match named_text nt_program VProgram c (c_program b) with
  | Err e => Err e
  | Ok _ =>
  match count_check VArgCount (zcount (c_args b)) (count_argument_count_cap c) with
  | Err e => Err e
  | Ok _ =>
  match count_check VEnvCount (zcount (c_env b)) (count_environment_pair_count_cap c) with
  | Err e => Err e
  | Ok _ =>
  match args_total c (c_args b) 0 with
  | Err e => Err e
  | Ok atotal =>
  if atotal >? max_total_arg_bytes c then Err VArgBytes else
  match (match c_cwd b with
         | Some d => match named_text nt_cwd VCwd c d with Err e => Err e | Ok _ => Ok tt end
         | None => Ok tt
         end) with
  | Err e => Err e
  | Ok _ =>
  match env_total c (c_env b) 0 with
  | Err e => Err e
  | Ok etotal =>
  if etotal >? max_total_env_bytes c then Err VEnvBytes else
  match (match c_stdin b with
         | StdinText t => match named_text nt_stdin_text VStdin c t with Err e => Err e | Ok _ => Ok tt end
         | StdinInherit | StdinNull => Ok tt
         end) with
  | Err e => Err e
  | Ok _ =>
  let timeout := effective_timeout c b in
  if timeout =? 0 then Err VTimeoutZero
  else if timeout >? max_timeout_ms c then Err VTimeoutMax
  else Ok (mkSpec (c_program b) (c_args b) (c_cwd b) (c_env b) (c_stdin b) (c_stdout b) (c_stderr b) timeout)
  end end end end end end end.

(* ------------------------------------------------------------------ script level *)

(* struct HostPolicy *)
Record host_policy := mkPolicy { allow_process : bool; process_caps : caps }.
Definition native_default_policy : host_policy := mkPolicy native_default_allow_process default_caps.
Definition wasm_default_policy : host_policy := mkPolicy wasm_default_allow_process default_caps.

(* The Number handed to `timeout_ms`, as eval_timeout_ms distinguishes it. *)
Inductive num_arg :=
  | NumInt (n : Z)        (* finite, integral: its value *)
  | NumFractional         (* finite, fract() != 0 *)
  | NumNonFinite.         (* NaN, +inf, -inf *)

(* A builder method call with its already evaluated arguments.  Where the runtime applies
   to_string to the argument value (arg, env value, stdin_text) the call carries the
   resulting text; where it demands a string (cwd, env key) or a number (timeout_ms),
   [None] stands for a value of any other type. *)
Inductive call :=
  | CallArg (text : str)
  | CallCwd (path : option str)
  | CallEnv (key : option str) (value_text : str)
  | CallStdinText (text : str)
  | CallStdinInherit | CallStdinNull
  | CallStdoutCapture | CallStdoutInherit | CallStdoutNull
  | CallStderrCapture | CallStderrInherit | CallStderrNull
  | CallTimeoutMs (v : option num_arg).

(* `number as u32` for a positive integral f64: saturating *)
Definition saturate_u32 (n : Z) : Z := if n >? cap_type_max then cap_type_max else n.

Section Backend.
  (* sys::process::run — the platform backend.  Not modelled. *)
  Variable backend_ok : Type.
  Variable backend_err : Type.
  Variable spawn : spec -> caps -> backend_ok + backend_err.

  Inductive rt_error :=
    | RtDenied                          (* RuntimeErrorKind::ProcessDenied *)
    | RtSpecInvalid (e : verr)          (* ProcessSpecInvalid(validate message) *)
    | RtTimeoutNotNumber                (* ProcessSpecInvalid("Timeout must be number") *)
    | RtTimeoutNotPositiveWhole         (* ProcessSpecInvalid("Timeout must be positive whole number") *)
    | RtTypeMismatch                    (* eval_required_string on a non-string *)
    | RtBackend (e : backend_err).      (* whatever the backend reported *)

  (* eval_timeout_ms: `number as u32` saturates *)
  Definition timeout_of_arg (v : option num_arg) : rt_error + Z :=
    match v with
    | None => inl RtTimeoutNotNumber
    | Some NumNonFinite | Some NumFractional => inl RtTimeoutNotPositiveWhole
    | Some (NumInt n) =>
        if n <=? 0 then inl RtTimeoutNotPositiveWhole
        else inr (saturate_u32 n)
    end.

  (* eval_process_command_call_mut *)
  Definition apply_call (b : command) (cl : call) : rt_error + command :=
    match cl with
    | CallArg t => inr (push_arg b t)
    | CallCwd (Some p) => inr (set_cwd b p)
    | CallCwd None => inl RtTypeMismatch
    | CallEnv (Some k) v => inr (set_env b k v)
    | CallEnv None _ => inl RtTypeMismatch
    | CallStdinText t => inr (set_stdin b (StdinText t))
    | CallStdinInherit => inr (set_stdin b StdinInherit)
    | CallStdinNull => inr (set_stdin b StdinNull)
    | CallStdoutCapture => inr (set_stdout b OutCapture)
    | CallStdoutInherit => inr (set_stdout b OutInherit)
    | CallStdoutNull => inr (set_stdout b OutNull)
    | CallStderrCapture => inr (set_stderr b OutCapture)
    | CallStderrInherit => inr (set_stderr b OutInherit)
    | CallStderrNull => inr (set_stderr b OutNull)
    | CallTimeoutMs v =>
        match timeout_of_arg v with
        | inl e => inl e
        | inr t => inr (set_timeout b t)
        end
    end.

  (* eval_process_command_call, Run arm.  The first component is the specification the
     backend was applied to ([None]: the backend was not invoked). *)
  Definition run_once (pol : host_policy) (b : command) : option spec * (rt_error + backend_ok) :=
    if negb (allow_process pol) then (None, inl RtDenied)
    else match validate (process_caps pol) b with
         | Err e => (None, inl (RtSpecInvalid e))
         | Ok s =>
             (Some s, match spawn s (process_caps pol) with
                      | inl r => inr r
                      | inr e => inl (RtBackend e)
                      end)
         end.

  (* A script fragment working on one command value: builder calls and runs in any order.
     A runtime error ends the program.  [log] collects, oldest first, every specification
     the backend was applied to. *)
  Inductive step := SCall (cl : call) | SRun.

  Fixpoint exec (pol : host_policy) (b : command) (steps : list step) (log : list spec)
    : list spec * option rt_error * command :=
    match steps with
    | [] => (log, None, b)
    | SCall cl :: rest =>
        match apply_call b cl with
        | inl e => (log, Some e, b)
        | inr b' => exec pol b' rest log
        end
    | SRun :: rest =>
        match run_once pol b with
        | (None, inl e) => (log, Some e, b)
        | (None, inr _) => exec pol b rest log
        | (Some s, inl e) => (log ++ [s], Some e, b)
        | (Some s, inr _) => exec pol b rest (log ++ [s])
        end
    end.

  (* make cmd get command(program)  ...steps... *)
  Definition run_script (pol : host_policy) (program : str) (steps : list step) :=
    exec pol (command_new program) steps [].
End Backend.

Arguments RtDenied {backend_err}.
Arguments RtSpecInvalid {backend_err} e.
Arguments RtTimeoutNotNumber {backend_err}.
Arguments RtTimeoutNotPositiveWhole {backend_err}.
Arguments RtTypeMismatch {backend_err}.
Arguments RtBackend {backend_err} e.

(* ------------------------------------------------------------------ declarative side
   (what the documentation of the caps promises; used only in theorem statements) *)

Definition blen (s : str) : Z := Z.of_nat (length s).

Fixpoint sum_lens (l : list str) : Z :=
  match l with [] => 0 | a :: t => blen a + sum_lens t end.

Fixpoint sum_env_lens (l : list (str * str)) : Z :=
  match l with [] => 0 | (k, v) :: t => blen k + blen v + sum_env_lens t end.

Definition caps_wf (c : caps) : Prop := Forall (fun x => 0 <= x <= cap_type_max) (caps_fields c).

Definition command_wf (b : command) : Prop :=
  forall t, c_timeout b = Some t -> 0 <= t <= cap_type_max.

Definition arg_within (c : caps) (a : str) : Prop :=
  ~ In 0 a /\ blen a <= max_arg_bytes c.

Definition env_pair_within (c : caps) (kv : str * str) : Prop :=
  fst kv <> [] /\ ~ In 0 (fst kv) /\ ~ In 61 (fst kv) /\ blen (fst kv) <= max_env_key_bytes c /\
  ~ In 0 (snd kv) /\ blen (snd kv) <= max_env_value_bytes c.

Definition within_caps (c : caps) (b : command) : Prop :=
  (c_program b <> [] /\ ~ In 0 (c_program b) /\ blen (c_program b) <= max_program_bytes c) /\
  Z.of_nat (length (c_args b)) <= max_args c /\
  Z.of_nat (length (c_env b)) <= max_env_pairs c /\
  Forall (arg_within c) (c_args b) /\
  sum_lens (c_args b) <= max_total_arg_bytes c /\
  (forall d, c_cwd b = Some d -> d <> [] /\ ~ In 0 d /\ blen d <= max_cwd_bytes c) /\
  Forall (env_pair_within c) (c_env b) /\
  sum_env_lens (c_env b) <= max_total_env_bytes c /\
  (forall t, c_stdin b = StdinText t -> ~ In 0 t /\ blen t <= max_stdin_bytes c) /\
  0 < effective_timeout c b <= max_timeout_ms c.

(* The documented reason behind each rejection kind. *)
Definition reject_reason (c : caps) (b : command) (e : verr) : Prop :=
  match e with
  | VProgram => c_program b = [] \/ In 0 (c_program b) \/ blen (c_program b) > max_program_bytes c
  | VArgCount => Z.of_nat (length (c_args b)) > max_args c
  | VEnvCount => Z.of_nat (length (c_env b)) > max_env_pairs c
  | VArgument => exists a, In a (c_args b) /\ (In 0 a \/ blen a > max_arg_bytes c)
  | VArgBytes => sum_lens (c_args b) > max_total_arg_bytes c
  | VCwd => exists d, c_cwd b = Some d /\ (d = [] \/ In 0 d \/ blen d > max_cwd_bytes c)
  | VEnvKey => exists k v, In (k, v) (c_env b) /\
                 (k = [] \/ In 0 k \/ In 61 k \/ blen k > max_env_key_bytes c)
  | VEnvValue => exists k v, In (k, v) (c_env b) /\ (In 0 v \/ blen v > max_env_value_bytes c)
  | VEnvBytes => sum_env_lens (c_env b) > max_total_env_bytes c
  | VStdin => exists t, c_stdin b = StdinText t /\ (In 0 t \/ blen t > max_stdin_bytes c)
  | VTimeoutZero => effective_timeout c b = 0
  | VTimeoutMax => effective_timeout c b > max_timeout_ms c
  end.

Definition spec_of (c : caps) (b : command) : spec :=
  mkSpec (c_program b) (c_args b) (c_cwd b) (c_env b) (c_stdin b) (c_stdout b) (c_stderr b)
         (effective_timeout c b).

(* ------------------------------------------------------------------ what the child is to see
   The specification carries the program string UNTOUCHED (s_program = c_program, no
   normalisation, no resolution), so both the child's argv[0] and the file that is executed
   are determined by (s_program, s_cwd) alone.  What the platform backend is expected to make
   of them is the POSIX reading of std::process::Command (chdir to the configured directory
   in the child, then exec); this half is observed by the end-to-end stream, not proved:
     * argv of the child = program :: args, byte for byte;
     * a program starting with '/' names that file;
     * a program containing '/' is a path relative to the configured cwd (to the
       interpreter's own directory when no cwd is configured);
     * a program without '/' is searched along PATH (relative PATH entries, too, are
       relative to the configured cwd). *)
Definition spec_argv (s : spec) : list str := s_program s :: s_args s.

Inductive program_lookup :=
  | LookupAbsolute (path : str)
  | LookupRelative (dir : option str) (path : str)
  | LookupSearch (dir : option str) (name : str).

Definition lookup_of (program : str) (cwd : option str) : program_lookup :=
  match program with
  | 47 :: _ => LookupAbsolute program
  | _ => if has_byte 47 program then LookupRelative cwd program else LookupSearch cwd program
  end.

Definition spec_lookup (s : spec) : program_lookup := lookup_of (s_program s) (s_cwd s).

(* What a sequence of successful builder calls configures, read off the call list. *)
Definition arg_texts (cs : list call) : list str :=
  flat_map (fun cl => match cl with CallArg t => [t] | _ => [] end) cs.

Definition env_writes (cs : list call) : list (str * str) :=
  flat_map (fun cl => match cl with CallEnv (Some k) v => [(k, v)] | _ => [] end) cs.

Fixpoint last_some {A B : Type} (f : A -> option B) (l : list A) (dflt : B) : B :=
  match l with
  | [] => dflt
  | x :: t => last_some f t (match f x with Some y => y | None => dflt end)
  end.

Definition cwd_of_call (cl : call) : option (option str) :=
  match cl with CallCwd (Some p) => Some (Some p) | _ => None end.
Definition stdin_of_call (cl : call) : option stdin_policy :=
  match cl with
  | CallStdinText t => Some (StdinText t)
  | CallStdinInherit => Some StdinInherit
  | CallStdinNull => Some StdinNull
  | _ => None
  end.
Definition stdout_of_call (cl : call) : option output_policy :=
  match cl with
  | CallStdoutCapture => Some OutCapture
  | CallStdoutInherit => Some OutInherit
  | CallStdoutNull => Some OutNull
  | _ => None
  end.
Definition stderr_of_call (cl : call) : option output_policy :=
  match cl with
  | CallStderrCapture => Some OutCapture
  | CallStderrInherit => Some OutInherit
  | CallStderrNull => Some OutNull
  | _ => None
  end.
Definition timeout_of_call (cl : call) : option (option Z) :=
  match cl with
  | CallTimeoutMs (Some (NumInt n)) => if n <=? 0 then None else Some (Some (saturate_u32 n))
  | _ => None
  end.

(* environment: the vector produced by replaying the writes with env_set *)
Definition env_fold (e0 : list (str * str)) (ws : list (str * str)) : list (str * str) :=
  fold_left (fun e kv => env_set e (fst kv) (snd kv)) ws e0.

(* last value written for key k, if any *)
Fixpoint last_write (k : str) (ws : list (str * str)) (acc : option str) : option str :=
  match ws with
  | [] => acc
  | (k', v) :: t => last_write k t (if str_eqb k' k then Some v else acc)
  end.

(* value of key k in an environment vector (first pair with that key) *)
Fixpoint env_lookup (k : str) (e : list (str * str)) : option str :=
  match e with
  | [] => None
  | (k', v) :: t => if str_eqb k' k then Some v else env_lookup k t
  end.

(* keys in order of first appearance *)
Fixpoint first_keys (seen : list str) (ws : list (str * str)) : list str :=
  match ws with
  | [] => seen
  | (k, _) :: t => if existsb (fun k' => str_eqb k' k) seen then first_keys seen t
                   else first_keys (seen ++ [k]) t
  end.

(* A call that the runtime accepts (no type/number error). *)
Definition call_ok (cl : call) : Prop :=
  match cl with
  | CallCwd None | CallEnv None _ => False
  | CallTimeoutMs (Some (NumInt n)) => 0 < n
  | CallTimeoutMs _ => False
  | _ => True
  end.

Definition is_call (s : step) : option call := match s with SCall cl => Some cl | SRun => None end.
Definition calls_of (steps : list step) : list call :=
  flat_map (fun s => match s with SCall cl => [cl] | SRun => [] end) steps.

(* The builder that a list of accepted calls configures, described field by field. *)
Definition view (b0 : command) (cs : list call) : command :=
  mkCommand (c_program b0)
            (c_args b0 ++ arg_texts cs)
            (last_some cwd_of_call cs (c_cwd b0))
            (env_fold (c_env b0) (env_writes cs))
            (last_some stdin_of_call cs (c_stdin b0))
            (last_some stdout_of_call cs (c_stdout b0))
            (last_some stderr_of_call cs (c_stderr b0))
            (last_some timeout_of_call cs (c_timeout b0)).

Fixpoint count_runs (steps : list step) : nat :=
  match steps with
  | [] => O
  | SRun :: t => S (count_runs t)
  | SCall _ :: t => count_runs t
  end.

(* "[s] is the specification of the i-th run statement of the script": the run statement is
   preceded by accepted builder calls only, the gate is open, the configured command is
   within the caps, and [s] consists of exactly the configured values. *)
Definition spawn_justified (pol : host_policy) (b : command) (steps : list step) (i : nat) (s : spec) : Prop :=
  exists pre post,
    steps = pre ++ SRun :: post /\ count_runs pre = i /\
    Forall call_ok (calls_of pre) /\ allow_process pol = true /\
    within_caps (process_caps pol) (view b (calls_of pre)) /\
    validate (process_caps pol) (view b (calls_of pre)) = Ok s /\
    s = spec_of (process_caps pol) (view b (calls_of pre)).

(* The message each rejection kind carries in the source; Properties/C15.v checks that this
   list is exactly GenProc.validate_messages (order of first appearance in validate). *)
Require Coq.Strings.String.
Module VerrMsg.
  Import Coq.Strings.String.
  Local Open Scope string_scope.
  Definition verr_message (e : verr) : string :=
    match e with
    | VProgram => "program"
    | VArgCount => "argument count"
    | VEnvCount => "environment pair count"
    | VArgument => "argument"
    | VArgBytes => "Argument bytes pass configured limit"
    | VCwd => "cwd"
    | VEnvKey => "environment key"
    | VEnvValue => "environment value"
    | VEnvBytes => "Environment bytes pass configured limit"
    | VStdin => "stdin text"
    | VTimeoutZero => "Timeout must be positive"
    | VTimeoutMax => "Timeout pass configured limit"
    end.
End VerrMsg.
Definition verr_message := VerrMsg.verr_message.
