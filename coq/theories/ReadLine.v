(* ReadLine.v — executable model of `UnixStdin::read_line` (src/sys/unix.rs) and of the
   standard-input stream it reads with read(2).  Model file: definitions only.

   Bytes are Z, strings are list Z.  The constants rl_initial_cap (size the line buffer
   starts with), rl_growth (factor it grows by), rl_read_max (most one read(2) may take),
   rl_newline (the byte searched for) and rl_keeps_rest (whether the bytes after the newline
   are stored for the next call) are regenerated from the source by translator/gen_readline.py.

   What the code keeps between calls: the static `PENDING: Mutex<Vec<u8>>`, the bytes that
   a read(2) delivered after the newline that ended the previous line.  Inside one call it
   keeps: the line buffer `buf` (an ArenaString; its bytes [0, len)), `cap` (what the code
   believes the buffer can hold), the real capacity of the underlying Vec (`vcap` here:
   with_capacity_in / extend_from_slice / set_len / reserve_exact are modelled as Vec
   specifies them) and `scanned` (bytes already searched).

   Not modelled: the prompt (`print!` + flush), a failing read(2) (n < 0 returns the OS
   error), usize wrap-around (sizes stay far below 2^63), UTF-8 validity of the bytes (the
   code performs no check; the property's texts are valid UTF-8 and the bytes are passed
   through unchanged). *)
From Coq Require Import ZArith List Bool.
Require Import NS.theories.GenReadLine.
Import ListNotations.
Open Scope Z_scope.

Definition zlen {A : Type} (l : list A) : Z := Z.of_nat (length l).
Definition ztake {A : Type} (n : Z) (l : list A) : list A := firstn (Z.to_nat n) l.
Definition zdrop {A : Type} (n : Z) (l : list A) : list A := skipn (Z.to_nat n) l.

(* ------------------------------------------------------------------------------------ *)
(* Standard input.  [s_rem]: the bytes not yet delivered.  [s_sched]: the adversary — the
   sizes of the pieces in which the input becomes available to the process (the writer's
   write sizes, the kernel's buffering; an entry below 1 counts as 1).  A read(2) of
   [count] bytes returns the next min(count, what is left of the current piece, bytes left)
   bytes; a piece larger than [count] is handed out over several reads; when the schedule
   is used up everything left is available; at end of input read returns nothing (n = 0),
   forever.  This is exactly what shim/readshim.c makes the real read(2) do. *)
Record stream := mkStream { s_rem : list Z; s_sched : list Z }.

Definition sys_read (s : stream) (count : Z) : list Z * stream :=
  match s_rem s with
  | [] => ([], s)
  | _ :: _ =>
      let offer := match s_sched s with [] => zlen (s_rem s) | x :: _ => Z.max 1 x end in
      let n := Z.min count (Z.min offer (zlen (s_rem s))) in
      let sched' := match s_sched s with
                    | [] => []
                    | _ :: t => if n <? offer then (offer - n) :: t else t
                    end in
      (ztake n (s_rem s), mkStream (zdrop n (s_rem s)) sched')
  end.

(* ------------------------------------------------------------------------------------ *)
(* memchr_rs::memchr(needle, haystack, offset): index of the first occurrence at or after
   [offset], the length of the haystack when there is none. *)
Fixpoint index_of (x : Z) (l : list Z) : Z :=
  match l with
  | [] => 0
  | y :: t => if y =? x then 0 else 1 + index_of x t
  end.

Definition memchr (x : Z) (hay : list Z) (off : Z) : Z :=
  let o := Z.min off (zlen hay) in
  o + index_of x (zdrop o hay).

(* ------------------------------------------------------------------------------------ *)
(* Vec<u8, &Arena>: only the capacity matters here. *)

(* Vec::reserve (amortised), as used by extend_from_slice *)
Definition vec_reserve (vcap vlen additional : Z) : Z :=
  if additional <=? vcap - vlen then vcap
  else Z.max (Z.max (2 * vcap) (vlen + additional)) 8.

(* Vec::reserve_exact *)
Definition vec_reserve_exact (vcap vlen additional : Z) : Z :=
  if additional <=? vcap - vlen then vcap else vlen + additional.

(* ------------------------------------------------------------------------------------ *)
Inductive outcome :=
| Line (line pending : list Z) (s : stream) (trace : list (Z * Z))
    (* Ok(line); the new PENDING; the stream afterwards; (count requested, n returned) of
       every read(2) made, in order *)
| Fault      (* `cap - len` below zero, set_len above the capacity, or a read(2) allowed to
                write outside the allocation *)
| OutOfFuel.

(* `if len == cap { cap *= growth; set_len(len); reserve_exact(cap - len) }`:
   the new (cap, real capacity); None when set_len would exceed the capacity. *)
Definition rl_grow (len cap vcap : Z) : option (Z * Z) :=
  if len =? cap then
    let cap2 := cap * rl_growth in
    if vcap <? len then None
    else Some (cap2, vec_reserve_exact vcap len (cap2 - len))
  else Some (cap, vcap).

(* The `loop { ... }` of read_line; [buf] are the bytes [0, len) of the buffer. *)
Fixpoint rl_loop (fuel : nat) (buf : list Z) (cap vcap scanned : Z) (s : stream)
         (tr : list (Z * Z)) : outcome :=
  match fuel with
  | O => OutOfFuel
  | S fuel' =>
      let len := zlen buf in
      let index := memchr rl_newline buf scanned in
      if index <? len then
        (* pending.extend_from_slice(&hay[index + 1..]); len = index; break *)
        Line (ztake index buf)
             (if rl_keeps_rest =? 1 then zdrop (index + 1) buf else [])
             s (rev tr)
      else
        (* scanned = len *)
        match rl_grow len cap vcap with
        | None => Fault
        | Some (cap', vcap') =>
            if cap' <? len then Fault
            else
              let count := Z.min (cap' - len) rl_read_max in
              if vcap' <? len + count then Fault
              else
                match sys_read s count with
                | ([], s') => (* n == 0: EOF; set_len(len) *)
                    Line buf [] s' (rev ((count, 0) :: tr))
                | (chunk, s') =>
                    rl_loop fuel' (buf ++ chunk) cap' vcap' len s' ((count, zlen chunk) :: tr)
                end
        end
  end.

(* One call.  [pending]: the contents of PENDING on entry (it is cleared after being copied
   into the buffer). *)
Definition read_line_fuel (fuel : nat) (pending : list Z) (s : stream) : outcome :=
  let cap := rl_initial_cap in
  (* with_capacity_in(cap) ; extend_from_slice(&pending) *)
  let vcap := vec_reserve cap 0 (zlen pending) in
  rl_loop fuel pending cap vcap 0 s [].

(* Each turn of the loop that does not return takes at least one byte off the stream. *)
Definition fuel_for (s : stream) : nat := S (S (length (s_rem s))).

Definition read_line (pending : list Z) (s : stream) : outcome :=
  read_line_fuel (fuel_for s) pending s.

(* k successive calls; the lines returned (with each call's read trace). *)
Fixpoint calls_fuel (fuel : nat) (k : nat) (pending : list Z) (s : stream)
  : option (list (list Z * list (Z * Z))) :=
  match k with
  | O => Some []
  | S k' =>
      match read_line_fuel fuel pending s with
      | Line l p' s' tr =>
          match calls_fuel fuel k' p' s' with
          | Some r => Some ((l, tr) :: r)
          | None => None
          end
      | _ => None
      end
  end.

(* A fresh process (PENDING empty) whose standard input carries [text], delivered as
   [sched] dictates, calling read_line [k] times. *)
Definition run (text sched : list Z) (k : nat) : option (list (list Z * list (Z * Z))) :=
  calls_fuel (S (S (length text))) k [] (mkStream text sched).

(* ------------------------------------------------------------------------------------ *)
(* The property's reference: the text cut at every '\n' (byte 10), as Python's
   text.split(b"\n"): a text ending in '\n' has a last, empty piece. *)
Fixpoint split_lines (t : list Z) : list (list Z) :=
  match t with
  | [] => [[]]
  | c :: t' =>
      if c =? 10 then [] :: split_lines t'
      else match split_lines t' with
           | l :: ls => (c :: l) :: ls
           | [] => [[c]]
           end
  end.

(* what the k-th call (from 0) must return *)
Definition expected_line (text : list Z) (k : nat) : list Z := nth k (split_lines text) [].
Definition expected (text : list Z) (k : nat) : list (list Z) :=
  map (expected_line text) (seq 0 k).

(* [expected] computed in one pass (the extracted model prints this one;
   proofs/ReadLineProofs.v: expected_fast_eq) *)
Fixpoint take_pad (k : nat) (l : list (list Z)) : list (list Z) :=
  match k with
  | O => []
  | S k' => match l with
            | [] => [] :: take_pad k' []
            | x :: l' => x :: take_pad k' l'
            end
  end.
Definition expected_fast (text : list Z) (k : nat) : list (list Z) := take_pad k (split_lines text).

(* Auxiliary notions used in the statements of Properties/C17.v. *)

(* the text up to its first newline / after it *)
Definition first_line (t : list Z) : list Z := ztake (index_of 10 t) t.
Definition after_line (t : list Z) : list Z := zdrop (index_of 10 t + 1) t.

(* the pieces joined with newlines *)
Fixpoint join_nl (ls : list (list Z)) : list Z :=
  match ls with
  | [] => []
  | [l] => l
  | l :: ls' => l ++ 10 :: join_nl ls'
  end.

(* complete lines (each followed by a newline), then a remainder *)
Definition unlines_with (ls : list (list Z)) (last : list Z) : list Z :=
  concat (map (fun l => l ++ [10]) ls) ++ last.
