(* ReadLineShipped.v — the read_line of the snapshot as shipped (src/sys/unix.rs before the
   repair fixes/C17-data-after-newline-dropped.patch), transcribed with the same stream and
   Vec model as ReadLine.v.  It exists only so that the two defects are kernel-checked
   facts (proofs/ReadLineShippedProofs.v); nothing ties it to the current source, and no
   property theorem depends on it.  Definitions only.

   Shipped code: nothing is kept between calls; the Vec's length stays 0 until the final
   set_len, so `reserve_exact(cap - buf.capacity())` asks for 8192 more than length 0 and
   the capacity never changes; the newline is searched in the bytes just read and the
   buffer is cut there, the bytes after it are dropped with the buffer. *)
From Coq Require Import ZArith List Bool.
Require Import NS.theories.ReadLine.
Import ListNotations.
Open Scope Z_scope.

Fixpoint shipped_loop (fuel : nat) (buf : list Z) (cap vcap : Z) (s : stream)
         (tr : list (Z * Z)) : outcome :=
  match fuel with
  | O => OutOfFuel
  | S fuel' =>
      let len := zlen buf in
      let '(cap', vcap') :=
        if len =? cap then (cap * 2, vec_reserve_exact vcap 0 (cap * 2 - vcap)) else (cap, vcap) in
      let count := cap' - len in
      if vcap' <? len + count then Fault
      else
        match sys_read s count with
        | ([], s') => Line buf [] s' (rev ((count, 0) :: tr))
        | (chunk, s') =>
            let buf' := buf ++ chunk in
            let index := memchr 10 buf' len in
            if index <? zlen buf' then Line (ztake index buf') [] s' (rev ((count, zlen chunk) :: tr))
            else shipped_loop fuel' buf' cap' vcap' s' ((count, zlen chunk) :: tr)
        end
  end.

Definition shipped_read_line (s : stream) : outcome :=
  shipped_loop (fuel_for s) [] 8192 8192 s [].

Fixpoint shipped_calls (k : nat) (s : stream) : option (list (list Z)) :=
  match k with
  | O => Some []
  | S k' =>
      match shipped_read_line s with
      | Line l _ s' _ =>
          match shipped_calls k' s' with Some r => Some (l :: r) | None => None end
      | _ => None
      end
  end.
