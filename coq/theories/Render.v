(* Render.v — the arithmetic and the slicing of src/diagnostics.rs: compute_line_starts,
   line_col_from_span, visual_col and the `&src[a..b]` expressions of render_diagnostic /
   render_ansi.  Every `&src[a..b]` is a [slice] (None = the Rust code panics: index out of
   range, a > b, or an end inside a character).  The text that is produced (colours,
   gutters, messages) is not modelled: only whether rendering goes through and the
   geometry it prints (line, column, caret count, label columns and dash counts).
   Definitions only; proofs in proofs/RenderProofs.v.

   std functions are modelled by their specification: `binary_search` on the strictly
   increasing line-start vector followed by `unwrap_or_else(|x| x - 1)` is "index of the
   last element <= start"; `chars()` of a (valid) slice visits one character per
   non-continuation byte. *)
From Coq Require Import ZArith List Bool Arith.
Require Import NS.theories.Utf8 NS.theories.GenLexer.
Import ListNotations.
Open Scope nat_scope.

(* compute_line_starts without the leading 0: [i] is the offset of the head of [r] *)
Fixpoint line_starts_from (r : bytes) (i : nat) : list nat :=
  match r with
  | [] => []
  | b :: t =>
      if (b =? 13)%Z then
        match t with
        | b' :: t' =>
            if (b' =? 10)%Z then (S (S i)) :: line_starts_from t' (S (S i))     (* \r\n *)
            else (S i) :: line_starts_from t (S i)                     (* lone \r *)
        | [] => [S i]
        end
      else if (b =? 10)%Z then (S i) :: line_starts_from t (S i)
      else line_starts_from t (S i)
  end.

Definition compute_line_starts (s : bytes) : list nat := 0 :: line_starts_from s 0.

(* binary_search(&start).unwrap_or_else(|x| x - 1) on a strictly increasing vector whose
   first element is 0: index of the last element <= start.  [idx] is the index of [cur]. *)
Fixpoint find_line (cur : nat) (idx : nat) (rest : list nat) (start : nat) : nat * nat * option nat :=
  match rest with
  | [] => (idx, cur, None)
  | nxt :: rest' =>
      if nxt <=? start then find_line nxt (S idx) rest' start
      else (idx, cur, Some nxt)
  end.

(* visual_col: one column per character, tabs to the next multiple of TAB_WIDTH *)
Fixpoint visual_col_from (col : nat) (text : bytes) : nat :=
  match text with
  | [] => col
  | b :: t =>
      if is_cont b then visual_col_from col t
      else if (b =? 9)%Z then visual_col_from (col + (tab_width - col mod tab_width)) t
      else visual_col_from (col + 1) t
  end.
Definition visual_col (text : bytes) : nat := visual_col_from 0 text.

(* line_col_from_span: (line number, column, line_start, line_end) *)
Definition line_col_from_span (s : bytes) (start : nat) : option (nat * nat * nat * nat) :=
  match compute_line_starts s with
  | [] => None
  | first :: more =>
      match find_line first 0 more start with
      | (line_idx, line_start, next) =>
          let line_end := match next with Some n => n - 1 | None => length s end in
          match slice s line_start start with
          | Some before => Some (line_idx + 1, visual_col before + 1, line_start, line_end)
          | None => None
          end
      end
  end.

(* geometry of one label: (same line as the diagnostic?, column, dash count) *)
Definition label_geometry (s : bytes) (line line_start line_end : nat) (lspan : nat * nat)
  : option (bool * nat * nat) :=
  let (lstart, lend) := lspan in
  match line_col_from_span s lstart with
  | None => None
  | Some (lline, lcol, lline_start, lline_end) =>
      if lline =? line then
        match slice s line_start lstart, slice s lstart (Nat.min lend line_end) with
        | Some before, Some under => Some (true, visual_col before + 1, Nat.max (visual_col under) 1)
        | _, _ => None
        end
      else
        match slice s lline_start lline_end, slice s lstart (Nat.min lend lline_end) with
        | Some _, Some under => Some (false, lcol, Nat.max (visual_col under) 1)
        | _, _ => None
        end
  end.

Fixpoint all_some {A : Type} (l : list (option A)) : option (list A) :=
  match l with
  | [] => Some []
  | Some a :: l' => match all_some l' with Some r => Some (a :: r) | None => None end
  | None :: _ => None
  end.

Record geometry := {
  g_line : nat; g_col : nat; g_carets : nat; g_labels : list (bool * nat * nat)
}.

(* render_diagnostic for a diagnostic with span (dstart, dend) and label spans [labels] *)
Definition render_diagnostic (s : bytes) (dspan : nat * nat) (labels : list (nat * nat)) : option geometry :=
  let (dstart, dend) := dspan in
  match line_col_from_span s dstart with
  | None => None
  | Some (line, col, line_start, line_end) =>
      match slice s line_start line_end,                       (* expand_tabs(&src[line_start..line_end]) *)
            slice s dstart (Nat.min dend line_end) with        (* caret_count *)
      | Some _, Some under =>
          match all_some (map (label_geometry s line line_start line_end) labels) with
          | Some gl => Some {| g_line := line; g_col := col;
                               g_carets := Nat.max (char_count under) 1; g_labels := gl |}
          | None => None
          end
      | _, _ => None
      end
  end.

(* render_ansi: compute_gutter_width (line_col_from_span of every span) + every diagnostic *)
Definition render_ansi (s : bytes) (diags : list ((nat * nat) * list (nat * nat))) : option (list geometry) :=
  all_some (map (fun d => render_diagnostic s (fst d) (snd d)) diags).

(* ------------------------------------------------------------------ the text of the source lines
   (what render_diagnostic prints after the gutters); used by the correspondence only.
   expand_tabs: one column per character, a tab becomes spaces up to the next multiple of
   TAB_WIDTH. *)
Fixpoint expand_tabs_from (col : nat) (text : bytes) : bytes :=
  match text with
  | [] => []
  | b :: t =>
      if is_cont b then b :: expand_tabs_from col t
      else if (b =? 9)%Z then
        repeat 32%Z (tab_width - col mod tab_width) ++ expand_tabs_from (col + (tab_width - col mod tab_width)) t
      else b :: expand_tabs_from (col + 1) t
  end.
Definition expand_tabs (text : bytes) : bytes := expand_tabs_from 0 text.

(* Some None: label on the diagnostic's own line; Some (Some l): the expanded source line shown
   for a cross-line label *)
Definition cross_line_src (s : bytes) (line : nat) (lspan : nat * nat) : option (option bytes) :=
  match line_col_from_span s (fst lspan) with
  | None => None
  | Some (lline, _, lline_start, lline_end) =>
      if lline =? line then Some None
      else match slice s lline_start lline_end with
           | Some t => Some (Some (expand_tabs t))
           | None => None
           end
  end.

(* (expanded line of the diagnostic, expanded lines of the cross-line labels in label order) *)
Definition render_lines (s : bytes) (dspan : nat * nat) (labels : list (nat * nat))
  : option (bytes * list (option bytes)) :=
  match line_col_from_span s (fst dspan) with
  | None => None
  | Some (line, _, line_start, line_end) =>
      match slice s line_start line_end, all_some (map (cross_line_src s line) labels) with
      | Some t, Some xs => Some (expand_tabs t, xs)
      | _, _ => None
      end
  end.
