(* RulesWf — what ties the ids the real resolver attached to the NAMES StaticRules resolves
   (C06 round 2).  Definitions only; proofs in proofs/RulesImplyWf.v.

   StaticRules.check (C09) works on names and ignores every id of the resolved AST
   (`ECall .. target`, `SFun .. fid lstart llen`).  WfStatic.wf_static (C06) looks the arity
   of a user call up by the callee's FunctionId.  Between the two sits exactly this file:

     ids_consistent p  =  calls_lexical p && fids_unique p && params_in_range p

   * calls_lexical   every function definition carries a FunctionId, and every call of a user
                     function carries the FunctionId of the definition its NAME denotes
                     lexically: the first definition of that name directly in the innermost
                     enclosing block that has one (function bodies see the enclosing blocks).
                     This is the function half of LexResolve.chk_block (C04), with the same
                     environment shape (LexResolve.predecl / vlookup), variables left out.
   * fids_unique     the FunctionIds of distinct definitions are distinct
                     (= the second half of LexResolve.ids_ok).
   * params_in_range a function's parameters fit its local-id range, `#params <= llen`
                     (bound_param_ids' assert!; LexResolve.chk_stmt has the same test).
                     StaticRules has no local ids, so this conjunct of wf_static cannot come
                     from it: it stays a checked fact about the ids.

   idx_targets p (parser-level shape): the target of every index assignment is an index
   expression.  Neither the resolver nor StaticRules looks at it; src/syntax/parser.rs builds
   `AssignIndex` only from an `Expr::Index` (Parser.parse_ident_statement builds YSetIdx only
   from XIdx: proofs/RulesImplyWf.v parser_idx_targets). *)
From Coq Require Import ZArith List Bool.
Require Import NS.theories.Lang NS.theories.WfStatic NS.theories.LexResolve.
Import ListNotations.
Open Scope Z_scope.

(* ---------- calls carry the id of the lexically visible definition ---------- *)
Fixpoint calls_expr (F : fenv) (e : expr) {struct e} : bool :=
  match e with
  | ENum _ | EStr _ | EInterp _ | EBool _ | ENull | EVar _ _ => true
  | EBin _ a b => calls_expr F a && calls_expr F b
  | EUn _ a => calls_expr F a
  | EArr es => forallb (calls_expr F) es
  | EIdx a i => calls_expr F a && calls_expr F i
  | EMember o _ => calls_expr F o
  | ECall c args t =>
      (match c with
       | EVar f _ =>
           match global_builtin f with
           | Some _ => true
           | None => match vlookup F f with Some fid => zopt_eqb t (Some fid) | None => false end
           end
       | EMember o _ => calls_expr F o
       | _ => calls_expr F c
       end) && forallb (calls_expr F) args
  end.

(* a block: its directly defined functions (all bound to an id) are pushed, then every statement *)
Definition in_block (chk : fenv -> stmt -> bool) (F : fenv) (b : list stmt) : bool :=
  match predecl b with
  | None => false
  | Some fs => forallb (chk (fs :: F)) b
  end.

Fixpoint calls_stmt (F : fenv) (t : stmt) {struct t} : bool :=
  match t with
  | SFun _ _ _ body fid _ _ =>
      (match fid with Some _ => true | None => false end) && in_block calls_stmt ([] :: F) body
  | SMake _ _ _ e | SSet _ _ _ e | SExpr _ e => calls_expr F e
  | SSetIdx _ tg e => calls_expr F tg && calls_expr F e
  | SIf _ c t f =>
      calls_expr F c && in_block calls_stmt F t
      && match f with Some fb => in_block calls_stmt F fb | None => true end
  | SLoop _ c b => calls_expr F c && in_block calls_stmt F b
  | SBlock _ b => in_block calls_stmt F b
  | SRet _ None => true
  | SRet _ (Some e) => calls_expr F e
  | SBreak _ | SNext _ => true
  end.

Definition calls_lexical (p : list stmt) : bool := in_block calls_stmt [] p.

(* ---------- function ids are pairwise distinct ---------- *)
Definition fids_unique (p : list stmt) : bool := nodupZ (map fst (ftable p)).

(* ---------- parameters fit the function's local-id range ---------- *)
Fixpoint prange_stmt (t : stmt) {struct t} : bool :=
  match t with
  | SFun _ _ ps body _ _ llen => (Z.of_nat (length ps) <=? llen) && forallb prange_stmt body
  | SIf _ _ t f =>
      forallb prange_stmt t && match f with Some fb => forallb prange_stmt fb | None => true end
  | SLoop _ _ b | SBlock _ b => forallb prange_stmt b
  | _ => true
  end.
Definition params_in_range (p : list stmt) : bool := forallb prange_stmt p.

Definition ids_consistent (p : list stmt) : bool :=
  calls_lexical p && fids_unique p && params_in_range p.

(* ---------- parser-level shape: index-assignment targets are index expressions ---------- *)
Fixpoint idxt_stmt (t : stmt) {struct t} : bool :=
  match t with
  | SSetIdx _ tg _ => is_index tg
  | SFun _ _ _ body _ _ _ => forallb idxt_stmt body
  | SIf _ _ t f =>
      forallb idxt_stmt t && match f with Some fb => forallb idxt_stmt fb | None => true end
  | SLoop _ _ b | SBlock _ b => forallb idxt_stmt b
  | _ => true
  end.
Definition idx_targets (p : list stmt) : bool := forallb idxt_stmt p.

(* ---------- example programs for the non-vacuity Examples of Properties/C06.v ---------- *)
Definition rw_f : name := [102].
Definition rw_g : name := [103].
Definition rw_p : name := [112].
Definition rw_a : name := [97].
Definition rw_one : expr := ENum (F64.of_Z 1).

(* do g() start return 5 end
   do f(p) start  do g(a) start return a end  return g(p).len() end
   make a get [[1]]   a[0][0] get f("ab")   a[0].push(g())
   jasi (true) start if to say (true) start comot end end
   — an inner g (arity 1, id 3) shadows the outer g (arity 0, id 1) inside f only *)
Definition ex_rules_ok : list stmt :=
  [ SFun (Some 0) rw_g [] [SRet (Some 1) (Some (ENum (F64.of_Z 5)))] (Some 1) 0 0;
    SFun (Some 2) rw_f [rw_p]
      [ SFun (Some 3) rw_g [rw_a] [SRet (Some 4) (Some (EVar rw_a (Some 1)))] (Some 3) 1 1;
        SRet (Some 5) (Some (ECall (EMember (ECall (EVar rw_g None) [EVar rw_p (Some 0)] (Some 3)) n_len) [] None)) ]
      (Some 2) 0 2;
    SMake (Some 6) rw_a (Some 2) (EArr [EArr [rw_one]]);
    SSetIdx (Some 7) (EIdx (EIdx (EVar rw_a (Some 2)) (ENum (F64.of_Z 0))) (ENum (F64.of_Z 0)))
            (ECall (EVar rw_f None) [EStr [97; 98]] (Some 2));
    SExpr (Some 8) (ECall (EMember (EIdx (EVar rw_a (Some 2)) (ENum (F64.of_Z 0))) n_push)
                          [ECall (EVar rw_g None) [] (Some 1)] None);
    SLoop (Some 9) (EBool true) [SIf (Some 10) (EBool true) [SBreak (Some 11)] None] ].

(* the same names, but the call of g inside f carries the id of the OUTER g (arity 0):
   the static rules accept it (they see names), the ids are not the lexical ones, wf_static
   rejects it and the run panics at the argument-count assert *)
Definition ex_rules_wrong_target : list stmt :=
  [ SFun (Some 0) rw_g [] [SRet (Some 1) (Some (ENum (F64.of_Z 5)))] (Some 1) 0 0;
    SFun (Some 2) rw_f [rw_p]
      [ SFun (Some 3) rw_g [rw_a] [SRet (Some 4) (Some (EVar rw_a (Some 1)))] (Some 3) 1 1;
        SRet (Some 5) (Some (ECall (EVar rw_g None) [EVar rw_p (Some 0)] (Some 1))) ]
      (Some 2) 0 2;
    SExpr (Some 6) (ECall (EVar n_shout None) [ECall (EVar rw_f None) [rw_one] (Some 2)] None) ].

(* two definitions sharing one FunctionId: calls are lexical, the rules hold, but the function
   table is ambiguous (f(1) finds g's entry first) *)
Definition ex_rules_dup_fid : list stmt :=
  [ SFun (Some 0) rw_g [] [] (Some 1) 0 0;
    SFun (Some 1) rw_f [rw_p] [] (Some 1) 0 1;
    SExpr (Some 2) (ECall (EVar rw_f None) [rw_one] (Some 1)) ].

(* p.slice() on a parameter / comot in a function inside a loop / f(1) for do f() / shout():
   each violates one static rule *)
Definition ex_rules_bad_method : list stmt :=
  [ SFun (Some 0) rw_f [rw_p]
      [SRet (Some 1) (Some (ECall (EMember (EVar rw_p (Some 0)) n_slice) [] None))] (Some 1) 0 1;
    SExpr (Some 2) (ECall (EVar rw_f None) [EStr [97; 98]] (Some 1)) ].
Definition ex_rules_bad_break : list stmt :=
  [ SLoop (Some 0) (EBool true)
      [ SFun (Some 1) rw_g [] [SBreak (Some 2)] (Some 1) 0 0;
        SExpr (Some 3) (ECall (EVar rw_g None) [] (Some 1)) ] ].
Definition ex_rules_bad_arity : list stmt :=
  [ SFun (Some 0) rw_f [] [] (Some 1) 0 0;
    SExpr (Some 1) (ECall (EVar rw_f None) [rw_one] (Some 1)) ].
Definition ex_rules_bad_builtin : list stmt :=
  [ SExpr (Some 0) (ECall (EVar n_shout None) [] None) ].

(* ---------- forgetting the resolver's ids (the tree the parser built) ---------- *)
Definition erase_seg (g : seg) : seg := match g with SegLit s => SegLit s | SegVar n _ => SegVar n None end.
Fixpoint erase_expr (e : expr) {struct e} : expr :=
  match e with
  | ENum _ | EStr _ | EBool _ | ENull => e
  | EInterp segs => EInterp (map erase_seg segs)
  | EVar n _ => EVar n None
  | EBin op a b => EBin op (erase_expr a) (erase_expr b)
  | EUn op a => EUn op (erase_expr a)
  | EArr es => EArr (map erase_expr es)
  | EIdx a i => EIdx (erase_expr a) (erase_expr i)
  | EMember o f => EMember (erase_expr o) f
  | ECall c args _ => ECall (erase_expr c) (map erase_expr args) None
  end.
Fixpoint erase_stmt (t : stmt) {struct t} : stmt :=
  match t with
  | SFun _ n ps body _ _ _ => SFun None n ps (map erase_stmt body) None 0 0
  | SMake _ n _ e => SMake None n None (erase_expr e)
  | SSet _ n _ e => SSet None n None (erase_expr e)
  | SSetIdx _ tg e => SSetIdx None (erase_expr tg) (erase_expr e)
  | SIf _ c t f => SIf None (erase_expr c) (map erase_stmt t) (option_map (map erase_stmt) f)
  | SLoop _ c b => SLoop None (erase_expr c) (map erase_stmt b)
  | SBlock _ b => SBlock None (map erase_stmt b)
  | SRet _ e => SRet None (option_map erase_expr e)
  | SBreak _ => SBreak None
  | SNext _ => SNext None
  | SExpr _ e => SExpr None (erase_expr e)
  end.
Definition erase_ids (p : list stmt) : list stmt := map erase_stmt p.
