(* Scratch.v — executable model of src/arena/scratch.rs (the two process-global scratch
   arenas, `scratch_arena(conflict)`, `ScratchArena::drop`, `init`) on top of the bump-arena
   model of theories/Bump.v, plus the pipeline wiring of src/bin/naija/{main,cmd}.rs and
   wasm/src/lib.rs (scripts regenerated into GenWiring.v) and the CLI exit status.
   Model file: definitions only, no proofs.

   What is not here: the contents of memory that a *previous* run left behind are in the
   model (debug poison 0xDD/0xCD included) but no modelled client ever reads a byte it has
   not written itself, so the model cannot exhibit a stale read; that is what the
   back-to-back debug runs of the correspondence are for. *)
From Coq Require Import ZArith List Bool.
Require Import NS.theories.Generated NS.theories.Bump NS.theories.GenWiring.
Import ListNotations.
Open Scope Z_scope.

(* ------------------------------------------------------------------ *)
(* scratch_arena(conflict)                                             *)

(* The conflict argument is `Option<&Arena>`: nothing, one of the two scratch arenas
   (a borrow of it: the debug wrapper is looked through by delegate_target_unchecked),
   or some arena that is neither.  false = S_SCRATCH[0], true = S_SCRATCH[1]. *)
Inductive conflict := CNone | CScratch (a : bool) | COther.

(* let index = usize::from(opt_ptr_eq(conflict, Some(&S_SCRATCH[0]))) *)
Definition choose (c : conflict) : bool :=
  match c with CScratch false => true | _ => false end.

(* A live ScratchArena: which arena it borrows, the offset saved by ScratchArena::new,
   and (ghost) the next block id of that arena at borrow time: blocks with a smaller id
   were allocated before the borrow. *)
Record borrow := mkBor { bo_arena : bool; bo_mark : Z; bo_next : Z }.

(* S_SCRATCH after the first init, each arena with its client ledger, and the live
   borrows, newest first (Rust scopes drop them in LIFO order). *)
Record sst := mkSst { ss0 : cst; ss1 : cst; ss_bors : list borrow }.

Definition sel (a : bool) (st : sst) : cst := if a then ss1 st else ss0 st.
Definition upd (a : bool) (st : sst) (c : cst) : sst :=
  if a then mkSst (ss0 st) c (ss_bors st) else mkSst c (ss1 st) (ss_bors st).

Definition aoff (c : cst) : Z := a_off (s_a (c_s c)).

(* The newest live borrow of arena a: the only one the debug wrapper lets a client use
   ("Arena already borrowed by a newer ScratchArena" otherwise). *)
Definition top_of (a : bool) (l : list borrow) : option borrow :=
  find (fun b => Bool.eqb (bo_arena b) a) l.

(* scratch::init on the empty statics: two fresh reservations. *)
Definition sinit (base0 base1 capacity : Z) : sst :=
  mkSst (cinit base0 capacity) (cinit base1 capacity) [].

(* scratch::init on arenas that exist already: reset(0) (the capacity argument is ignored,
   nothing is decommitted unless the generated flag says the source does).  Every block of
   the previous run is dead. *)
Definition init_arena (dbg : bool) (c : cst) : cst :=
  let s := reset dbg (c_s c) 0 in
  mkCst (if init_decommits then decommit s else s) [] 0 [].

Definition reinit (dbg : bool) (st : sst) : sst :=
  mkSst (init_arena dbg (ss0 st)) (init_arena dbg (ss1 st)) (ss_bors st).

(* ScratchArena::drop: reset(self.offset); decommit() *)
Definition drop_arena (dbg : bool) (c : cst) (mark : Z) : cst :=
  let c1 := do_reset dbg c mark in
  mkCst (if drop_decommits then decommit (c_s c1) else c_s c1) (c_live c1) (c_next c1) (c_marks c1).

Inductive sop :=
| SBorrow (c : conflict)          (* let x = scratch_arena(c) *)
| SDrop                           (* drop of the newest live borrow *)
| SCli (a : bool) (o : op)        (* a client operation through the newest borrow of arena a *)
| SInit.                          (* scratch::init again *)

Inductive sres :=
| SRBorrow (a : bool) (off : Z)
| SRDrop (a : bool) (off : Z)
| SRCli (r : res)
| SRNone.

Definition sstep (dbg : bool) (st : sst) (o : sop) : sst * sres :=
  match o with
  | SBorrow c =>
      let a := choose c in
      let cs := sel a st in
      (mkSst (ss0 st) (ss1 st) (mkBor a (aoff cs) (c_next cs) :: ss_bors st), SRBorrow a (aoff cs))
  | SDrop =>
      match ss_bors st with
      | [] => (st, SRNone)
      | b :: rest =>
          let st' := upd (bo_arena b) st (drop_arena dbg (sel (bo_arena b) st) (bo_mark b)) in
          (mkSst (ss0 st') (ss1 st') rest, SRDrop (bo_arena b) (bo_mark b))
      end
  | SCli a o =>
      match top_of a (ss_bors st) with
      | None => (st, SRNone)
      | Some _ =>
          match o with
          | OBorrow | ORelease => (st, SRNone)
          | _ => let '(c', r) := cstep dbg (sel a st) o in (upd a st c', SRCli r)
          end
      end
  | SInit => (reinit dbg st, SRNone)
  end.

Definition srun (dbg : bool) (st : sst) (ops : list sop) : sst :=
  fold_left (fun s o => fst (sstep dbg s o)) ops st.

(* ------------------------------------------------------------------ *)
(* The discipline under which the two arenas may be shared.

   A client that holds borrow h (saved offset m, taken when the arena's next block id
   was n) may
     - allocate;
     - grow / shrink / write / reset-to-the-start-of a block *it allocated itself*
       (id >= n);
     - reset the arena to an offset between m and the current offset (src/runtime.rs
       resets the frame arena only to offsets it read from `frame.offset()` after it was
       given the frame, and the persistent arena only to the `stage_mark` read just
       before the one staging allocation of relocate_return_value);
   and `init` is called only while no borrow is live (wasm run_source calls it first). *)

Definition disc_cli (c : cst) (h : borrow) (o : op) : Prop :=
  match o with
  | OAlloc _ _ | OAllocZ _ _ | ODecommit => True
  | OGrow idx _ _ | OShrink idx _ | OWrite idx _ | OResetBlk idx =>
      match pick (c_live c) idx with Some b => bo_next h <= b_id b | None => True end
  | OReset t => bo_mark h <= t <= aoff c
  | OBorrow | ORelease => False
  end.

Definition disc (st : sst) (o : sop) : Prop :=
  match o with
  | SBorrow _ | SDrop => True
  | SCli a o =>
      match top_of a (ss_bors st) with
      | Some h => disc_cli (sel a st) h o
      | None => True
      end
  | SInit => ss_bors st = []
  end.

Definition sop_ok (o : sop) : Prop :=
  match o with
  | SCli _ (OAlloc bytes _) | SCli _ (OAllocZ bytes _) => 0 <= bytes
  | SCli _ (OGrow _ delta _) => 0 <= delta
  | SCli _ (OShrink _ d) => 0 <= d
  | SCli _ (OReset t) => 0 <= t
  | _ => True
  end.

(* every op of the run is well-formed and disciplined in the state in which it runs *)
Fixpoint run_disc (dbg : bool) (st : sst) (ops : list sop) : Prop :=
  match ops with
  | [] => True
  | o :: rest => sop_ok o /\ disc st o /\ run_disc dbg (fst (sstep dbg st o)) rest
  end.

(* boolean versions, for the model executable and the Examples *)
Definition disc_clib (c : cst) (h : borrow) (o : op) : bool :=
  match o with
  | OAlloc _ _ | OAllocZ _ _ | ODecommit => true
  | OGrow idx _ _ | OShrink idx _ | OWrite idx _ | OResetBlk idx =>
      match pick (c_live c) idx with Some b => bo_next h <=? b_id b | None => true end
  | OReset t => (bo_mark h <=? t) && (t <=? aoff c)
  | OBorrow | ORelease => false
  end.

Definition discb (st : sst) (o : sop) : bool :=
  match o with
  | SBorrow _ | SDrop => true
  | SCli a o =>
      match top_of a (ss_bors st) with
      | Some h => disc_clib (sel a st) h o
      | None => true
      end
  | SInit => match ss_bors st with [] => true | _ => false end
  end.

Definition sop_okb (o : sop) : bool :=
  match o with
  | SCli _ (OAlloc bytes _) | SCli _ (OAllocZ bytes _) => 0 <=? bytes
  | SCli _ (OGrow _ delta _) => 0 <=? delta
  | SCli _ (OShrink _ d) => 0 <=? d
  | SCli _ (OReset t) => 0 <=? t
  | _ => true
  end.

Fixpoint run_discb (dbg : bool) (st : sst) (ops : list sop) : bool :=
  match ops with
  | [] => true
  | o :: rest => sop_okb o && discb st o && run_discb dbg (fst (sstep dbg st o)) rest
  end.

(* ------------------------------------------------------------------ *)
(* Normalisation: turns an arbitrary client request into a disciplined one, so that
   every op list is a legal history (the same trick as Bump.pick).  Block indices
   select among the blocks the borrow owns; reset targets are taken relative to the
   borrow's saved offset. *)

Definition owned (h : borrow) (b : blk) : bool := bo_next h <=? b_id b.

Fixpoint pos_of (id : Z) (l : list blk) : nat :=
  match l with
  | [] => O
  | x :: r => if b_id x =? id then O else S (pos_of id r)
  end.

Definition norm_idx (c : cst) (h : borrow) (idx : nat) : option nat :=
  match pick (filter (owned h) (c_live c)) idx with
  | Some b => Some (pos_of (b_id b) (c_live c))
  | None => None
  end.

Definition norm_cli (c : cst) (h : borrow) (o : op) : option op :=
  match o with
  | OGrow idx d z => option_map (fun i => OGrow i d z) (norm_idx c h idx)
  | OShrink idx d => option_map (fun i => OShrink i d) (norm_idx c h idx)
  | OWrite idx s => option_map (fun i => OWrite i s) (norm_idx c h idx)
  | OResetBlk idx => option_map OResetBlk (norm_idx c h idx)
  | OReset t => Some (OReset (bo_mark h + t mod (aoff c - bo_mark h + 1)))
  | OBorrow | ORelease => None
  | OAlloc _ _ | OAllocZ _ _ | ODecommit => Some o
  end.

Definition norm (st : sst) (o : sop) : option sop :=
  match o with
  | SCli a o =>
      match top_of a (ss_bors st) with
      | Some h => option_map (SCli a) (norm_cli (sel a st) h o)
      | None => None
      end
  | SInit => match ss_bors st with [] => Some SInit | _ => None end
  | _ => Some o
  end.

Definition nstep (dbg : bool) (st : sst) (o : sop) : sst * sres :=
  match norm st o with
  | Some o' => sstep dbg st o'
  | None => (st, SRNone)
  end.

Definition nrun (dbg : bool) (st : sst) (ops : list sop) : sst :=
  fold_left (fun s o => fst (nstep dbg s o)) ops st.

(* ------------------------------------------------------------------ *)
(* Observations *)

(* what the correspondence compares after each step: per arena offset, commit, number of
   live blocks, sampled-content checksum; and the number of live borrows *)
Definition sobserve (st : sst) : (Z * Z * Z * Z) * (Z * Z * Z * Z) * Z :=
  (observe (ss0 st), observe (ss1 st), Z.of_nat (length (ss_bors st))).

(* what a client can see of *where* things are: results and offsets, neither commit
   nor contents *)
Definition addr_obs (st : sst) : Z * Z := (aoff (ss0 st), aoff (ss1 st)).

Fixpoint strace (dbg : bool) (st : sst) (ops : list sop) : list (sres * (Z * Z)) :=
  match ops with
  | [] => []
  | o :: rest =>
      let '(st', r) := sstep dbg st o in
      (r, addr_obs st') :: strace dbg st' rest
  end.

(* ------------------------------------------------------------------ *)
(* Wiring: the generated scripts (GenWiring.cli_script / wasm_script) interpreted over the
   scratch machine.  Handles are numbered by creation; a handle may be used by a phase
   only while it is the newest live borrow of its arena. *)

Record wst := mkW { w_handles : list (option bool);   (* by creation index; None once dropped *)
                    w_stack : list nat }.             (* live handles, newest first *)

Definition w0 : wst := mkW [] [].

Definition handle_arena (w : wst) (h : nat) : option bool :=
  match nth_error (w_handles w) h with Some (Some a) => Some a | _ => None end.

Definition is_top (w : wst) (h : nat) : bool :=
  match handle_arena w h with
  | Some a =>
      match find (fun k => match handle_arena w k with Some a' => Bool.eqb a' a | None => false end)
                 (w_stack w) with
      | Some k => Nat.eqb k h
      | None => false
      end
  | None => false
  end.

Definition w_push (w : wst) (a : bool) : wst :=
  mkW (w_handles w ++ [Some a]) (length (w_handles w) :: w_stack w).

Fixpoint set_nth {A} (l : list A) (n : nat) (x : A) : list A :=
  match l, n with
  | [], _ => []
  | _ :: r, O => x :: r
  | y :: r, S m => y :: set_nth r m x
  end.

Definition w_pop (w : wst) : option wst :=
  match w_stack w with
  | [] => None
  | k :: rest => Some (mkW (set_nth (w_handles w) k None) rest)
  end.

(* the client operations of the three phases; the boolean selects the second role of the
   phase (resolver: false = scope tables, true = facts; runtime: false = persistent data,
   true = frame temporaries) *)
Record phase_ops := mkPh { po_parse : list op; po_resolve : list (bool * op)%type; po_run : list (bool * op)%type }.

Definition role_ops (a1 a2 : bool) (l : list (bool * op)%type) : list sop :=
  map (fun ro : (bool * op)%type => SCli (if fst ro then a2 else a1) (snd ro)) l.

Fixpoint expand (w : wst) (s : list wev) (p : phase_ops) : option (list sop) :=
  match s with
  | [] => match w_stack w with [] => Some [] | _ => None end     (* every borrow dropped *)
  | WBorrow c :: r =>
      match (match c with
             | WNone => Some CNone
             | WHandle k => option_map CScratch (handle_arena w k)
             end) with
      | Some cf => option_map (cons (SBorrow cf)) (expand (w_push w (choose cf)) r p)
      | None => None
      end
  | WDrop :: r =>
      match w_pop w with
      | Some w' => option_map (cons SDrop) (expand w' r p)
      | None => None
      end
  | WParse h :: r =>
      match handle_arena w h with
      | Some a => if is_top w h
                  then option_map (app (map (SCli a) (po_parse p))) (expand w r p)
                  else None
      | None => None
      end
  | WResolve t f :: r =>
      match handle_arena w t, handle_arena w f with
      | Some at_, Some af => if is_top w t && is_top w f
                             then option_map (app (role_ops at_ af (po_resolve p))) (expand w r p)
                             else None
      | _, _ => None
      end
  | WRun ps fr :: r =>
      match handle_arena w ps, handle_arena w fr with
      | Some ap, Some afr => if is_top w ps && is_top w fr && negb (Bool.eqb ap afr)
                             then option_map (app (role_ops ap afr (po_run p))) (expand w r p)
                             else None
      | _, _ => None
      end
  end.

(* The library pipeline as the test-suite and the harness wire it: one arena for source,
   AST, resolver and persistent data, a second one for the frame; nothing nested. *)
Definition lib_script : list wev :=
  [WBorrow WNone; WBorrow (WHandle 0); WParse 0; WResolve 0 0; WRun 0 1; WDrop; WDrop].

(* ------------------------------------------------------------------ *)
(* Exit status of cmd.rs run_source.  A diagnostic is represented by its severity:
   true = Severity::Error. *)

Definition has_errors (l : list bool) : bool := existsb (fun e => e) l.

Definition guard_fires (g : guard) (l : list bool) : bool :=
  match g with
  | GNonEmpty => match l with [] => false | _ => true end
  | GHasErrors => has_errors l
  end.

(* parse, resolve, run: the diagnostics each phase would emit; a later phase runs only
   if the earlier guard did not fire. *)
Definition exit_code (parse resolve run : list bool) : Z :=
  if guard_fires cli_parse_guard parse then cli_parse_exit
  else if guard_fires cli_resolve_guard resolve then cli_resolve_exit
  else if guard_fires cli_run_guard run then cli_run_exit
  else cli_final_exit.

(* the diagnostics that were actually emitted (phases after a fired guard do not run) *)
Definition emitted (parse resolve run : list bool) : list bool :=
  if guard_fires cli_parse_guard parse then parse
  else if guard_fires cli_resolve_guard resolve then parse ++ resolve
  else parse ++ resolve ++ run.
