(* SimpleTypes — "a program that is valid by the documented rules and uses each variable at the
   type it was declared with": a simple type system read off docs/*.md, over the names of the
   Lang AST only (the checker's ids are ignored).  Definitions only.

   Types: number, string, boolean, null, array, and `dyn` for what the documentation leaves to
   run time (parameters, array elements, results of user functions and of `pop`).
   * every variable keeps the type of its declaration; `x get e` needs e at that type (or one
     side dyn); re-declaring a name in the same block starts a new declaration;
   * operators per the tables of NUMBERS / STRINGS / BOOLEANS / CONDITIONALS / NULL:
     arithmetic on numbers, `add` also concatenates strings and string with number,
     `na`/`pass`/`small pass` between two numbers, two strings or two booleans, `na` against
     null, `and`/`or`/`not` on booleans (null is falsy), unary `minus` on numbers;
   * conditions are boolean (null is falsy);
   * built-in functions and methods with the arities and argument types of the tables in
     BUILTIN_FUNCTIONS / STRINGS / ARRAYS / NUMBERS;
   * functions are visible in the whole block that defines them (FUNCTIONS.md), take any
     values and return any value (null when the body has no `return e`); `return` only inside a function, `comot`/`next` only inside
     a loop of the same function.
   `simply_typed p = true` is the hypothesis of the acceptance half of C01. *)
From Coq Require Import ZArith List Bool.
Require Import NS.theories.Lang.
Import ListNotations.
Open Scope Z_scope.

Inductive ty := TNum | TStr | TBool | TNull | TArr | TDyn.

Definition ty_eqb (a b : ty) : bool :=
  match a, b with
  | TNum, TNum | TStr, TStr | TBool, TBool | TNull, TNull | TArr, TArr | TDyn, TDyn => true
  | _, _ => false
  end.

Definition venv := list (list (name * ty)).      (* innermost block first; newest first *)
Definition fenv := list (list (name * (nat * bool))).   (* functions of each enclosing block: name, arity,
                                                           whether some `return e` occurs in the body *)

Fixpoint assoc_ty (n : name) (sc : list (name * ty)) : option ty :=
  match sc with
  | [] => None
  | (m, t) :: r => if bytes_eqb m n then Some t else assoc_ty n r
  end.

Fixpoint lookup_ty (n : name) (e : venv) : option ty :=
  match e with
  | [] => None
  | sc :: r => match assoc_ty n sc with Some t => Some t | None => lookup_ty n r end
  end.

Fixpoint assoc_fn (n : name) (sc : list (name * (nat * bool))) : option (nat * bool) :=
  match sc with
  | [] => None
  | (m, a) :: r => if bytes_eqb m n then Some a else assoc_fn n r
  end.

Fixpoint lookup_arity (n : name) (e : fenv) : option (nat * bool) :=
  match e with
  | [] => None
  | sc :: r => match assoc_fn n sc with Some a => Some a | None => lookup_arity n r end
  end.

Definition declare (n : name) (t : ty) (e : venv) : venv :=
  match e with
  | [] => [[(n, t)]]
  | sc :: r => ((n, t) :: sc) :: r          (* the newest declaration of a name is found first *)
  end.

Definition is_builtin_name (n : name) : bool :=
  match global_builtin n with Some _ => true | None => false end.

Definition num_like (t : ty) : bool := match t with TNum | TDyn => true | _ => false end.
Definition str_like (t : ty) : bool := match t with TStr | TDyn => true | _ => false end.
Definition bool_like (t : ty) : bool := match t with TBool | TNull | TDyn => true | _ => false end.
Definition arr_like (t : ty) : bool := match t with TArr | TDyn => true | _ => false end.

Definition binop_ty (op : binop) (l r : ty) : option ty :=
  match op with
  | Add =>
      match l, r with
      | TNum, TNum => Some TNum
      | TStr, TStr | TStr, TNum | TNum, TStr => Some TStr
      | TDyn, (TNum | TStr | TDyn) | (TNum | TStr), TDyn => Some TDyn
      | _, _ => None
      end
  | Minus | Times | Divide | Mod => if num_like l && num_like r then Some TNum else None
  | OEq =>
      match l, r with
      | TNum, TNum | TStr, TStr | TBool, TBool => Some TBool
      | TNull, (TNum | TStr | TBool | TNull | TDyn) | (TNum | TStr | TBool | TDyn), TNull => Some TBool
      | TDyn, (TNum | TStr | TBool | TDyn) | (TNum | TStr | TBool), TDyn => Some TBool
      | _, _ => None
      end
  | OGt | OLt =>
      match l, r with
      | TNum, TNum | TStr, TStr | TBool, TBool => Some TBool
      | TDyn, (TNum | TStr | TBool | TDyn) | (TNum | TStr | TBool), TDyn => Some TBool
      | _, _ => None
      end
  | And | Or => if bool_like l && bool_like r then Some TBool else None
  end.

Definition unop_ty (u : unop) (t : ty) : option ty :=
  match u with
  | Not => if bool_like t then Some TBool else None
  | Neg => if num_like t then Some TNum else None
  end.

(* method tables: receiver type, method name -> argument checks and result type *)
Definition string_method_ty (f : name) (args : list ty) : option ty :=
  if bytes_eqb f n_len then match args with [] => Some TNum | _ => None end
  else if bytes_eqb f n_slice then
    match args with [a; b] => if num_like a && num_like b then Some TStr else None | _ => None end
  else if bytes_eqb f n_to_uppercase || bytes_eqb f n_to_lowercase || bytes_eqb f n_trim then
    match args with [] => Some TStr | _ => None end
  else if bytes_eqb f n_find then
    match args with [a] => if str_like a then Some TNum else None | _ => None end
  else if bytes_eqb f n_replace then
    match args with [a; b] => if str_like a && str_like b then Some TStr else None | _ => None end
  else if bytes_eqb f n_to_number then match args with [] => Some TNum | _ => None end
  else if bytes_eqb f n_split then
    match args with [a] => if str_like a then Some TArr else None | _ => None end
  else None.

Definition array_method_ty (f : name) (args : list ty) : option ty :=
  if bytes_eqb f n_len then match args with [] => Some TNum | _ => None end
  else if bytes_eqb f n_push then match args with [_] => Some TNull | _ => None end
  else if bytes_eqb f n_pop then match args with [] => Some TDyn | _ => None end
  else if bytes_eqb f n_reverse then match args with [] => Some TNull | _ => None end
  else if bytes_eqb f n_join then
    match args with [a] => if str_like a then Some TStr else None | _ => None end
  else None.

Definition number_method_ty (f : name) (args : list ty) : option ty :=
  if mem_name f number_methods then match args with [] => Some TNum | _ => None end else None.

(* a dyn receiver: the call must fit the table of at least one documented type *)
Definition dyn_method_ty (f : name) (args : list ty) : option ty :=
  match string_method_ty f args, array_method_ty f args, number_method_ty f args with
  | None, None, None => None
  | _, _, _ => Some TDyn
  end.

Definition method_ty (recv : ty) (f : name) (args : list ty) : option ty :=
  match recv with
  | TStr => string_method_ty f args
  | TArr => array_method_ty f args
  | TNum => number_method_ty f args
  | TDyn => dyn_method_ty f args
  | TBool | TNull => None
  end.

Fixpoint all_some {A} (l : list (option A)) : option (list A) :=
  match l with
  | [] => Some []
  | Some a :: r => match all_some r with Some t => Some (a :: t) | None => None end
  | None :: _ => None
  end.

Fixpoint ety (ve : venv) (fe : fenv) (e : expr) {struct e} : option ty :=
  match e with
  | ENum _ => Some TNum
  | EStr _ => Some TStr
  | EInterp segs =>
      if forallb (fun g => match g with
                           | SegLit _ => true
                           | SegVar n _ => match lookup_ty n ve with Some _ => true | None => false end
                           end) segs
      then Some TStr else None
  | EBool _ => Some TBool
  | ENull => Some TNull
  | EVar n _ => lookup_ty n ve
  | EBin op a b =>
      match ety ve fe a, ety ve fe b with
      | Some ta, Some tb => binop_ty op ta tb
      | _, _ => None
      end
  | EUn u a => match ety ve fe a with Some t => unop_ty u t | None => None end
  | EArr es =>
      match all_some (map (ety ve fe) es) with Some _ => Some TArr | None => None end
  | EIdx a i =>
      match ety ve fe a, ety ve fe i with
      | Some ta, Some ti => if arr_like ta && num_like ti then Some TDyn else None
      | _, _ => None
      end
  | EMember _ _ => None
  | ECall (EVar f _) args _ =>
      match all_some (map (ety ve fe) args) with
      | None => None
      | Some ts =>
          match global_builtin f with
          | Some GShout => match ts with [_] => Some TNull | _ => None end
          | Some GTypeOf => match ts with [_] => Some TStr | _ => None end
          | Some GToString => match ts with [_] => Some TStr | _ => None end
          | Some GReadLine => match ts with [t] => if str_like t then Some TStr else None | _ => None end
          | Some GCommand => None
          | None =>
              match lookup_arity f fe with
              | Some (a, rv) =>
                  if Nat.eqb a (length ts) then Some (if rv then TDyn else TNull) else None
              | None => None
              end
          end
      end
  | ECall (EMember o f) args _ =>
      match ety ve fe o, all_some (map (ety ve fe) args) with
      | Some tr, Some ts => method_ty tr f ts
      | _, _ => None
      end
  | ECall _ _ _ => None
  end.

Definition cond_ok (ve : venv) (fe : fenv) (c : expr) : bool :=
  match ety ve fe c with Some t => bool_like t | None => false end.

Definition assignable (declared : ty) (t : ty) : bool :=
  ty_eqb declared t || ty_eqb declared TDyn || ty_eqb t TDyn.

Fixpoint distinct_names (l : list name) : bool :=
  match l with
  | [] => true
  | n :: r => negb (mem_name n r) && distinct_names r
  end.

(* does some `return e` occur in the body (nested function bodies excluded)?  A function
   without one produces no value: its result is null (FUNCTIONS.md, NULL.md) *)
Fixpoint returns_value (s : stmt) : bool :=
  let any := fix any (b : list stmt) : bool :=
               match b with [] => false | t :: r => returns_value t || any r end in
  match s with
  | SRet _ (Some _) => true
  | SIf _ _ t f => any t || match f with Some fb => any fb | None => false end
  | SLoop _ _ body => any body
  | SBlock _ body => any body
  | _ => false
  end.

(* the functions a block defines; None when a name is defined twice or is a built-in's name *)
Fixpoint block_fns (b : list stmt) (acc : list (name * (nat * bool))) : option (list (name * (nat * bool))) :=
  match b with
  | [] => Some acc
  | SFun _ n ps body _ _ _ :: r =>
      if is_builtin_name n then None
      else match assoc_fn n acc with
           | Some _ => None
           | None => block_fns r ((n, (length ps, existsb returns_value body)) :: acc)
           end
  | _ :: r => block_fns r acc
  end.

Record ctx := { in_fn : bool; in_loop : bool }.

(* statements thread the variable environment; a block is checked in a fresh scope *)
Fixpoint sty (c : ctx) (ve : venv) (fe : fenv) (s : stmt) {struct s} : option venv :=
  let block :=
    fix block (c : ctx) (ve : venv) (fe : fenv) (b : list stmt) {struct b} : bool :=
      (* ve/fe already have the block's own scope pushed *)
      match b with
      | [] => true
      | s :: r => match sty c ve fe s with Some ve' => block c ve' fe r | None => false end
      end in
  let enter (c : ctx) (scope : list (name * ty)) (ve : venv) (fe : fenv) (b : list stmt) : bool :=
    match block_fns b [] with
    | Some fs => block c ([] :: scope :: ve) (fs :: fe) b
    | None => false
    end in
  match s with
  | SMake _ n _ e =>
      if is_builtin_name n then None
      else match ety ve fe e with Some t => Some (declare n t ve) | None => None end
  | SSet _ n _ e =>
      match lookup_ty n ve, ety ve fe e with
      | Some tx, Some te => if assignable tx te then Some ve else None
      | _, _ => None
      end
  | SSetIdx _ target e =>
      match target with
      | EIdx _ _ =>
          match flatten_target target [], ety ve fe target, ety ve fe e with
          | Some _, Some _, Some _ => Some ve
          | _, _, _ => None
          end
      | _ => None
      end
  | SIf _ cnd t f =>
      if cond_ok ve fe cnd && enter c [] ve fe t &&
         match f with Some fb => enter c [] ve fe fb | None => true end
      then Some ve else None
  | SLoop _ cnd body =>
      if cond_ok ve fe cnd && enter {| in_fn := in_fn c; in_loop := true |} [] ve fe body
      then Some ve else None
  | SBlock _ body => if enter c [] ve fe body then Some ve else None
  | SFun _ n ps body _ _ _ =>
      if distinct_names ps && forallb (fun p => negb (is_builtin_name p)) ps &&
         enter {| in_fn := true; in_loop := false |} (map (fun p => (p, TDyn)) ps) ve fe body
      then Some ve else None
  | SRet _ None => if in_fn c then Some ve else None
  | SRet _ (Some e) =>
      if in_fn c then match ety ve fe e with Some _ => Some ve | None => None end else None
  | SBreak _ | SNext _ => if in_loop c then Some ve else None
  | SExpr _ e => match ety ve fe e with Some _ => Some ve | None => None end
  end.

Definition simply_typed (prog : list stmt) : bool :=
  match sty {| in_fn := false; in_loop := false |} [] [] (SBlock None prog) with
  | Some _ => true
  | None => false
  end.
