(* Spec — the reference ("documented") semantics of NaijaScript programs, over NAMES only.

   It never looks at the ids the checker attached to the AST (local ids, callee ids,
   statement ids, local ranges): variables are found through *static links*, i.e. lexically:
   every executed block and every call creates a frame; a frame remembers the chain of
   frames that lexically enclose it; a function closure remembers the frame of the block
   instance that defined it and the names declared in that block textually before the
   definition.  A variable reference denotes the nearest enclosing declaration in the
   program text (re-declaring a name in the same block rebinds the same variable); a
   function name denotes the innermost enclosing block that defines it, anywhere in that
   block (hoisting).  Arrays are immutable values, there is no pruning, no reclamation.

   Operators, built-ins, Display and the float operations are shared with Lang.v (the docs
   give one table per type; both sides use the same table), so the comparison between
   `run_spec` and `run_impl` is about evaluation order, scoping, control flow, calls and
   mutation — the things the implementation does differently from this definition.

   Where the documentation is silent: a variable that is lexically visible but whose `make`
   has not executed yet in the relevant frame (a hoisted function called before a captured
   declaration) is `Stuck`; it is reported separately and never compared as equal to
   anything.  Definitions only. *)
From Coq Require Import ZArith List Bool SpecFloat.
Require Import NS.theories.F64 NS.theories.StrLib NS.theories.Lang.
Require NS.theories.NumParse NS.theories.CaseMap.
Import ListNotations.
Open Scope Z_scope.

(* a lexical chain entry: frame id and, for the defining frame of a closure, the names of
   that frame the closure may see (None = everything declared so far) *)
Definition chain := list (nat * option (list name)).

Record closure := { c_name : name; c_params : list name; c_body : list stmt;
                    c_frame : nat; c_vis : list name }.

Record frame := { fr_slots : list (name * value);      (* declaration order *)
                  fr_fns : list closure;               (* functions of this block, hoisted *)
                  fr_parent : chain }.

Definition heap := list frame.

Inductive sres (A : Type) :=
| SOk (a : A) | SErr (e : rterr) | SStuck | SFuel | SUnsupp.
Arguments SOk {A} a. Arguments SErr {A} e. Arguments SStuck {A}.
Arguments SFuel {A}. Arguments SUnsupp {A}.

Definition SM (A : Type) : Type := (list value * sres A)%type.
Definition sbind {A B} (m : SM A) (f : A -> SM B) : SM B :=
  match m with
  | (o1, SOk a) => let '(o2, r) := f a in (o1 ++ o2, r)
  | (o1, SErr e) => (o1, SErr e)
  | (o1, SStuck) => (o1, SStuck)
  | (o1, SFuel) => (o1, SFuel)
  | (o1, SUnsupp) => (o1, SUnsupp)
  end.
Definition sret {A} (a : A) : SM A := ([], SOk a).
Definition serr {A} (e : rterr) : SM A := ([], SErr e).
Definition sstuck {A} : SM A := ([], SStuck).
Definition of_res {A} (r : res A) : SM A :=
  match r with
  | Ok a => sret a | Err e => serr e | Panic _ => sstuck | Fuel => ([], SFuel) | Unsupp => ([], SUnsupp)
  end.
Notation "'sdo' x <- r ; k" := (sbind r (fun x => k)) (at level 200, x pattern, r at level 100, k at level 200).

(* ---------- frames ---------- *)
Fixpoint set_nth_frame (h : heap) (i : nat) (f : frame) : heap :=
  match h, i with
  | _ :: r, O => f :: r
  | x :: r, S k => x :: set_nth_frame r k f
  | [], _ => []
  end.

Fixpoint slot_lookup (n : name) (sl : list (name * value)) : option value :=
  match sl with
  | [] => None
  | (m, v) :: r => if bytes_eqb m n then Some v else slot_lookup n r
  end.

Fixpoint slot_set (n : name) (v : value) (sl : list (name * value)) : option (list (name * value)) :=
  match sl with
  | [] => None
  | (m, w) :: r =>
      if bytes_eqb m n then Some ((m, v) :: r)
      else match slot_set n v r with Some r' => Some ((m, w) :: r') | None => None end
  end.

(* where does `n` live, looking outwards along the lexical chain?
   Some (Some fid) : declared and initialised in frame fid
   Some None       : lexically bound in a frame whose declaration has not executed yet
   None            : not bound at all *)
Fixpoint resolve_var (h : heap) (n : name) (c : chain) : option (option nat) :=
  match c with
  | [] => None
  | (fid, vis) :: r =>
      match nth_error h fid with
      | None => None
      | Some f =>
          match vis with
          | None =>
              match slot_lookup n (fr_slots f) with
              | Some _ => Some (Some fid)
              | None => resolve_var h n r
              end
          | Some names =>
              if mem_name n names then
                match slot_lookup n (fr_slots f) with
                | Some _ => Some (Some fid)
                | None => Some None
                end
              else resolve_var h n r
          end
      end
  end.

Definition read_var (h : heap) (n : name) (c : chain) : SM value :=
  match resolve_var h n c with
  | Some (Some fid) =>
      match nth_error h fid with
      | Some f => match slot_lookup n (fr_slots f) with Some v => sret v | None => sstuck end
      | None => sstuck
      end
  | _ => sstuck
  end.

Definition write_var (h : heap) (n : name) (c : chain) (v : value) : SM heap :=
  match resolve_var h n c with
  | Some (Some fid) =>
      match nth_error h fid with
      | Some f =>
          match slot_set n v (fr_slots f) with
          | Some sl => sret (set_nth_frame h fid {| fr_slots := sl; fr_fns := fr_fns f; fr_parent := fr_parent f |})
          | None => sstuck
          end
      | None => sstuck
      end
  | _ => sstuck
  end.

(* `make`: (re)declare in the current frame *)
Definition declare_var (h : heap) (cur : nat) (n : name) (v : value) : SM heap :=
  match nth_error h cur with
  | Some f =>
      let sl := match slot_set n v (fr_slots f) with
                | Some sl => sl
                | None => fr_slots f ++ [(n, v)]
                end in
      sret (set_nth_frame h cur {| fr_slots := sl; fr_fns := fr_fns f; fr_parent := fr_parent f |})
  | None => sstuck
  end.

Fixpoint find_closure (n : name) (cs : list closure) : option closure :=
  match cs with
  | [] => None
  | c :: r => if bytes_eqb (c_name c) n then Some c else find_closure n r
  end.

Fixpoint resolve_fn (h : heap) (n : name) (c : chain) : option closure :=
  match c with
  | [] => None
  | (fid, _) :: r =>
      match nth_error h fid with
      | None => None
      | Some f => match find_closure n (fr_fns f) with Some cl => Some cl | None => resolve_fn h n r end
      end
  end.

(* names declared by the top-level `make`s of a block before position k (distinct) *)
Definition add_name (n : name) (l : list name) : list name :=
  if mem_name n l then l else l ++ [n].

(* the functions of a block: later definitions of the same name win (found first) *)
Fixpoint block_closures (b : list stmt) (fid : nat) (seen : list name) (acc : list closure) : list closure :=
  match b with
  | [] => acc
  | SFun _ n ps body _ _ _ :: r =>
      block_closures r fid seen
        ({| c_name := n; c_params := ps; c_body := body; c_frame := fid; c_vis := seen |} :: acc)
  | SMake _ n _ _ :: r => block_closures r fid (add_name n seen) acc
  | _ :: r => block_closures r fid seen acc
  end.

Definition new_frame (h : heap) (slots : list (name * value)) (parent : chain) : heap * nat :=
  (h ++ [{| fr_slots := slots; fr_fns := []; fr_parent := parent |}], length h).

Definition with_fns (h : heap) (fid : nat) (cs : list closure) : heap :=
  match nth_error h fid with
  | Some f => set_nth_frame h fid {| fr_slots := fr_slots f; fr_fns := cs; fr_parent := fr_parent f |}
  | None => h
  end.

Fixpoint flatten_named (t : expr) (acc : list expr) : option (name * list expr) :=
  match t with
  | EIdx a i => flatten_named a (i :: acc)
  | EVar n _ => Some (n, acc)
  | _ => None
  end.

Section RunSpec.
Variable eps : f64.

(* `c` is the lexical chain of the code being executed; its head is the current frame *)
Fixpoint seval (n : nat) (e : expr) (c : chain) (h : heap) {struct n} : SM (value * heap) :=
  match n with
  | O => ([], SFuel)
  | S n' =>
    let sevals :=
      fix sevals (es : list expr) (h : heap) : SM (list value * heap) :=
        match es with
        | [] => sret ([], h)
        | e :: r => sdo (v, h1) <- seval n' e c h; sdo (vs, h2) <- sevals r h1; sret (v :: vs, h2)
        end in
    let sindices :=
      fix sindices (es : list expr) (h : heap) : SM (list Z * heap) :=
        match es with
        | [] => sret ([], h)
        | e :: r => sdo (v, h1) <- seval n' e c h; sdo i <- of_res (index_value v);
                    sdo (is, h2) <- sindices r h1; sret (i :: is, h2)
        end in
    let smutate (o : expr) (op : mutop) (h : heap) : SM (value * heap) :=
      match o with
      | EVar vn _ =>
          sdo root <- read_var h vn c;
          sdo (root', r) <- of_res (mutate_path root [] op);
          sdo h' <- write_var h vn c root'; sret (r, h')
      | EIdx _ _ =>
          match flatten_named o [] with
          | None => serr TypeMis
          | Some (vn, idx_exprs) =>
              sdo (path, h1) <- sindices idx_exprs h;
              sdo root <- read_var h1 vn c;
              sdo (root', r) <- of_res (mutate_path root path op);
              sdo h' <- write_var h1 vn c root'; sret (r, h')
          end
      | _ => serr TypeMis
      end in
    match e with
    | ENum x => sret (VNum x, h)
    | EStr b => sret (VStr b, h)
    | EInterp segs =>
        let fix go (segs : list seg) : SM (list Z) :=
          match segs with
          | [] => sret []
          | SegLit b :: r => sdo rest <- go r; sret (b ++ rest)
          | SegVar vn _ :: r => sdo v <- read_var h vn c; sdo rest <- go r; sret (display v ++ rest)
          end in
        sdo b <- go segs; sret (VStr b, h)
    | EBool b => sret (VBool b, h)
    | ENull => sret (VNull, h)
    | EVar vn _ => sdo v <- read_var h vn c; sret (v, h)
    | EBin And a b =>
        sdo (l, h1) <- seval n' a c h;
        match l with
        | VBool false | VNull => sret (VBool false, h1)
        | _ => sdo (r, h2) <- seval n' b c h1;
               match r with
               | VBool x => sret (VBool x, h2)
               | VNull => sret (VBool false, h2)
               | _ => serr TypeMis
               end
        end
    | EBin Or a b =>
        sdo (l, h1) <- seval n' a c h;
        match l with
        | VBool true => sret (VBool true, h1)
        | _ => sdo (r, h2) <- seval n' b c h1;
               match r with
               | VBool x => sret (VBool x, h2)
               | VNull => sret (VBool false, h2)
               | _ => serr TypeMis
               end
        end
    | EBin op a b =>
        sdo (l, h1) <- seval n' a c h;
        sdo (r, h2) <- seval n' b c h1;
        sdo v <- of_res (binop_values eps op l r); sret (v, h2)
    | EUn op a =>
        sdo (v, h1) <- seval n' a c h;
        match op, v with
        | Not, VBool b => sret (VBool (negb b), h1)
        | Not, VNull => sret (VBool true, h1)
        | Neg, VNum x => sret (VNum (fneg x), h1)
        | _, _ => serr TypeMis
        end
    | EArr es => sdo (vs, h1) <- sevals es h; sret (VArr vs, h1)
    | EIdx a i =>
        sdo (av, h1) <- seval n' a c h;
        sdo (iv, h2) <- seval n' i c h1;
        match av with
        | VArr items =>
            match iv with
            | VNum x =>
                if negb (is_finite x) || negb (is_int x) then serr InvIdx
                else
                  let idx := to_isize x in
                  if (idx <? 0) || (len_z items <=? idx) then serr IdxOob
                  else match nth_value items (Z.to_nat idx) with
                       | Some v => sret (v, h2)
                       | None => serr IdxOob
                       end
            | _ => serr InvIdx
            end
        | _ => serr TypeMis
        end
    | EMember _ _ => serr TypeMis
    | ECall (EMember o f) args _ =>
        if mem_name f array_mut_methods then
          if bytes_eqb f n_push then
            match args with
            | [] => sstuck
            | a0 :: _ => sdo (v, h1) <- seval n' a0 c h; smutate o (MPush v) h1
            end
          else if bytes_eqb f n_pop then smutate o MPop h
          else smutate o MReverse h
        else if mem_name f proc_mut_names then ([], SUnsupp)
        else
          sdo (recv, h1) <- seval n' o c h;
          match recv with
          | VStr str =>
              if negb (mem_name f string_methods) then serr TypeMis
              else if bytes_eqb f n_len then sret (VNum (of_Z (Z.of_nat (str_len str))), h1)
              else if bytes_eqb f n_slice then
                match args with
                | a0 :: a1 :: _ =>
                    sdo (v0, h2) <- seval n' a0 c h1;
                    sdo (v1, h3) <- seval n' a1 c h2;
                    match v0, v1 with
                    | VNum x0, VNum x1 =>
                        sret (VStr (slice str (to_isize (ffloor x0)) (to_isize (ffloor x1))), h3)
                    | _, _ => serr TypeMis
                    end
                | _ => sstuck
                end
              else if bytes_eqb f n_to_uppercase then
                sret (VStr (CaseMap.to_upper str), h1)
              else if bytes_eqb f n_to_lowercase then
                sret (VStr (CaseMap.to_lower str), h1)
              else if bytes_eqb f n_trim then sret (VStr (trim str), h1)
              else if bytes_eqb f n_to_number then sret (VNum (NumParse.to_number str), h1)
              else if bytes_eqb f n_find then
                match args with
                | a0 :: _ =>
                    sdo (v0, h2) <- seval n' a0 c h1;
                    match v0 with
                    | VStr needle =>
                        match first_occ str needle with
                        | Some i => sret (VNum (of_Z (Z.of_nat i)), h2)
                        | None => sret (VNum (of_Z (-1)), h2)
                        end
                    | _ => serr TypeMis
                    end
                | _ => sstuck
                end
              else if bytes_eqb f n_replace then
                match args with
                | a0 :: a1 :: _ =>
                    sdo (v0, h2) <- seval n' a0 c h1;
                    sdo (v1, h3) <- seval n' a1 c h2;
                    match v0, v1 with
                    | VStr old, VStr new => sret (VStr (replace_spec str old new), h3)
                    | _, _ => serr TypeMis
                    end
                | _ => sstuck
                end
              else
                match args with
                | a0 :: _ =>
                    sdo (v0, h2) <- seval n' a0 c h1;
                    match v0 with
                    | VStr pat => sret (VArr (map VStr (split str pat)), h2)
                    | _ => serr TypeMis
                    end
                | _ => sstuck
                end
          | VNum x =>
              if mem_name f number_methods then sret (number_method f x, h1) else serr TypeMis
          | VArr items =>
              if negb (mem_name f array_methods) then serr TypeMis
              else if bytes_eqb f n_len then sret (VNum (of_Z (len_z items)), h1)
              else
                match args with
                | a0 :: _ =>
                    sdo (v0, h2) <- seval n' a0 c h1;
                    match v0 with
                    | VStr sep => sret (VStr (join_values items sep), h2)
                    | _ => serr TypeMis
                    end
                | _ => sstuck
                end
          | VBool _ | VNull => serr TypeMis
          end
    | ECall (EVar fname _) args _ =>
        match global_builtin fname with
        | Some g =>
            sdo (vs, h1) <- sevals args h;
            match vs with
            | [v] =>
                match g with
                | GShout => ([v], SOk (VNull, h1))
                | GTypeOf => sret (VStr (type_name v), h1)
                | GToString => sret (VStr (display v), h1)
                | GReadLine | GCommand => ([], SUnsupp)
                end
            | _ => sstuck
            end
        | None =>
            match resolve_fn h fname c with
            | None => sstuck
            | Some cl =>
                sdo (vs, h1) <- sevals args h;
                if negb (Nat.eqb (length vs) (length (c_params cl))) then sstuck
                else
                  (* parameters: later duplicates shadow earlier ones *)
                  let fix bindp (ps : list name) (vs : list value) (acc : list (name * value)) :=
                    match ps, vs with
                    | p :: ps', v :: vs' =>
                        bindp ps' vs' (match slot_set p v acc with Some a => a | None => acc ++ [(p, v)] end)
                    | _, _ => acc
                    end in
                  let defchain : chain :=
                    match nth_error h1 (c_frame cl) with
                    | Some df => (c_frame cl, Some (c_vis cl)) :: fr_parent df
                    | None => []
                    end in
                  let '(h2, pf) := new_frame h1 (bindp (c_params cl) vs []) defchain in
                  sdo (fl, h3) <- sblock n' (c_body cl) ((pf, None) :: defchain) h2;
                  match fl with
                  | FNormal => sret (VNull, h3)
                  | FReturn v => sret (v, h3)
                  | FBreak | FNext => sstuck
                  end
            end
        end
    | ECall _ _ _ => serr TypeMis
    end
  end

with sexec (n : nat) (t : stmt) (c : chain) (h : heap) {struct n} : SM (flow * heap) :=
  match n with
  | O => ([], SFuel)
  | S n' =>
    let cur := match c with (fid, _) :: _ => fid | [] => O end in
    match t with
    | SMake _ vn _ e =>
        sdo (v, h1) <- seval n' e c h;
        sdo h2 <- declare_var h1 cur vn v; sret (FNormal, h2)
    | SSet _ vn _ e =>
        sdo (v, h1) <- seval n' e c h;
        sdo h2 <- write_var h1 vn c v; sret (FNormal, h2)
    | SSetIdx _ target e =>
        sdo (v, h1) <- seval n' e c h;
        match flatten_named target [] with
        | None => serr TypeMis
        | Some (vn, idx_exprs) =>
            let fix sindices (es : list expr) (h : heap) : SM (list Z * heap) :=
              match es with
              | [] => sret ([], h)
              | e :: r => sdo (iv, h1) <- seval n' e c h; sdo i <- of_res (index_value iv);
                          sdo (is, h2) <- sindices r h1; sret (i :: is, h2)
              end in
            sdo (path, h2) <- sindices idx_exprs h1;
            sdo root <- read_var h2 vn c;
            sdo root' <- of_res (assign_path root path v);
            sdo h3 <- write_var h2 vn c root'; sret (FNormal, h3)
        end
    | SIf _ cnd t f =>
        sdo (cv, h1) <- seval n' cnd c h;
        sdo b <- of_res (truthy_cond cv);
        if b then sblock n' t c h1
        else match f with Some fb => sblock n' fb c h1 | None => sret (FNormal, h1) end
    | SLoop _ cnd body => sloop n' cnd body c h
    | SBlock _ body => sblock n' body c h
    | SFun _ _ _ _ _ _ _ => sret (FNormal, h)
    | SRet _ None => sret (FReturn VNull, h)
    | SRet _ (Some e) => sdo (v, h1) <- seval n' e c h; sret (FReturn v, h1)
    | SBreak _ => sret (FBreak, h)
    | SNext _ => sret (FNext, h)
    | SExpr _ e => sdo (_, h1) <- seval n' e c h; sret (FNormal, h1)
    end
  end

with sloop (n : nat) (cnd : expr) (body : list stmt) (c : chain) (h : heap) {struct n} : SM (flow * heap) :=
  match n with
  | O => ([], SFuel)
  | S n' =>
      sdo (cv, h1) <- seval n' cnd c h;
      sdo b <- of_res (truthy_cond cv);
      if negb b then sret (FNormal, h1)
      else
        sdo (fl, h2) <- sblock n' body c h1;
        match fl with
        | FBreak => sret (FNormal, h2)
        | FNormal | FNext => sloop n' cnd body c h2
        | FReturn v => sret (FReturn v, h2)
        end
  end

(* a block instance: new frame whose lexical parent is the chain of the enclosing code *)
with sblock (n : nat) (b : list stmt) (c : chain) (h : heap) {struct n} : SM (flow * heap) :=
  match n with
  | O => ([], SFuel)
  | S n' =>
      let '(h1, fid) := new_frame h [] c in
      let h2 := with_fns h1 fid (block_closures b fid [] []) in
      let c' := (fid, None) :: c in
      let fix go (ts : list stmt) (h : heap) : SM (flow * heap) :=
        match ts with
        | [] => sret (FNormal, h)
        | t :: r =>
            sdo (fl, h') <- sexec n' t c' h;
            match fl with
            | FNormal => go r h'
            | _ => sret (fl, h')
            end
        end in
      go b h2
  end.

End RunSpec.

Inductive sending := SDone | SRtErr (e : rterr) | SIsStuck | SOutOfFuel | SUnsupported.

Definition run_spec (eps : f64) (fuel : nat) (prog : list stmt) : list value * sending :=
  let '(o, r) := sblock eps fuel prog [] [] in
  (o, match r with
      | SOk _ => SDone
      | SErr e => SRtErr e
      | SStuck => SIsStuck
      | SFuel => SOutOfFuel
      | SUnsupp => SUnsupported
      end).
