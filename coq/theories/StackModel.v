(* C08 — native-stack model: call graphs with guard points and frame costs.

   A graph is an association list  caller -> callees  over function ids (GenStack.v is
   regenerated from the Rust source on every check).  A *call path* is the list of the
   functions whose frames are on the native stack, outermost first; consecutive entries
   follow call edges.  [used fs p] is the stack the path occupies when [fs f] is the frame
   cost of f.  A *guard* (src/runtime.rs: `self.check_stack(..)?` as first statement) compares
   the stack used by the frames outside its own with the budget and refuses to go on when it
   is exceeded; [checked] is that condition along a whole path.

   Definitions only; proofs are in proofs/StackProofs.v. *)
From Coq Require Import List ZArith Bool Arith.
Import ListNotations.
Require Import NS.theories.GenStack.
Open Scope Z_scope.

Definition node := nat.
Definition graph := list (node * list node).

Definition mem (n : node) (l : list node) : bool := existsb (Nat.eqb n) l.
Definition mem_edge (e : node * node) (es : list (node * node)) : bool :=
  existsb (fun x => Nat.eqb (fst x) (fst e) && Nat.eqb (snd x) (snd e)) es.

Fixpoint succs (g : graph) (n : node) : list node :=
  match g with
  | [] => []
  | (k, l) :: r => if Nat.eqb k n then l else succs r n
  end.
Definition edge (g : graph) (a b : node) : bool := mem b (succs g a).
Definition keys (g : graph) : list node := map fst g.

(* every callee is itself listed as a caller (possibly with no callees) *)
Definition closed (g : graph) : bool :=
  forallb (fun kl => forallb (fun m => mem m (keys g)) (snd kl)) g.

(* ---- graph surgery ---- *)
Definition restrict (g : graph) (keep : list node) : graph :=
  map (fun kl => (fst kl, filter (fun m => mem m keep) (snd kl)))
      (filter (fun kl => mem (fst kl) keep) g).
Definition remove_nodes (g : graph) (rm : list node) : graph :=
  map (fun kl => (fst kl, filter (fun m => negb (mem m rm)) (snd kl)))
      (filter (fun kl => negb (mem (fst kl) rm)) g).
Definition remove_edges (g : graph) (es : list (node * node)) : graph :=
  map (fun kl => (fst kl, filter (fun m => negb (mem_edge (fst kl, m) es)) (snd kl))) g.

(* ---- paths ---- *)
Fixpoint walk (g : graph) (p : list node) : bool :=
  match p with
  | a :: ((b :: _) as t) => edge g a b && walk g t
  | _ => true
  end.
Definition allkeys (g : graph) (p : list node) : bool := forallb (fun n => mem n (keys g)) p.
Definition noguard (guards p : list node) : bool := forallb (fun n => negb (mem n guards)) p.
Definition used (fs : node -> Z) (p : list node) : Z := fold_right (fun n acc => fs n + acc) 0 p.

(* number of steps of p that go along one of the listed edges *)
Fixpoint scount (es : list (node * node)) (p : list node) : nat :=
  match p with
  | a :: ((b :: _) as t) => (if mem_edge (a, b) es then 1 else 0) + scount es t
  | _ => 0%nat
  end.

(* [off] = stack already used when the first function of p is entered.  At a guard the frames
   outside the guard's own frame must be within the budget (the probe of check_stack lies
   inside the guard's frame, so what it measures is at least that much). *)
Fixpoint checked (B : Z) (fs : node -> Z) (guards : list node) (off : Z) (p : list node) : bool :=
  match p with
  | [] => true
  | n :: t => (if mem n guards then off <=? B else true) && checked B fs guards (off + fs n) t
  end.

(* every guard-free stretch of p takes at most d steps along the listed (descent) edges *)
Definition nest_bounded (es : list (node * node)) (guards : list node) (d : nat) (p : list node) : Prop :=
  forall pre q post, p = pre ++ q ++ post -> noguard guards q = true -> (scount es q <= d)%nat.

(* ---- longest path by cost, with fuel; None = fuel exhausted (a cycle, or fuel too small) ---- *)
Fixpoint wheight (g : graph) (fs : node -> Z) (fuel : nat) (n : node) : option Z :=
  match fuel with
  | O => None
  | S f =>
      match fold_right (fun m acc => match wheight g fs f m, acc with
                                     | Some c, Some a => Some (Z.max c a)
                                     | _, _ => None
                                     end) (Some 0) (succs g n) with
      | Some t => Some (fs n + t)
      | None => None
      end
  end.

Definition unit_cost : node -> Z := fun _ => 1.
Definition fuel_of (g : graph) : nat := S (length g).

(* fast pre-filter (no theorem depends on it): repeatedly drop the functions none of whose
   callees is still alive; something survives |g| rounds iff there is a cycle.  It only keeps
   the exponential search below from being run on a cyclic graph. *)
Definition live_succ (g : graph) (alive : list node) (n : node) : bool :=
  existsb (fun m => mem m alive) (succs g n).
Fixpoint peel (fuel : nat) (g : graph) (alive : list node) : list node :=
  match fuel with O => alive | S f => peel f g (filter (live_succ g alive) alive) end.
Definition peel_ok (g : graph) : bool :=
  match peel (length g) g (keys g) with [] => true | _ => false end.

(* decision procedure: from every listed function the longest path is finite *)
Definition acyclic (g : graph) : bool :=
  if peel_ok g
  then forallb (fun n => match wheight g unit_cost (fuel_of g) n with Some _ => true | None => false end) (keys g)
  else false.

Definition wh (g : graph) (fs : node -> Z) (n : node) : Z :=
  match wheight g fs (fuel_of g) n with Some c => c | None => 0 end.

(* cost of the most expensive path of g (0 for the empty graph) *)
Definition max_wheight (g : graph) (fs : node -> Z) : Z :=
  fold_right Z.max 0 (map (wh g fs) (keys g)).

(* the graph in which every remaining cycle would be an unguarded one that is not a descent *)
Definition core (g : graph) (guards : list node) (descent : list (node * node)) : graph :=
  remove_edges (remove_nodes g guards) descent.
Definition acyclic_without_guards (g : graph) (guards : list node) : bool := acyclic (core g guards []).
Definition longest_guard_free_path_cost (g : graph) (guards : list node) (fs : node -> Z) : Z :=
  max_wheight (core g guards []) fs.

(* ---- reachability (for "this function is on no guard-free cycle") ---- *)
Definition add_new (l acc : list node) : list node :=
  fold_right (fun m a => if mem m a then a else m :: a) acc l.
Fixpoint reach_iter (fuel : nat) (g : graph) (S : list node) : list node :=
  match fuel with
  | O => S
  | S f => let S' := add_new (flat_map (succs g) S) S in
           if Nat.eqb (length S') (length S) then S else reach_iter f g S'
  end.
Definition succ_closed (g : graph) (S : list node) : bool :=
  forallb (fun n => forallb (fun m => mem m S) (succs g n)) S.
(* everything reachable in at least one step from a (when the fuel suffices, which
   [succ_closed] then confirms) *)
Definition reach_from (g : graph) (a : node) : list node := reach_iter (length g) g (succs g a).
(* a is on no cycle of g: decided by computing the set reachable from its callees *)
Definition off_cycle (g : graph) (a : node) : bool :=
  let R := reach_from g a in
  succ_closed g R && forallb (fun m => mem m R) (succs g a) && negb (mem a R).

(* ---- cycles ---- *)
Definition cycle_b (g : graph) (c : list node) : bool :=
  match c with [] => false | a :: _ => walk g (c ++ [a]) end.
(* a cycle none of whose functions is a guard *)
Definition gf_cycle (g : graph) (guards c : list node) : bool := cycle_b g c && noguard guards c.

Fixpoint rep (k : nat) (c : list node) : list node :=
  match k with O => [] | S k' => c ++ rep k' c end.

Inductive verdict := NotACycle | Guarded | DescentOnly | Unguarded.
Definition closing (c : list node) : list node := match c with [] => [] | a :: _ => c ++ [a] end.
Definition classify_cycle (g : graph) (guards : list node) (descent : list (node * node)) (c : list node) : verdict :=
  if negb (cycle_b g c) then NotACycle
  else if negb (noguard guards c) then Guarded
  else if Nat.ltb 0 (scount descent (closing c)) then DescentOnly
  else Unguarded.

(* ---- the instance generated from the current source ---- *)
Definition main_stack : Z := 8 * 1024 * 1024.       (* default main-thread stack (property text) *)

Definition runtime_nodes : list node := grp_eval ++ grp_value.
Definition runtime_graph : graph := restrict call_graph runtime_nodes.
Definition descent_edges : list (node * node) := structural_edges ++ data_edges.
Definition runtime_core : graph := core runtime_graph guard_fns descent_edges.
Definition runtime_L : Z := max_wheight runtime_core unit_cost.

Definition runtime_noguard : graph := remove_nodes runtime_graph guard_fns.
Definition parser_graph : graph := restrict call_graph grp_parser.
Definition resolver_graph : graph := restrict call_graph grp_resolver.
Definition cfg_graph : graph := restrict call_graph grp_cfg.
Definition value_graph : graph := restrict call_graph grp_value.

(* what the model executable answers for one function (observation tie only; no theorem uses
   the positive answers): is it a guard, does it lie on a cycle that avoids the guards (and the
   descent edges), or is it provably on no guard-free cycle *)
Definition on_cycle (g : graph) (a : node) : bool := mem a (reach_from g a).
Definition group_graph (a : node) : graph :=
  if mem a grp_parser then parser_graph
  else if mem a grp_resolver then resolver_graph
  else if mem a grp_cfg then cfg_graph
  else runtime_graph.
Inductive fstatus := FGuard | FUnguardedCycle | FDescentCycle | FOffCycle | FUnknown.
Definition fn_status (a : node) : fstatus :=
  let g := group_graph a in
  if mem a guard_fns then FGuard
  else if on_cycle (core g guard_fns descent_edges) a then FUnguardedCycle
  else if on_cycle (remove_nodes g guard_fns) a then FDescentCycle
  else if off_cycle (remove_nodes g guard_fns) a then FOffCycle
  else FUnknown.

(* what the model executable answers for a shape: is the list a cycle of the generated graph,
   and of which kind *)
Definition classify_shape (c : list node) : verdict := classify_cycle call_graph guard_fns descent_edges c.
Definition model_meta : Z * Z * bool * list node :=
  (stack_budget, runtime_L, acyclic runtime_core, guard_fns).
