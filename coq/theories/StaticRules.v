(* StaticRules — the static rules of NaijaScript (C09) as an executable checker over the
   named AST of Lang.v (the resolver-provided ids `l`, `target`, `sid`, `fid` are ignored),
   plus the declarative vocabulary (one-hole contexts, "declared textually before",
   "function visible", "inside a loop / a function") the theorems of Properties/C09.v use.
   Definitions only; proofs are in proofs/StaticRulesProofs.v.

   `check : list stmt -> list violation`, violation = (rule, path).  A path addresses a
   statement: statement index in its block, then (for a compound statement) 0 = then-branch /
   loop body / block / function body, 1 = else-branch, then the index in that block, ...

   Scoping as documented (docs/VARIABLES.md, FUNCTIONS.md, LOOPS.md):
   - a `make` is visible from the statement after it to the end of its block, including
     nested blocks and function bodies that come later (its own initialiser is outside);
   - the functions of a block are visible in the whole block (before their definition too)
     and in every nested block / function body; inner definitions shadow outer ones;
   - parameters are local names of the function body;
   - a function body resets the loop context and sets the function context;
   - `comot`/`next` only inside a loop of the same function body, `return` only in a function.
   The operand typing table and the inference of declared types (infer, check_expr,
   ret_type_of) are a transcription of src/resolver.rs infer_expr_type / check_expr /
   infer_function_return_type after the repairs c4b68ec, 72713e1, fa29849 — the docs are
   silent there (see the list of choices in the report / evidence). *)
From Coq Require Import ZArith List Bool Arith.
Require Import NS.theories.Lang NS.theories.GenRules.
Import ListNotations.
Open Scope Z_scope.

Inductive rule :=
| UndeclaredVar | AssignUndeclared | UndeclaredFunction | ArityMismatch
| UnknownMethod | MethodArity
| BreakOutsideLoop | NextOutsideLoop | ReturnOutsideFunction
| DuplicateFunction | DuplicateParameter | ReservedName | TypeMismatch.

Definition path := list nat.
Definition violation := (rule * path)%type.

(* The diagnostic message (SemanticError::as_str) under which the resolver reports a rule. *)
Definition category (r : rule) : list Z :=
  match r with
  | UndeclaredVar | UndeclaredFunction | UnknownMethod => msg_UndeclaredIdentifier
  | AssignUndeclared => msg_AssignmentToUndeclared
  | ArityMismatch | MethodArity => msg_FunctionCallArity
  | BreakOutsideLoop | NextOutsideLoop | ReturnOutsideFunction => msg_UnreachableCode
  | DuplicateFunction | DuplicateParameter => msg_DuplicateIdentifier
  | ReservedName => msg_ReservedKeyword
  | TypeMismatch => msg_TypeMismatch
  end.

Definition rule_eqb (a b : rule) : bool :=
  match a, b with
  | UndeclaredVar, UndeclaredVar | AssignUndeclared, AssignUndeclared
  | UndeclaredFunction, UndeclaredFunction | UnknownMethod, UnknownMethod
  | ArityMismatch, ArityMismatch | MethodArity, MethodArity | BreakOutsideLoop, BreakOutsideLoop
  | NextOutsideLoop, NextOutsideLoop | ReturnOutsideFunction, ReturnOutsideFunction
  | DuplicateFunction, DuplicateFunction | DuplicateParameter, DuplicateParameter
  | ReservedName, ReservedName | TypeMismatch, TypeMismatch => true
  | _, _ => false
  end.

(* the typing-table rules (operand / condition / index / method typing); everything else is a
   rule about names and control flow *)
Definition table_rule (r : rule) : bool :=
  match r with TypeMismatch | UnknownMethod | MethodArity => true | _ => false end.

(* ---------- tables ---------- *)
Definition mem_name (n : name) (l : list name) : bool := existsb (bytes_eqb n) l.

Fixpoint global_lookup_in (l : list (list Z * nat * ty)) (f : name) : option (nat * ty) :=
  match l with
  | [] => None
  | (n, a, t) :: r => if bytes_eqb n f then Some (a, t) else global_lookup_in r f
  end.
Definition global_lookup := global_lookup_in global_builtins.
Definition is_builtin (f : name) : bool :=
  match global_lookup f with Some _ => true | None => false end.

(* names that may not be declared: the built-in functions (checker) and the keywords (the
   parser never lets a keyword through as a name; listed for completeness) *)
Definition reserved (n : name) : bool := is_builtin n || mem_name n reserved_words.

Fixpoint method_lookup (l : list (list Z * nat * ty * bool)) (f : name) : option (nat * ty * bool) :=
  match l with
  | [] => None
  | (n, a, t, m) :: r => if bytes_eqb n f then Some (a, t, m) else method_lookup r f
  end.

Inductive kind := KString | KArray | KNumber | KCommand | KResult.
Definition kind_of_ty (t : ty) : option kind :=
  match t with
  | TString => Some KString | TArray => Some KArray | TNumber => Some KNumber
  | TProcessCommand => Some KCommand | TProcessResult => Some KResult
  | TBool | TNull | TDynamic => None
  end.
Definition kind_table (k : kind) :=
  match k with
  | KString => string_methods | KArray => array_methods | KNumber => number_methods
  | KCommand => command_methods | KResult => result_methods
  end.
Definition all_kinds := [KString; KArray; KNumber; KCommand; KResult].

(* arities of the member built-ins called `f`, over the five receiver kinds *)
Definition member_arities (f : name) : list nat :=
  flat_map (fun k => match method_lookup (kind_table k) f with Some (a, _, _) => [a] | None => [] end) all_kinds.

Definition n_cwd := [99;119;100].
Definition n_env := [101;110;118].
Definition n_timeout_ms := [116;105;109;101;111;117;116;95;109;115].

(* ---------- checker context ---------- *)
Record fsig := { fg_name : name; fg_arity : nat; fg_ret : ty }.
Definition vscope := list (name * ty).
Record cx := { cx_vars : list vscope; cx_funs : list (list fsig); cx_loop : bool; cx_fn : bool }.
Definition cx0 : cx := {| cx_vars := []; cx_funs := []; cx_loop := false; cx_fn := false |}.

Fixpoint scope_find (x : name) (s : vscope) : option ty :=
  match s with
  | [] => None
  | (n, t) :: r => if bytes_eqb n x then Some t else scope_find x r
  end.
Fixpoint lookup_var (vs : list vscope) (x : name) : option ty :=
  match vs with
  | [] => None
  | s :: r => match scope_find x s with Some t => Some t | None => lookup_var r x end
  end.
Fixpoint sig_find (f : name) (s : list fsig) : option fsig :=
  match s with
  | [] => None
  | g :: r => if bytes_eqb (fg_name g) f then Some g else sig_find f r
  end.
Fixpoint lookup_fun (fs : list (list fsig)) (f : name) : option fsig :=
  match fs with
  | [] => None
  | s :: r => match sig_find f s with Some g => Some g | None => lookup_fun r f end
  end.
Definition declared (c : cx) (x : name) : bool :=
  match lookup_var (cx_vars c) x with Some _ => true | None => false end.

(* `make x` in the current block: rebinds x if this block already declared it, else adds it *)
Fixpoint scope_set (x : name) (t : ty) (s : vscope) : vscope :=
  match s with
  | [] => [(x, t)]
  | (n, t0) :: r => if bytes_eqb n x then (n, t) :: r else (n, t0) :: scope_set x t r
  end.
Definition declare (c : cx) (x : name) (t : ty) : cx :=
  match cx_vars c with
  | [] => {| cx_vars := [[(x, t)]]; cx_funs := cx_funs c; cx_loop := cx_loop c; cx_fn := cx_fn c |}
  | s :: r => {| cx_vars := scope_set x t s :: r; cx_funs := cx_funs c; cx_loop := cx_loop c; cx_fn := cx_fn c |}
  end.

(* ---------- declared / literal types (infer_expr_type) ---------- *)
Definition ty_eqb (a b : ty) : bool :=
  match a, b with
  | TNumber, TNumber | TString, TString | TBool, TBool | TArray, TArray
  | TProcessCommand, TProcessCommand | TProcessResult, TProcessResult
  | TDynamic, TDynamic | TNull, TNull => true
  | _, _ => false
  end.
Definition is_ty (t : ty) (o : option ty) : bool :=
  match o with Some u => ty_eqb t u | None => false end.
Definition nullish (o : option ty) : bool := is_ty TNull o || is_ty TDynamic o.

Definition infer_bin (op : binop) (l r : ty) : option ty :=
  match op with
  | Add =>
      if ty_eqb l TString || ty_eqb r TString then Some TString
      else if ty_eqb l TNumber && ty_eqb r TNumber then Some TNumber
      else if ty_eqb l TDynamic || ty_eqb r TDynamic then Some TDynamic
      else None
  | Minus | Times | Divide | Mod =>
      if (ty_eqb l TNumber && ty_eqb r TNumber) || ty_eqb l TDynamic || ty_eqb r TDynamic
      then Some TNumber else None
  | OEq | OGt | OLt =>
      if (ty_eqb l TNumber && ty_eqb r TNumber) || (ty_eqb l TString && ty_eqb r TString)
         || (ty_eqb l TBool && ty_eqb r TBool)
         || ty_eqb l TNull || ty_eqb l TDynamic || ty_eqb r TNull || ty_eqb r TDynamic
      then Some TBool else None
  | And | Or =>
      if (ty_eqb l TBool && ty_eqb r TBool)
         || ty_eqb l TNull || ty_eqb l TDynamic || ty_eqb r TNull || ty_eqb r TDynamic
      then Some TBool else None
  end.

Definition infer_un (op : unop) (t : ty) : option ty :=
  match op with
  | Not => if ty_eqb t TBool || ty_eqb t TNull || ty_eqb t TDynamic then Some TBool else None
  | Neg => if ty_eqb t TNumber || ty_eqb t TDynamic then Some TNumber else None
  end.

Definition member_ret (rt : ty) (f : name) : ty :=
  match kind_of_ty rt with
  | Some k => match method_lookup (kind_table k) f with Some (_, t, _) => t | None => TDynamic end
  | None => TDynamic
  end.

(* a function called f is defined in this statement (nested blocks included, nested function
   bodies excluded) — Resolver::block_defines_function *)
Fixpoint stmt_defines (f : name) (s : stmt) : bool :=
  match s with
  | SFun _ n _ _ _ _ _ => bytes_eqb n f
  | SIf _ _ t e =>
      existsb (stmt_defines f) t
      || match e with Some eb => existsb (stmt_defines f) eb | None => false end
  | SLoop _ _ b => existsb (stmt_defines f) b
  | SBlock _ b => existsb (stmt_defines f) b
  | _ => false
  end.

(* `sig` = Some body while the signature of the function with that body is inferred (names are
   then dynamically typed, see GenRules.src_signature_names_dynamic), None while statements
   are checked *)
Fixpoint infer_in (sig : option (list stmt)) (c : cx) (e : expr) : option ty :=
  match e with
  | ENum _ => Some TNumber
  | EStr _ | EInterp _ => Some TString
  | EBool _ => Some TBool
  | ENull => Some TNull
  | EArr _ => Some TArray
  | EIdx _ _ => Some TDynamic
  | EMember _ _ => Some TDynamic
  | EVar x _ => match sig with Some _ => Some TDynamic | None => lookup_var (cx_vars c) x end
  | EBin op a b =>
      match infer_in sig c a, infer_in sig c b with
      | Some l, Some r => infer_bin op l r
      | _, _ => None
      end
  | EUn op a => match infer_in sig c a with Some t => infer_un op t | None => None end
  | ECall callee _ _ =>
      match callee with
      | EVar f _ =>
          match global_lookup f with
          | Some (_, t) => Some t
          | None =>
              if match sig with Some body => existsb (stmt_defines f) body | None => false end
              then Some TDynamic
              else match lookup_fun (cx_funs c) f with Some g => Some (fg_ret g) | None => None end
          end
      | EMember o f => match infer_in sig c o with Some rt => Some (member_ret rt f) | None => None end
      | _ => None
      end
  end.
Definition infer : cx -> expr -> option ty := infer_in None.

(* ---------- expression rules (check_expr) ---------- *)
Definition tm (ok : bool) : list rule := if ok then [] else [TypeMismatch].

Definition bin_ok (op : binop) (l r : option ty) : bool :=
  match op with
  | Add => is_ty TString l || is_ty TDynamic l || is_ty TString r || is_ty TDynamic r
           || (is_ty TNumber l && is_ty TNumber r)
  | Minus | Times | Divide | Mod =>
      (is_ty TNumber l || is_ty TDynamic l) && (is_ty TNumber r || is_ty TDynamic r)
  | OEq | OGt | OLt =>
      (is_ty TNumber l && is_ty TNumber r) || (is_ty TString l && is_ty TString r)
      || (is_ty TBool l && is_ty TBool r) || nullish l || nullish r
  | And | Or => (is_ty TBool l && is_ty TBool r) || nullish l || nullish r
  end.
Definition un_ok (op : unop) (t : option ty) : bool :=
  match op with
  | Not => is_ty TBool t || is_ty TNull t || is_ty TDynamic t
  | Neg => is_ty TNumber t || is_ty TDynamic t
  end.

(* an inferable type other than `want`/dynamic is an error; no inferable type is not *)
Definition expect_arg (want : ty) (o : option ty) : list rule :=
  match o with
  | Some t => tm (ty_eqb t want || ty_eqb t TDynamic)
  | None => []
  end.

(* expr_root_local: the receiver is a declared variable, possibly under indexing / member access *)
Fixpoint root_declared (c : cx) (e : expr) : bool :=
  match e with
  | EVar x _ => declared c x
  | EIdx a _ => root_declared c a
  | EMember o _ => root_declared c o
  | _ => false
  end.

Definition arity_rule (n want : nat) : list rule := if Nat.eqb n want then [] else [ArityMismatch].
Definition marity_rule (n want : nat) : list rule := if Nat.eqb n want then [] else [MethodArity].

(* fa29849: receiver type only known at run time — a name shared by member built-ins must be
   called with one of their arities; unknown names stay a run-time matter *)
Definition dyn_arity_rule (f : name) (n : nat) : list rule :=
  match member_arities f with
  | [] => []
  | l => if existsb (Nat.eqb n) l then [] else [MethodArity]
  end.

Definition member_arg_rules (k : kind) (f : name) (a0 : option (option ty)) (nargs : nat) : list rule :=
  match a0 with
  | None => []
  | Some t0 =>
      match k with
      | KCommand =>
          if bytes_eqb f n_cwd then expect_arg TString t0
          else if bytes_eqb f n_env then (if Nat.leb 2 nargs then expect_arg TString t0 else [])
          else if bytes_eqb f n_timeout_ms then expect_arg TNumber t0
          else []
      | KArray => if bytes_eqb f n_join then expect_arg TString t0 else []
      | _ => []
      end
  end.

Definition member_call_rules (c : cx) (o : expr) (f : name) (a0 : option (option ty)) (nargs : nat) : list rule :=
  let ot := infer c o in
  (match ot with
   | None => []
   | Some rt =>
       match kind_of_ty rt with
       | None => if ty_eqb rt TDynamic then [] else [UnknownMethod]
       | Some k =>
           match method_lookup (kind_table k) f with
           | None => [UnknownMethod]
           | Some (ar, _, mut) =>
               (if mut && negb (root_declared c o) then
                  match k with KCommand => [TypeMismatch] | _ => [] end
                else [])
               ++ marity_rule nargs ar ++ member_arg_rules k f a0 nargs
           end
       end
   end)
  ++ (match ot with
      | None | Some TDynamic => dyn_arity_rule f nargs
      | _ => []
      end).

Definition fn_call_rules (c : cx) (f : name) (a0 : option (option ty)) (nargs : nat) : list rule :=
  match global_lookup f with
  | Some (ar, _) =>
      arity_rule nargs ar
      ++ (if bytes_eqb f n_command then match a0 with Some t0 => expect_arg TString t0 | None => [] end else [])
  | None =>
      match lookup_fun (cx_funs c) f with
      | Some g => arity_rule nargs (fg_arity g)
      | None => [UndeclaredFunction]
      end
  end.

Definition seg_rules (c : cx) (s : seg) : list rule :=
  match s with
  | SegLit _ => []
  | SegVar x _ => if declared c x then [] else [UndeclaredVar]
  end.

Fixpoint check_expr (c : cx) (e : expr) : list rule :=
  match e with
  | ENum _ | EStr _ | EBool _ | ENull => []
  | EInterp segs => flat_map (seg_rules c) segs
  | EArr es => flat_map (check_expr c) es
  | EIdx a i =>
      check_expr c a ++ check_expr c i
      ++ tm (is_ty TArray (infer c a) || is_ty TDynamic (infer c a))
      ++ tm (is_ty TNumber (infer c i) || is_ty TDynamic (infer c i))
  | EVar x _ => if declared c x then [] else [UndeclaredVar]
  | EBin op a b => check_expr c a ++ check_expr c b ++ tm (bin_ok op (infer c a) (infer c b))
  | EUn op a => check_expr c a ++ tm (un_ok op (infer c a))
  | EMember o _ => check_expr c o
  | ECall callee args _ =>
      let a0 := match args with a :: _ => Some (infer c a) | [] => None end in
      (match callee with
       | EVar f _ => fn_call_rules c f a0 (length args)
       | EMember o f => check_expr c o ++ member_call_rules c o f a0 (length args)
       | _ => check_expr c callee
       end)
      ++ flat_map (check_expr c) args
  end.

(* condition of `if to say` / `jasi` *)
Definition cond_rules (c : cx) (e : expr) : list rule :=
  match infer c e with
  | Some t => tm (ty_eqb t TBool || ty_eqb t TNull || ty_eqb t TDynamic)
  | None => []
  end.

(* ---------- function signatures of a block (predeclare_block_functions) ---------- *)
(* return types collected from a body, nested function bodies excluded *)
Fixpoint ret_types_stmt (sig : option (list stmt)) (c : cx) (s : stmt) : list ty :=
  match s with
  | SRet _ (Some e) => [match infer_in sig c e with Some t => t | None => TDynamic end]
  | SRet _ None => [TNull]
  | SIf _ _ t f =>
      flat_map (ret_types_stmt sig c) t
      ++ match f with Some eb => flat_map (ret_types_stmt sig c) eb | None => [] end
  | SLoop _ _ b => flat_map (ret_types_stmt sig c) b
  | SBlock _ b => flat_map (ret_types_stmt sig c) b
  | _ => []
  end.
Definition summarize (l : list ty) : ty :=
  match l with
  | [] => TNull
  | t :: r => if forallb (ty_eqb t) r then t else TDynamic
  end.
Definition with_sigs (c : cx) (sigs : list fsig) : cx :=
  {| cx_vars := [] :: cx_vars c; cx_funs := sigs :: cx_funs c; cx_loop := cx_loop c; cx_fn := cx_fn c |}.
Definition ret_type_of (c : cx) (sigs : list fsig) (body : list stmt) : ty :=
  summarize (flat_map (ret_types_stmt (if src_signature_names_dynamic then Some body else None)
                                      (with_sigs c sigs)) body).

(* the registered functions of a block: the first definition of each name, in order *)
Fixpoint registered (seen : list name) (b : list stmt) : list (fsig * list stmt) :=
  match b with
  | [] => []
  | SFun _ n ps body _ _ _ :: r =>
      if mem_name n seen then registered seen r
      else ({| fg_name := n; fg_arity := length ps; fg_ret := TDynamic |}, body) :: registered (n :: seen) r
  | _ :: r => registered seen r
  end.

(* one in-place sweep over the pending definitions; returns the table and "changed" *)
Fixpoint sweep (c : cx) (done todo : list (fsig * list stmt)) : list (fsig * list stmt) * bool :=
  match todo with
  | [] => (done, false)
  | (g, body) :: r =>
      let t := ret_type_of c (map fst (done ++ todo)) body in
      let g' := {| fg_name := fg_name g; fg_arity := fg_arity g; fg_ret := t |} in
      let '(res, ch) := sweep c (done ++ [(g', body)]) r in
      (res, negb (ty_eqb t (fg_ret g)) || ch)
  end.
Fixpoint refine (n : nat) (c : cx) (regs : list (fsig * list stmt)) : list (fsig * list stmt) :=
  match n with
  | O => regs
  | S n' => let '(regs', ch) := sweep c [] regs in if ch then refine n' c regs' else regs'
  end.
Definition sigs_of (c : cx) (b : list stmt) : list fsig :=
  let regs := registered [] b in map fst (refine (length regs) c regs).

Definition enter_block (c : cx) (b : list stmt) : cx := with_sigs c (sigs_of c b).

(* ---------- statements ---------- *)
Definition reserved_rule (n : name) : list rule := if reserved n then [ReservedName] else [].
Fixpoint param_rules (earlier : list name) (ps : list name) : list rule :=
  match ps with
  | [] => []
  | p :: r =>
      reserved_rule p ++ (if mem_name p earlier then [DuplicateParameter] else [])
      ++ param_rules (p :: earlier) r
  end.

(* the rules a statement breaks by itself (its nested blocks excluded); `seen` = names of
   the functions defined earlier in the same block *)
Definition local_rules (c : cx) (seen : list name) (s : stmt) : list rule :=
  match s with
  | SFun _ n ps _ _ _ _ =>
      reserved_rule n ++ (if mem_name n seen then [DuplicateFunction] else param_rules [] ps)
  | SMake _ n _ e => reserved_rule n ++ check_expr c e
  | SSet _ n _ e => (if declared c n then [] else [AssignUndeclared]) ++ check_expr c e
  | SSetIdx _ t e => check_expr c t ++ check_expr c e
  | SIf _ cnd _ _ => check_expr c cnd ++ cond_rules c cnd
  | SLoop _ cnd _ => check_expr c cnd ++ cond_rules c cnd
  | SBlock _ _ => []
  | SRet _ eo =>
      (if cx_fn c then [] else [ReturnOutsideFunction])
      ++ match eo with Some e => check_expr c e | None => [] end
  | SBreak _ => if cx_loop c then [] else [BreakOutsideLoop]
  | SNext _ => if cx_loop c then [] else [NextOutsideLoop]
  | SExpr _ e => check_expr c e
  end.

(* the context after a statement, for the rest of its block *)
Definition after (c : cx) (s : stmt) : cx :=
  match s with
  | SMake _ n _ e => declare c n (match infer c e with Some t => t | None => TDynamic end)
  | _ => c
  end.
Definition see (seen : list name) (s : stmt) : list name :=
  match s with SFun _ n _ _ _ _ _ => n :: seen | _ => seen end.

Definition loop_cx (c : cx) : cx :=
  {| cx_vars := cx_vars c; cx_funs := cx_funs c; cx_loop := true; cx_fn := cx_fn c |}.
(* a function body: parameters (dynamically typed) in their own scope, outside any loop *)
Definition fn_cx (c : cx) (ps : list name) : cx :=
  {| cx_vars := rev (map (fun p => (p, TDynamic)) ps) :: cx_vars c; cx_funs := cx_funs c;
     cx_loop := false; cx_fn := true |}.

Definition pfx (i : nat) (v : violation) : violation := (fst v, i :: snd v).
Definition here (r : rule) : violation := (r, []).

Definition check_stmts_with (chk : cx -> list name -> stmt -> list violation) :=
  fix go (c : cx) (seen : list name) (i : nat) (l : list stmt) {struct l} : list violation :=
    match l with
    | [] => []
    | s :: r => map (pfx i) (chk c seen s) ++ go (after c s) (see seen s) (S i) r
    end.
Definition check_block_with (chk : cx -> list name -> stmt -> list violation) (c : cx) (b : list stmt) :=
  check_stmts_with chk (enter_block c b) [] 0%nat b.

Fixpoint check_stmt (c : cx) (seen : list name) (s : stmt) {struct s} : list violation :=
  map here (local_rules c seen s)
  ++ match s with
     | SFun _ n ps body _ _ _ =>
         (* the body of a duplicate definition is not bound to a function and is skipped *)
         if mem_name n seen then [] else map (pfx 0%nat) (check_block_with check_stmt (fn_cx c ps) body)
     | SIf _ _ t f =>
         map (pfx 0%nat) (check_block_with check_stmt c t)
         ++ match f with Some eb => map (pfx 1%nat) (check_block_with check_stmt c eb) | None => [] end
     | SLoop _ _ b => map (pfx 0%nat) (check_block_with check_stmt (loop_cx c) b)
     | SBlock _ b => map (pfx 0%nat) (check_block_with check_stmt c b)
     | _ => []
     end.

Definition check_stmts := check_stmts_with check_stmt.
Definition check_block := check_block_with check_stmt.
Definition check (p : list stmt) : list violation := check_block cx0 p.
Definition rules (vs : list violation) : list rule := map fst vs.
Definition accepts (p : list stmt) : bool := match check p with [] => true | _ => false end.

(* ================= declarative vocabulary ================= *)
(* One-hole statement contexts: the hole is a statement position of some block, nested
   arbitrarily in blocks, if/else branches, loop bodies and function bodies. *)
Inductive frame :=
| FThen (sid : option Z) (c : expr) (els : option (list stmt))
| FElse (sid : option Z) (c : expr) (thn : list stmt)
| FLoop (sid : option Z) (c : expr)
| FBlock (sid : option Z)
| FFun (sid : option Z) (n : name) (ps : list name) (fid : option Z) (ls ll : Z).

Inductive sctx :=
| CHole (pre post : list stmt)
| CIn (pre : list stmt) (f : frame) (k : sctx) (post : list stmt).

Definition wrap (f : frame) (b : list stmt) : stmt :=
  match f with
  | FThen sid c els => SIf sid c b els
  | FElse sid c thn => SIf sid c thn (Some b)
  | FLoop sid c => SLoop sid c b
  | FBlock sid => SBlock sid b
  | FFun sid n ps fid ls ll => SFun sid n ps b fid ls ll
  end.
Fixpoint plug (k : sctx) (s : stmt) : list stmt :=
  match k with
  | CHole pre post => pre ++ s :: post
  | CIn pre f k' post => pre ++ wrap f (plug k' s) :: post
  end.
Definition frame_tag (f : frame) : nat := match f with FElse _ _ _ => 1%nat | _ => 0%nat end.
Fixpoint path_of (k : sctx) : path :=
  match k with
  | CHole pre _ => [length pre]
  | CIn pre f k' _ => length pre :: frame_tag f :: path_of k'
  end.

(* inside a loop (of the same function body) / inside a function, read off the context *)
Fixpoint loop_at (k : sctx) (b : bool) : bool :=
  match k with
  | CHole _ _ => b
  | CIn _ f k' _ => loop_at k' (match f with FLoop _ _ => true | FFun _ _ _ _ _ _ => false | _ => b end)
  end.
Fixpoint fn_at (k : sctx) (b : bool) : bool :=
  match k with
  | CHole _ _ => b
  | CIn _ f k' _ => fn_at k' (match f with FFun _ _ _ _ _ _ => true | _ => b end)
  end.

(* "there is a declaration of x textually before the hole in an enclosing block", or x is a
   parameter of an enclosing function *)
Definition makes (x : name) (l : list stmt) : Prop :=
  exists sid l0 e, In (SMake sid x l0 e) l.
Definition frame_binds (f : frame) (x : name) : Prop :=
  match f with FFun _ _ ps _ _ _ => In x ps | _ => False end.
Fixpoint declared_before (k : sctx) (x : name) : Prop :=
  match k with
  | CHole pre _ => makes x pre
  | CIn pre f k' _ => makes x pre \/ frame_binds f x \/ declared_before k' x
  end.

(* "a function called f is defined somewhere in an enclosing block" (anywhere in the block) *)
Definition defines (f : name) (b : list stmt) : Prop :=
  exists sid ps body fid ls ll, In (SFun sid f ps body fid ls ll) b.
Fixpoint fn_visible (k : sctx) (s : stmt) (f : name) : Prop :=
  match k with
  | CHole pre post => defines f (pre ++ s :: post)
  | CIn pre fr k' post => defines f (pre ++ wrap fr (plug k' s) :: post) \/ fn_visible k' s f
  end.
(* parameter count of the first definition of f in a block *)
Fixpoint first_def (f : name) (b : list stmt) : option nat :=
  match b with
  | [] => None
  | SFun _ n ps _ _ _ _ :: r => if bytes_eqb n f then Some (length ps) else first_def f r
  | _ :: r => first_def f r
  end.
(* parameter count of the definition a call of f at the hole refers to (innermost block first) *)
Fixpoint visible_arity (k : sctx) (s : stmt) (f : name) : option nat :=
  match k with
  | CHole pre post => first_def f (pre ++ s :: post)
  | CIn pre fr k' post =>
      match visible_arity k' s f with
      | Some n => Some n
      | None => first_def f (pre ++ wrap fr (plug k' s) :: post)
      end
  end.

(* names of the functions defined before the hole in the hole's own block *)
Fixpoint fun_names (l : list stmt) : list name :=
  match l with
  | [] => []
  | SFun _ n _ _ _ _ _ :: r => n :: fun_names r
  | _ :: r => fun_names r
  end.
Fixpoint hole_pre (k : sctx) : list stmt :=
  match k with CHole pre _ => pre | CIn _ _ k' _ => hole_pre k' end.

(* every function whose body the context passes through is the first definition of its name
   in its block (the body of a later duplicate is not checked; the duplicate is reported) *)
Fixpoint regular (k : sctx) : Prop :=
  match k with
  | CHole _ _ => True
  | CIn pre f k' _ =>
      match f with FFun _ n _ _ _ _ => ~ In n (fun_names pre) | _ => True end /\ regular k'
  end.

(* the checker's context on arrival at the hole, starting the enclosing block in context c *)
Definition fold_after (c : cx) (pre : list stmt) : cx := fold_left after pre c.
Definition enter_frame (f : frame) (c : cx) : cx :=
  match f with
  | FLoop _ _ => loop_cx c
  | FFun _ _ ps _ _ _ => fn_cx c ps
  | _ => c
  end.
Fixpoint state_at (k : sctx) (s : stmt) (c : cx) : cx :=
  match k with
  | CHole pre post => fold_after (enter_block c (pre ++ s :: post)) pre
  | CIn pre f k' post =>
      state_at k' s (enter_frame f (fold_after (enter_block c (pre ++ wrap f (plug k' s) :: post)) pre))
  end.

(* One-hole expression contexts: operand, array element, index, receiver, call argument. *)
Inductive ectx :=
| XHole
| XBinL (op : binop) (x : ectx) (b : expr)
| XBinR (op : binop) (a : expr) (x : ectx)
| XUn (op : unop) (x : ectx)
| XArr (pre : list expr) (x : ectx) (post : list expr)
| XIdxA (x : ectx) (i : expr)
| XIdxI (a : expr) (x : ectx)
| XMember (x : ectx) (f : name)
| XRecv (x : ectx) (f : name) (args : list expr) (t : option Z)        (* x.f(args) *)
| XArg (callee : expr) (pre : list expr) (x : ectx) (post : list expr) (t : option Z).
Fixpoint plugE (x : ectx) (e : expr) : expr :=
  match x with
  | XHole => e
  | XBinL op x' b => EBin op (plugE x' e) b
  | XBinR op a x' => EBin op a (plugE x' e)
  | XUn op x' => EUn op (plugE x' e)
  | XArr pre x' post => EArr (pre ++ plugE x' e :: post)
  | XIdxA x' i => EIdx (plugE x' e) i
  | XIdxI a x' => EIdx a (plugE x' e)
  | XMember x' f => EMember (plugE x' e) f
  | XRecv x' f args t => ECall (EMember (plugE x' e) f) args t
  | XArg callee pre x' post t => ECall callee (pre ++ plugE x' e :: post) t
  end.
(* the callee of XArg is a name, a method or any other expression; a hole directly in callee
   position is not an expression position (the callee name is not a variable use) *)

(* statements with one expression hole *)
Inductive shole :=
| HMake (sid : option Z) (n : name) (l : option Z)
| HSet (sid : option Z) (n : name) (l : option Z)
| HSetIdxT (sid : option Z) (e : expr)
| HSetIdxE (sid : option Z) (t : expr)
| HIf (sid : option Z) (t : list stmt) (f : option (list stmt))
| HLoop (sid : option Z) (b : list stmt)
| HRet (sid : option Z)
| HExpr (sid : option Z).
Definition plugS (h : shole) (e : expr) : stmt :=
  match h with
  | HMake sid n l => SMake sid n l e
  | HSet sid n l => SSet sid n l e
  | HSetIdxT sid e2 => SSetIdx sid e e2
  | HSetIdxE sid t => SSetIdx sid t e
  | HIf sid t f => SIf sid e t f
  | HLoop sid b => SLoop sid e b
  | HRet sid => SRet sid (Some e)
  | HExpr sid => SExpr sid e
  end.

(* ---------- the rules, read declaratively at a position (k, s) of a program ---------- *)
(* name rules of an expression: every variable occurrence (outside callee position) is
   declared (D), every called name is a built-in or a visible function (F gives the parameter
   count of the definition the call refers to) and gets that many arguments *)
Definition call_wf (F : name -> option nat) (f : name) (n : nat) : Prop :=
  match global_lookup f with
  | Some (ar, _) => n = ar
  | None => F f = Some n
  end.
Fixpoint wf_expr (D : name -> Prop) (F : name -> option nat) (e : expr) : Prop :=
  match e with
  | ENum _ | EStr _ | EBool _ | ENull => True
  | EInterp segs => forall x l, In (SegVar x l) segs -> D x
  | EVar x _ => D x
  | EBin _ a b => wf_expr D F a /\ wf_expr D F b
  | EUn _ a => wf_expr D F a
  | EArr es => (fix all (l : list expr) : Prop := match l with [] => True | a :: r => wf_expr D F a /\ all r end) es
  | EIdx a i => wf_expr D F a /\ wf_expr D F i
  | EMember o _ => wf_expr D F o
  | ECall callee args _ =>
      match callee with
      | EVar f _ => call_wf F f (length args)
      | EMember o _ => wf_expr D F o
      | _ => wf_expr D F callee
      end
      /\ (fix all (l : list expr) : Prop := match l with [] => True | a :: r => wf_expr D F a /\ all r end) args
  end.

(* names of the functions defined before a statement of the same block, as the checker
   accumulates them (`seen`), and at the hole of a context *)
Definition seen_of (pre : list stmt) (seen : list name) : list name := fold_left see pre seen.
Definition seen_at (k : sctx) : list name := seen_of (hole_pre k) [].

Definition params_ok (ps : list name) : Prop := NoDup ps /\ forall p, In p ps -> reserved p = false.

(* The rules about names and control flow, read declaratively for the statement s at the hole
   of k: D = "declared textually before in an enclosing block (or a parameter)", F = parameter
   count of the visible definition. *)
Definition stmt_rules_hold (k : sctx) (s : stmt) : Prop :=
  let D := declared_before k in
  let F := visible_arity k s in
  match s with
  | SFun _ n ps _ _ _ _ => reserved n = false /\ ~ In n (fun_names (hole_pre k)) /\ params_ok ps
  | SMake _ n _ e => reserved n = false /\ wf_expr D F e
  | SSet _ x _ e => D x /\ wf_expr D F e
  | SSetIdx _ t e => wf_expr D F t /\ wf_expr D F e
  | SIf _ c _ _ => wf_expr D F c
  | SLoop _ c _ => wf_expr D F c
  | SBlock _ _ => True
  | SRet _ eo => fn_at k false = true /\ match eo with Some e => wf_expr D F e | None => True end
  | SBreak _ => loop_at k false = true
  | SNext _ => loop_at k false = true
  | SExpr _ e => wf_expr D F e
  end.

(* The typing table stays definitional: no TypeMismatch / UnknownMethod / MethodArity among the
   rules the statement breaks in the checker's own context (declared types as `infer` computes). *)
Definition typing_ok (k : sctx) (s : stmt) : Prop :=
  forall r, In r (local_rules (state_at k s cx0) (seen_at k) s) -> table_rule r = false.

Definition own_exprs (s : stmt) : list expr :=
  match s with
  | SMake _ _ _ e | SSet _ _ _ e | SExpr _ e => [e]
  | SSetIdx _ t e => [t; e]
  | SIf _ c _ _ | SLoop _ c _ => [c]
  | SRet _ (Some e) => [e]
  | _ => []
  end.

(* what it means that rule r is broken by the statement s at the hole of k *)
Definition broken (r : rule) (k : sctx) (s : stmt) : Prop :=
  let D := declared_before k in
  let F := visible_arity k s in
  match r with
  | BreakOutsideLoop => (exists sid, s = SBreak sid) /\ loop_at k false = false
  | NextOutsideLoop => (exists sid, s = SNext sid) /\ loop_at k false = false
  | ReturnOutsideFunction => (exists sid eo, s = SRet sid eo) /\ fn_at k false = false
  | AssignUndeclared => exists sid x l e, s = SSet sid x l e /\ ~ D x
  | DuplicateFunction =>
      exists sid n ps body fid a b, s = SFun sid n ps body fid a b /\ In n (fun_names (hole_pre k))
  | DuplicateParameter =>
      exists sid n ps body fid a b, s = SFun sid n ps body fid a b /\ ~ NoDup ps
  | ReservedName =>
      (exists sid n l e, s = SMake sid n l e /\ reserved n = true) \/
      (exists sid n ps body fid a b, s = SFun sid n ps body fid a b /\
         (reserved n = true \/ exists p, In p ps /\ reserved p = true))
  | UndeclaredVar | UndeclaredFunction | ArityMismatch =>
      exists e, In e (own_exprs s) /\ In r (check_expr (state_at k s cx0) e) /\ ~ wf_expr D F e
  | TypeMismatch | UnknownMethod | MethodArity =>
      In r (local_rules (state_at k s cx0) (seen_at k) s)
  end.

(* an occurrence of variable x: a plain use, or `{x}` inside an interpolated string *)
Inductive var_atom (x : name) : expr -> Prop :=
| va_var : forall l, var_atom x (EVar x l)
| va_interp : forall segs l, In (SegVar x l) segs -> var_atom x (EInterp segs).

(* "rule r is reported for p" — or p contains a duplicate function definition on the way to the
   offending statement: the checker skips the body of a duplicate definition and reports the
   duplicate instead.  Either way p is rejected. *)
Definition reported (r : rule) (p : list stmt) : Prop :=
  In r (rules (check p)) \/ In DuplicateFunction (rules (check p)).

(* ---------- example programs (non-vacuity Examples of Properties/C09.v) ---------- *)
Definition nm_i : name := [105].
Definition nm_f : name := [102].
Definition nm_p : name := [112].
Definition nm_x : name := [120].
Definition num0 : expr := ENum (SpecFloat.S754_zero false).
(* make i get 0  jasi (i small pass 0) start  i get i add 0  do f() start comot end  f()  end *)
Definition ex_break_in_fn_in_loop : list stmt :=
  [SMake None nm_i None num0;
   SLoop None (EBin OLt (EVar nm_i None) num0)
     [SSet None nm_i None (EBin Add (EVar nm_i None) num0);
      SFun None nm_f [] [SBreak None] None 0 0;
      SExpr None (ECall (EVar nm_f None) [] None)]].
Definition ex_ctx_fn_in_loop : sctx :=
  CIn [SMake None nm_i None num0] (FLoop None (EBin OLt (EVar nm_i None) num0))
      (CIn [SSet None nm_i None (EBin Add (EVar nm_i None) num0)] (FFun None nm_f [] None 0 0)
           (CHole [] []) [SExpr None (ECall (EVar nm_f None) [] None)]) [].
(* make x get 0  do f(p) start return p add x end  shout(f(0)) *)
Definition ex_well_formed : list stmt :=
  [SMake None nm_x None num0;
   SFun None nm_f [nm_p] [SRet None (Some (EBin Add (EVar nm_p None) (EVar nm_x None)))] None 0 0;
   SExpr None (ECall (EVar n_shout None) [ECall (EVar nm_f None) [num0] None] None)].
(* do f(p) start shout(["a {x}"]) end : x is not declared anywhere *)
Definition ex_undeclared_interp : list stmt :=
  [SFun None nm_f [nm_p]
     [SExpr None (ECall (EVar n_shout None) [EArr [EInterp [SegLit [97; 32]; SegVar nm_x None]]] None)] None 0 0].

(* history of a variable / signature of a function (DESIGN: strengthening round) *)
Definition nm_g : name := [103].
Definition str_s : expr := EStr [115].
(* make x get true  make x get 0  if to say (x) start end : the latest `make` gives the type *)
Definition ex_redeclared_ill : list stmt :=
  [SMake None nm_x None (EBool true); SMake None nm_x None num0; SIf None (EVar nm_x None) [] None].
(* make x get "s"  make x get 0  shout(x minus 0) *)
Definition ex_redeclared_ok : list stmt :=
  [SMake None nm_x None str_s; SMake None nm_x None num0;
   SExpr None (ECall (EVar n_shout None) [EBin Minus (EVar nm_x None) num0] None)].
(* make x get 0  x get "s"  shout(x minus 0) : reassignment keeps the declared type *)
Definition ex_reassigned_ok : list stmt :=
  [SMake None nm_x None num0; SSet None nm_x None str_s;
   SExpr None (ECall (EVar n_shout None) [EBin Minus (EVar nm_x None) num0] None)].
(* do g() start return "s" end
   do f(p) start if to say (p) start shout(0) end if not so start do g() start return 0 end return g() end end
   shout(f(false) times 0) *)
Definition ex_hidden_in_else : list stmt :=
  [SFun None nm_g [] [SRet None (Some str_s)] None 0 0;
   SFun None nm_f [nm_p]
     [SIf None (EVar nm_p None)
        [SExpr None (ECall (EVar n_shout None) [num0] None)]
        (Some [SFun None nm_g [] [SRet None (Some num0)] None 0 0;
               SRet None (Some (ECall (EVar nm_g None) [] None))])] None 0 0;
   SExpr None (ECall (EVar n_shout None) [EBin Times (ECall (EVar nm_f None) [EBool false] None) num0] None)].
(* do g() start return "s" end  do f() start return g() end  shout(f() times 0) : the outer g is meant *)
Definition ex_outer_result_ill : list stmt :=
  [SFun None nm_g [] [SRet None (Some str_s)] None 0 0;
   SFun None nm_f [] [SRet None (Some (ECall (EVar nm_g None) [] None))] None 0 0;
   SExpr None (ECall (EVar n_shout None) [EBin Times (ECall (EVar nm_f None) [] None) num0] None)].
