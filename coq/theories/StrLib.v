(* StrLib.v — executable models of the string built-ins:
   src/builtins/tw.rs (find, maximal_suffix, crit_period), src/builtins/replace.rs,
   src/builtins/string.rs (len, slice, split, trim) and src/builtins/array.rs (join on
   strings).  Bytes are Z (0..255), strings are byte lists.  Definitions only.

   memchr (memchr-rs) is modelled by its specification: index of the first occurrence at
   or after the offset, else a value >= the length.  Every slice/index that the Rust code
   performs with a bound check is an option here; IndexOob is the panic. *)
From Coq Require Import ZArith List Bool Arith.
Require Import NS.theories.Generated.
Import ListNotations.
Open Scope nat_scope.

Definition bytes := list Z.

Fixpoint prefix_eqb (n h : bytes) : bool :=
  match n, h with
  | [], _ => true
  | a :: n', b :: h' => Z.eqb a b && prefix_eqb n' h'
  | _ :: _, [] => false
  end.

(* ---- specification: leftmost occurrence ---- *)
Fixpoint first_occ (h n : bytes) : option nat :=
  if prefix_eqb n h then Some 0
  else match h with
       | [] => None
       | _ :: t => option_map S (first_occ t n)
       end.

(* ---- memchr ---- *)
Fixpoint memchr_aux (b : Z) (h : bytes) (i : nat) : nat :=
  match h with
  | [] => i
  | x :: t => if Z.eqb x b then i else memchr_aux b t (S i)
  end.
Definition memchr (b : Z) (h : bytes) (off : nat) : nat := memchr_aux b (skipn off h) off.

Inductive fres := Found (i : nat) | NotFound | OutOfFuel | IndexOob.

(* h[start .. start+|n|] == n, with the bound test that guards the slice *)
Definition slice_eq (h n : bytes) (start : nat) : bool :=
  (start + length n <=? length h) && prefix_eqb n (skipn start h).

(* the memchr+compare loop of the 2-byte and <= SIMD_THRESHOLD tiers *)
Fixpoint short_loop (fuel : nat) (h n : bytes) (first : Z) (offset : nat) : fres :=
  match fuel with
  | O => OutOfFuel
  | S fuel' =>
      if offset <? length h then
        let index := memchr first h offset in
        if length h <=? index then NotFound
        else if slice_eq h n index then Found index
        else short_loop fuel' h n first (S index)
      else NotFound
  end.

(* maximal_suffix: x[i+k-1], x[j+k-1] read through nth_error *)
Fixpoint maxsuf_loop (fuel : nat) (x : bytes) (rev : bool) (i j k p : nat) : option (nat * nat) + unit :=
  match fuel with
  | O => inr tt
  | S fuel' =>
      if j + k <=? length x then
        match nth_error x (i + k - 1), nth_error x (j + k - 1) with
        | Some ap, Some a =>
            if ((a <? ap)%Z && negb rev) || ((ap <? a)%Z && rev) then
              maxsuf_loop fuel' x rev i (j + k) 1 (j + k - i)
            else if Z.eqb a ap then
              if k =? p then maxsuf_loop fuel' x rev i (j + p) 1 p
              else maxsuf_loop fuel' x rev i j (k + 1) p
            else maxsuf_loop fuel' x rev j (j + 1) 1 1
        | _, _ => inl None
        end
      else inl (Some (i, p))
  end.

Definition maximal_suffix (x : bytes) (rev : bool) : option (nat * nat) + unit :=
  maxsuf_loop (2 * length x + 2) x rev 0 1 1 1.

Definition crit_period (x : bytes) : option (nat * nat) + unit :=
  match maximal_suffix x false, maximal_suffix x true with
  | inl (Some (i, p)), inl (Some (j, q)) => inl (Some (if j <=? i then (i, p) else (j, q)))
  | inr tt, _ | _, inr tt => inr tt
  | _, _ => inl None
  end.

(* the anchor loop of the long-needle tier *)
Fixpoint long_loop (fuel : nat) (h n : bytes) (anchor : Z) (crit : nat) (offset : nat) : fres :=
  match fuel with
  | O => OutOfFuel
  | S fuel' =>
      if offset + length n <=? length h + crit then
        let index := memchr anchor h offset in
        if length h <=? index then NotFound
        else if index <? crit then long_loop fuel' h n anchor crit (S index)
        else
          let start := index - crit in
          if slice_eq h n start then Found start
          else long_loop fuel' h n anchor crit (S index)
      else NotFound
  end.

Definition find (h n : bytes) : fres :=
  let hlen := length h in
  let nlen := length n in
  match n with
  | [] => Found 0
  | first :: _ =>
      if hlen <? nlen then NotFound
      else if nlen =? 1 then
        let index := memchr first h 0 in
        if index <? hlen then Found index else NotFound
      else if nlen <=? Z.to_nat simd_threshold then
        short_loop (S hlen) h n first 0
      else
        match crit_period n with
        | inr tt => OutOfFuel
        | inl None => IndexOob
        | inl (Some (crit, _)) =>
            match nth_error n crit with
            | None => IndexOob
            | Some anchor => long_loop (S hlen) h n anchor crit 0
            end
        end
  end.

(* ---- UTF-8 code-point chunks (of a valid string) ---- *)
Definition utf8_width (b : Z) : nat :=
  if (b <? 128)%Z then 1 else if (b <? 224)%Z then 2 else if (b <? 240)%Z then 3 else 4.

Fixpoint chars_fuel (fuel : nat) (s : bytes) : list bytes :=
  match fuel, s with
  | _, [] => []
  | O, _ => [s]
  | S fuel', b :: _ =>
      let w := utf8_width b in
      firstn w s :: chars_fuel fuel' (skipn w s)
  end.
Definition chars (s : bytes) : list bytes := chars_fuel (length s) s.

Definition str_len (s : bytes) : nat := length (chars s).

(* ---- replace ---- *)
Inductive sres := SOk (s : bytes) | SFuel | SOob.

Fixpoint replace_loop (fuel : nat) (h from to : bytes) (acc : bytes) : sres :=
  match fuel with
  | O => SFuel
  | S fuel' =>
      match find h from with
      | Found index =>
          replace_loop fuel' (skipn (index + length from) h) from to (acc ++ firstn index h ++ to)
      | NotFound => SOk (acc ++ h)
      | OutOfFuel => SFuel
      | IndexOob => SOob
      end
  end.

Definition replace (h from to : bytes) : sres :=
  match from with
  | [] =>
      (* between every two code points, at the start and at the end *)
      SOk (concat (map (fun c => to ++ c) (chars h)) ++ to)
  | _ => replace_loop (S (length h)) h from to []
  end.

(* specification of replace: same recursion over the leftmost occurrence *)
Fixpoint replace_spec_loop (fuel : nat) (h from to : bytes) : bytes :=
  match fuel with
  | O => h
  | S fuel' =>
      match first_occ h from with
      | Some i => firstn i h ++ to ++ replace_spec_loop fuel' (skipn (i + length from) h) from to
      | None => h
      end
  end.
Definition replace_spec (h from to : bytes) : bytes :=
  match from with
  | [] => concat (map (fun c => to ++ c) (chars h)) ++ to
  | _ => replace_spec_loop (S (length h)) h from to
  end.

(* ---- split (std's str::split, by its specification) and join ---- *)
Fixpoint split_loop (fuel : nat) (s sep : bytes) : list bytes :=
  match fuel with
  | O => [s]
  | S fuel' =>
      match first_occ s sep with
      | Some i => firstn i s :: split_loop fuel' (skipn (i + length sep) s) sep
      | None => [s]
      end
  end.
Definition split (s sep : bytes) : list bytes :=
  match sep with
  | [] => [] :: chars s ++ [[]]
  | _ => split_loop (S (length s)) s sep
  end.

Fixpoint join (parts : list bytes) (sep : bytes) : bytes :=
  match parts with
  | [] => []
  | [p] => p
  | p :: rest => p ++ sep ++ join rest sep
  end.

(* ---- slice (indices already floored and converted to isize) ---- *)
Definition slice_bounds (len start end_ : Z) : Z * Z :=
  let s1 := if (start <? 0)%Z then (start + len)%Z else start in
  let e1 := if (end_ <? 0)%Z then (end_ + len)%Z else end_ in
  (Z.max 0 (Z.min s1 len), Z.max 0 (Z.min e1 len)).

Definition slice (s : bytes) (start end_ : Z) : bytes :=
  let cs := chars s in
  let '(st, en) := slice_bounds (Z.of_nat (length cs)) start end_ in
  if (en <=? st)%Z then []
  else concat (firstn (Z.to_nat (en - st)) (skipn (Z.to_nat st) cs)).

(* ---- trim (Unicode White_Space, as str::trim) ---- *)
Definition decode (c : bytes) : Z :=
  match c with
  | [a] => a
  | [a; b] => ((a - 192) * 64 + (b - 128))%Z
  | [a; b; c0] => ((a - 224) * 4096 + (b - 128) * 64 + (c0 - 128))%Z
  | [a; b; c0; d] => ((a - 240) * 262144 + (b - 128) * 4096 + (c0 - 128) * 64 + (d - 128))%Z
  | _ => (-1)%Z
  end.

Definition is_whitespace (cp : Z) : bool :=
  ((9 <=? cp) && (cp <=? 13) || (cp =? 32) || (cp =? 133) || (cp =? 160) || (cp =? 5760)
   || (8192 <=? cp) && (cp <=? 8202) || (cp =? 8232) || (cp =? 8233) || (cp =? 8239)
   || (cp =? 8287) || (cp =? 12288))%Z.

Fixpoint drop_ws (cs : list bytes) : list bytes :=
  match cs with
  | c :: t => if is_whitespace (decode c) then drop_ws t else cs
  | [] => []
  end.
Definition trim (s : bytes) : bytes :=
  concat (rev (drop_ws (rev (drop_ws (chars s))))).
