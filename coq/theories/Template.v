(* Template — string literals with `{name}` placeholders: a transcription of
   src/syntax/parser.rs `parse_string_literal` / `parse_template_segments` on bytes, and the
   documented reading of a template as a flat sequence of characters and variable
   references.  Definitions only; proofs in proofs/TemplateProofs.v.

   `parse_template` follows the Rust loop: `pend` is the pending literal bytes[beg..i]
   (reversed), flushed as one Literal segment before every escape / placeholder / unmatched
   `{...}` chunk and at the end.  Bytes are read as `u8 as char`, so "whitespace" is the
   Latin-1 reading of char::is_whitespace (9..13, 32, 0x85, 0xA0).

   Two behaviours of the parser are switches of the model (GenTemplate.v reads which one the
   source has): a literal whose token is Owned (it contained an escape sequence) was never a
   template in the shipped parser (repaired by 67a56e3), and only literals containing `{` are
   templates (so `}}` stays `}}` in a literal without `{`; as coded, see literal_reading). *)
From Coq Require Import ZArith List Bool.
Import ListNotations.
Open Scope Z_scope.

Definition bytes := list Z.

Inductive tseg := TSLit (s : bytes) | TSVar (n : bytes).
Inductive sparts := SStatic (s : bytes) | SInterp (segs : list tseg).

Record variant := {
  v_owned_static : bool;      (* Owned token content => StringParts::Static *)
  v_open_brace_gate : bool    (* only `{` (not `}`) makes a literal a template *)
}.
Definition shipped : variant := {| v_owned_static := true; v_open_brace_gate := true |}.
Definition repaired : variant := {| v_owned_static := false; v_open_brace_gate := false |}.

Definition LB : Z := 123.   (* `{` *)
Definition RB : Z := 125.   (* `}` *)

Definition is_ws (b : Z) : bool :=
  ((9 <=? b) && (b <=? 13)) || (b =? 32) || (b =? 133) || (b =? 160).
Definition is_alpha_us (b : Z) : bool :=
  ((65 <=? b) && (b <=? 90)) || ((97 <=? b) && (b <=? 122)) || (b =? 95).
Definition is_alnum_us (b : Z) : bool := is_alpha_us b || ((48 <=? b) && (b <=? 57)).

Fixpoint skip_ws (s : bytes) : bytes :=
  match s with
  | b :: r => if is_ws b then skip_ws r else s
  | [] => []
  end.

Fixpoint take_name (s : bytes) : bytes * bytes :=
  match s with
  | b :: r => if is_alnum_us b then let '(n, r') := take_name r in (b :: n, r') else ([], s)
  | [] => ([], [])
  end.

Definition starts_with (c : Z) (s : bytes) : option bytes :=
  match s with b :: r => if b =? c then Some r else None | [] => None end.

(* after `{`: whitespace, identifier, whitespace, `}` *)
Definition placeholder (s : bytes) : option (bytes * bytes) :=
  match skip_ws s with
  | b :: r =>
      if is_alpha_us b then
        let '(n, r1) := take_name (b :: r) in
        match starts_with RB (skip_ws r1) with
        | Some r2 => Some (n, r2)
        | None => None
        end
      else None
  | [] => None
  end.

(* up to and including the next `}` (or to the end) *)
Fixpoint until_close (s : bytes) : bytes * bytes :=
  match s with
  | [] => ([], [])
  | b :: r => if b =? RB then ([b], r) else let '(c, r') := until_close r in (b :: c, r')
  end.

Definition flush (pend : bytes) (acc : list tseg) : list tseg :=
  match pend with [] => acc | _ => TSLit (rev pend) :: acc end.

Fixpoint segs_go (f : nat) (pend : bytes) (s : bytes) (acc : list tseg) : list tseg :=
  match f with
  | O => rev (flush pend acc)
  | S f' =>
    match s with
    | [] => rev (flush pend acc)
    | b :: r =>
        if b =? LB then
          match starts_with LB r with
          | Some r2 => segs_go f' [] r2 (TSLit [LB] :: flush pend acc)
          | None =>
              match placeholder r with
              | Some (n, r') => segs_go f' [] r' (TSVar n :: flush pend acc)
              | None => let '(c, r') := until_close r in
                        segs_go f' [] r' (TSLit (LB :: c) :: flush pend acc)
              end
          end
        else if b =? RB then
          match starts_with RB r with
          | Some r2 => segs_go f' [] r2 (TSLit [RB] :: flush pend acc)
          | None => segs_go f' (b :: pend) r acc
          end
        else segs_go f' (b :: pend) r acc
    end
  end.

Definition parse_template (s : bytes) : list tseg := segs_go (S (length s)) [] s [].

Definition has_byte (c : Z) (s : bytes) : bool := existsb (Z.eqb c) s.

Definition parse_string_literal (v : variant) (content : bytes) (owned : bool) : sparts :=
  let gate := if v_open_brace_gate v then has_byte LB content
              else has_byte LB content || has_byte RB content in
  if negb gate then SStatic content
  else if owned && v_owned_static v then SStatic content
  else match parse_template content with
       | [] => SStatic content
       | segs => SInterp segs
       end.

(* ---------- the documented reading ---------- *)
Inductive item := IChar (b : Z) | IVar (n : bytes).

(* `{{` is `{`, `}}` is `}`, `{ name }` is a variable reference, a `{` that does not start a
   placeholder is literal text up to and including the next `}`, everything else is itself *)
Fixpoint reading (f : nat) (s : bytes) : list item :=
  match f with
  | O => []
  | S f' =>
    match s with
    | [] => []
    | b :: r =>
        if b =? LB then
          match starts_with LB r with
          | Some r2 => IChar LB :: reading f' r2
          | None =>
              match placeholder r with
              | Some (n, r') => IVar n :: reading f' r'
              | None => let '(c, r') := until_close r in map IChar (LB :: c) ++ reading f' r'
              end
          end
        else if b =? RB then
          match starts_with RB r with
          | Some r2 => IChar RB :: reading f' r2
          | None => IChar RB :: reading f' r
          end
        else IChar b :: reading f' r
    end
  end.

Definition template_reading (s : bytes) : list item := reading (S (length s)) s.

Definition flat_seg (g : tseg) : list item :=
  match g with TSLit t => map IChar t | TSVar n => [IVar n] end.
Definition flat (segs : list tseg) : list item := flat_map flat_seg segs.

(* A literal is a template only when it contains `{` ("interpolate with braces" is all the
   documentation says; `{{` and `}}` are documented nowhere, the test-suite pins `{{x}}`): in a
   literal without `{` nothing is special, so `}}` stays `}}` there.  As coded, not a defect. *)
Definition literal_reading (s : bytes) : list item :=
  if has_byte LB s then template_reading s else map IChar s.

(* the parser after commit 67a56e3 (a literal with an escape sequence is a template like any other) *)
Definition current : variant := {| v_owned_static := false; v_open_brace_gate := true |}.

Definition parts_items (p : sparts) : list item :=
  match p with SStatic s => map IChar s | SInterp segs => flat segs end.

(* writing a template for a given sequence of text pieces and variable references *)
Definition escape (t : bytes) : bytes :=
  flat_map (fun b => if b =? LB then [LB; LB] else if b =? RB then [RB; RB] else [b]) t.
Definition unparse_seg (g : tseg) : bytes :=
  match g with TSLit t => escape t | TSVar n => LB :: n ++ [RB] end.
Definition unparse (segs : list tseg) : bytes := flat_map unparse_seg segs.

Definition valid_name (n : bytes) : bool :=
  match n with b :: r => is_alpha_us b && forallb is_alnum_us r | [] => false end.
Definition seg_ok (g : tseg) : bool := match g with TSLit _ => true | TSVar n => valid_name n end.
