(* Utf8.v — UTF-8 at the byte level.  Bytes are Z (0..255), texts are byte lists, byte
   offsets are nat.  Definitions only; lemmas in proofs/Utf8Proofs.v.

   [valid_utf8] is the definition of well-formed UTF-8 (Unicode 15, table 3-7: no overlong
   forms, no surrogates, nothing above U+10FFFF) — the invariant of Rust's `str`.
   [is_boundary] is `str::is_char_boundary`.  [char_width] is the length of the character
   announced by a leading byte (what `chars().next().unwrap().len_utf8()` returns when the
   slice starts on a boundary of a valid text). *)
From Coq Require Import ZArith List Bool Arith.
Import ListNotations.
Open Scope Z_scope.

Definition bytes := list Z.

Definition in_range (lo hi b : Z) : bool := (lo <=? b) && (b <=? hi).

Definition is_ascii (b : Z) : bool := in_range 0 127 b.

(* continuation byte 10xxxxxx *)
Definition is_cont (b : Z) : bool := in_range 128 191 b.

(* leading byte of a multi-byte character in well-formed text *)
Definition is_lead (b : Z) : bool := in_range 194 244 b.

(* width announced by the first byte; 0 when the byte cannot start a character *)
Definition char_width (b : Z) : nat :=
  if in_range 0 127 b then 1%nat
  else if in_range 194 223 b then 2%nat
  else if in_range 224 239 b then 3%nat
  else if in_range 240 244 b then 4%nat
  else 0%nat.

(* admissible range of the second byte, by first byte (table 3-7) *)
Definition second_lo (b0 : Z) : Z := if b0 =? 224 then 160 else if b0 =? 240 then 144 else 128.
Definition second_hi (b0 : Z) : Z := if b0 =? 237 then 159 else if b0 =? 244 then 143 else 191.

Fixpoint valid_utf8 (s : bytes) : bool :=
  match s with
  | [] => true
  | b0 :: t0 =>
      if in_range 0 127 b0 then valid_utf8 t0
      else if in_range 194 223 b0 then
        match t0 with
        | b1 :: t1 => is_cont b1 && valid_utf8 t1
        | _ => false
        end
      else if in_range 224 239 b0 then
        match t0 with
        | b1 :: b2 :: t2 => in_range (second_lo b0) (second_hi b0) b1 && is_cont b2 && valid_utf8 t2
        | _ => false
        end
      else if in_range 240 244 b0 then
        match t0 with
        | b1 :: b2 :: b3 :: t3 =>
            in_range (second_lo b0) (second_hi b0) b1 && is_cont b2 && is_cont b3 && valid_utf8 t3
        | _ => false
        end
      else false
  end.

(* str::is_char_boundary: 0, len, or an index whose byte is not a continuation byte *)
Definition is_boundary (s : bytes) (i : nat) : bool :=
  (i =? 0)%nat || (i =? length s)%nat ||
  match nth_error s i with
  | Some b => negb (is_cont b)
  | None => false
  end.

(* &s[a..b] on a `str` (and the contract of from_utf8_unchecked on a byte sub-slice):
   Some exactly when a <= b <= len and both ends are boundaries *)
Definition slice (s : bytes) (a b : nat) : option bytes :=
  if (a <=? b)%nat && (b <=? length s)%nat && is_boundary s a && is_boundary s b
  then Some (firstn (b - a) (skipn a s))
  else None.

(* a span the renderer may slice by: in range, ordered, on boundaries *)
Definition span_wf (s : bytes) (a b : nat) : Prop :=
  (a <= b)%nat /\ (b <= length s)%nat /\ is_boundary s a = true /\ is_boundary s b = true.

Definition span_wfb (s : bytes) (a b : nat) : bool :=
  (a <=? b)%nat && (b <=? length s)%nat && is_boundary s a && is_boundary s b.

(* char as u8 -> char -> UTF-8 (what `buffer.push(b as char)` appends): Latin-1 code point *)
Definition push_byte_as_char (b : Z) : bytes :=
  if b <? 128 then [b] else [192 + b / 64; 128 + b mod 64].

(* number of characters of a valid text = number of non-continuation bytes *)
Fixpoint char_count (s : bytes) : nat :=
  match s with
  | [] => 0%nat
  | b :: t => if is_cont b then char_count t else S (char_count t)
  end.
