(* WfScoped — a boolean sufficient condition for the SCOPING panic sites of src/runtime.rs
   (PVarMissing, PSegVar, PAssignMissing, PMutVarMissing, PFuncMissing).  Definitions only.

   The runtime looks variables and functions up DYNAMICALLY (most recent binding with the
   resolved id, in whatever scopes are on the stack), while the resolver checks them
   LEXICALLY, and functions are hoisted to the start of their block.  The two agree unless a
   hoisted function runs before the variables that are in scope at its definition exist:

       shout(f())   make x get 1   do f() start return x end         (* expect() panics *)

   [wf_scoped P prog] decides, for the plan P that will be run (statements / functions the
   plan removes are skipped exactly as the runtime skips them):
     * every variable occurrence carries a resolved id that is declared — by a `make`
       earlier in an enclosing block of the same function body, by a parameter, or by the
       context required by the enclosing function;
     * every user call carries a callee id that is lexically visible, and at the call site
       EVERYTHING that is in scope at the callee's definition (variables and functions) is
       already in scope — "no early call".
   It is conservative: an early call of a function that does not actually use the variables
   declared in between is rejected although it would run.  *)
From Coq Require Import ZArith List Bool.
Require Import NS.theories.Lang.
Import ListNotations.
Open Scope Z_scope.

Definition zmem (i : Z) (l : list Z) : bool := existsb (Z.eqb i) l.
Definition zincl (a b : list Z) : bool := forallb (fun i => zmem i b) a.
Fixpoint zlist_eqb (a b : list Z) : bool :=
  match a, b with
  | [], [] => true
  | x :: a', y :: b' => (x =? y) && zlist_eqb a' b'
  | _, _ => false
  end.

(* per function id: the variable ids and the function ids in scope at its definition *)
Definition ftab := list (Z * (list Z * list Z)).
Fixpoint tlookup (i : Z) (T : ftab) : option (list Z * list Z) :=
  match T with
  | [] => None
  | (k, v) :: r => if k =? i then Some v else tlookup i r
  end.

Definition var_ok (G : list Z) (l : option Z) : bool :=
  match l with Some i => zmem i G | None => false end.

Definition seg_ok (G : list Z) (g : seg) : bool :=
  match g with SegLit _ => true | SegVar _ l => var_ok G l end.

Definition is_fun (t : stmt) : bool := match t with SFun _ _ _ _ _ _ _ => true | _ => false end.

(* the variable a statement declares in its own block when it completes normally *)
Definition decl_of (t : stmt) : list Z :=
  match t with SMake _ _ (Some i) _ => [i] | _ => [] end.

Definition param_ids (lstart : Z) (n : nat) : list Z :=
  map (fun k => lstart + Z.of_nat k) (seq 0 n).

Section Scoped.
Variable P : plan.

(* functions a block registers on entry (hoist_block_functions, minus the pruned ones) *)
Definition block_fns (b : list stmt) : list Z :=
  flat_map (fun t => match t with
                     | SFun _ _ _ _ (Some i) _ _ => if in_plan_fn P (Some i) then [] else [i]
                     | _ => []
                     end) b.

Definition skipped (t : stmt) : bool := in_plan_stmt P (stmt_sid t).
Definition decl_run (t : stmt) : list Z := if skipped t then [] else decl_of t.

Section WithTable.
Variable T : ftab.

(* G = variable ids in scope, F = function ids in scope *)
Fixpoint sc_expr (G F : list Z) (e : expr) {struct e} : bool :=
  match e with
  | ENum _ | EStr _ | EBool _ | ENull => true
  | EInterp segs => forallb (seg_ok G) segs
  | EVar _ l => var_ok G l
  | EBin _ a b => sc_expr G F a && sc_expr G F b
  | EUn _ a => sc_expr G F a
  | EArr es => forallb (sc_expr G F) es
  | EIdx a i => sc_expr G F a && sc_expr G F i
  | EMember o _ => sc_expr G F o
  | ECall (EMember o _) args _ => sc_expr G F o && forallb (sc_expr G F) args
  | ECall (EVar fn _) args target =>
      forallb (sc_expr G F) args &&
      (match global_builtin fn with
       | Some _ => true
       | None =>
           match target with
           | Some i =>
               zmem i F &&
               (match tlookup i T with
                | Some (Gd, Fd) => zincl Gd G && zincl Fd F
                | None => false
                end)
           | None => false
           end
       end)
  | ECall c args _ => sc_expr G F c && forallb (sc_expr G F) args
  end.

Section StmtsWith.
Variable sc : list Z -> list Z -> stmt -> bool.
(* the statements of one block: a `make` that is executed extends G for what follows; a
   statement the plan removes is neither checked nor does it declare anything — except
   function definitions, which are hoisted whether or not their statement is removed *)
Fixpoint sc_stmts_with (G F : list Z) (ts : list stmt) {struct ts} : bool :=
  match ts with
  | [] => true
  | t :: r =>
      (if skipped t && negb (is_fun t) then true else sc G F t)
      && sc_stmts_with (decl_run t ++ G) F r
  end.
End StmtsWith.

Fixpoint sc_stmt (G F : list Z) (t : stmt) {struct t} : bool :=
  match t with
  | SFun _ _ ps body fid lstart _ =>
      match fid with
      | Some i =>
          if in_plan_fn P (Some i) then true
          else
            match tlookup i T with
            | Some (Gd, Fd) =>
                zlist_eqb Gd G && zlist_eqb Fd F
                && sc_stmts_with sc_stmt (param_ids lstart (length ps) ++ G) (block_fns body ++ F) body
            | None => false
            end
      | None => false
      end
  | SMake _ _ l e => (match l with Some _ => true | None => false end) && sc_expr G F e
  | SSet _ _ l e => var_ok G l && sc_expr G F e
  | SSetIdx _ target e => sc_expr G F target && sc_expr G F e
  | SIf _ c t f =>
      sc_expr G F c && sc_stmts_with sc_stmt G (block_fns t ++ F) t
      && (match f with Some fb => sc_stmts_with sc_stmt G (block_fns fb ++ F) fb | None => true end)
  | SLoop _ c body => sc_expr G F c && sc_stmts_with sc_stmt G (block_fns body ++ F) body
  | SBlock _ body => sc_stmts_with sc_stmt G (block_fns body ++ F) body
  | SRet _ None => true
  | SRet _ (Some e) => sc_expr G F e
  | SBreak _ => true
  | SNext _ => true
  | SExpr _ e => sc_expr G F e
  end.

Definition sc_block (G F : list Z) (b : list stmt) : bool :=
  sc_stmts_with sc_stmt G (block_fns b ++ F) b.

End WithTable.

(* the table: what is in scope at each function definition, by the same traversal *)
Section CollectWith.
Variable col : list Z -> list Z -> stmt -> ftab.
Fixpoint collect_stmts_with (G F : list Z) (ts : list stmt) {struct ts} : ftab :=
  match ts with
  | [] => []
  | t :: r => col G F t ++ collect_stmts_with (decl_run t ++ G) F r
  end.
End CollectWith.

Fixpoint collect_stmt (G F : list Z) (t : stmt) {struct t} : ftab :=
  match t with
  | SFun _ _ ps body fid lstart _ =>
      (match fid with Some i => [(i, (G, F))] | None => [] end)
      ++ collect_stmts_with collect_stmt (param_ids lstart (length ps) ++ G) (block_fns body ++ F) body
  | SIf _ _ t f =>
      collect_stmts_with collect_stmt G (block_fns t ++ F) t
      ++ (match f with Some fb => collect_stmts_with collect_stmt G (block_fns fb ++ F) fb | None => [] end)
  | SLoop _ _ body => collect_stmts_with collect_stmt G (block_fns body ++ F) body
  | SBlock _ body => collect_stmts_with collect_stmt G (block_fns body ++ F) body
  | _ => []
  end.

Definition collect (p : list stmt) : ftab := collect_stmts_with collect_stmt [] (block_fns p) p.

Definition wf_scoped_with (T : ftab) (p : list stmt) : bool := sc_block T [] [] p.
Definition wf_scoped (p : list stmt) : bool := wf_scoped_with (collect p) p.

End Scoped.
