(* WfStatic — boolean static checkers over the resolved AST of Lang.v (definitions only).

   [wf_static] decides the STRUCTURAL rules that src/resolver.rs (and the parser, for the
   shape of an index-assignment target) enforce on every program they accept and on which
   the remaining panic sites PArgCount, PBuiltinArity, PArgIndex, PBreakEscapes,
   PIdxAssignEnd and PParamRange of src/runtime.rs rely:

     * a call `f(args)` of a global built-in has exactly one argument (GlobalBuiltin::arity);
     * a call of a user function carries the callee's FunctionId, and that id is bound in the
       program's function table to a function with as many parameters as the call has
       arguments (resolver.rs check_expr, Expr::Call / lookup_func / FunctionCallArity);
     * a method call `recv.m(args)` has at least the arguments the runtime reads by position
       for a method of that NAME (`args.args[k]` in eval_array_member_call_mut,
       eval_string_member_call, eval_array_member_call), whatever the receiver is;
     * every function definition is bound (has a FunctionId), its id is bound in the function
       table to its own parameter count, and its parameters fit its local-id range
       (bound_param_ids' assert!);
     * `comot` / `next` occur only inside a loop of the SAME function body;
     * the target of an index assignment is an index expression.

   [wf_scoped] (second half) decides a sufficient condition for the SCOPING sites
   (PVarMissing, PSegVar, PAssignMissing, PMutVarMissing, PFuncMissing): see below. *)
From Coq Require Import ZArith List Bool.
Require Import NS.theories.Lang.
Import ListNotations.
Open Scope Z_scope.

(* ---------- function table: FunctionId -> number of parameters ---------- *)
Fixpoint assoc (i : Z) (t : list (Z * nat)) : option nat :=
  match t with
  | [] => None
  | (k, v) :: r => if k =? i then Some v else assoc i r
  end.

Definition opt_nat_eqb (a : option nat) (n : nat) : bool :=
  match a with Some k => Nat.eqb k n | None => false end.

(* every function definition of the program, nested anywhere (blocks, branches, loops and
   other function bodies) *)
Fixpoint ftable_stmt (t : stmt) {struct t} : list (Z * nat) :=
  match t with
  | SFun _ _ ps body fid _ _ =>
      (match fid with Some i => [(i, length ps)] | None => [] end) ++ flat_map ftable_stmt body
  | SIf _ _ t f =>
      flat_map ftable_stmt t ++ (match f with Some fb => flat_map ftable_stmt fb | None => [] end)
  | SLoop _ _ body => flat_map ftable_stmt body
  | SBlock _ body => flat_map ftable_stmt body
  | _ => []
  end.
Definition ftable (p : list stmt) : list (Z * nat) := flat_map ftable_stmt p.

(* ---------- arguments a method NAME reads by position ---------- *)
Definition need (f m : name) (k n : nat) : bool := negb (bytes_eqb f m) || Nat.leb k n.

Definition member_args_ok (f : name) (n : nat) : bool :=
  need f n_push 1 n && need f n_slice 2 n && need f n_find 1 n && need f n_replace 2 n
  && need f n_split 1 n && need f n_join 1 n.

(* ---------- expressions ---------- *)
Fixpoint wf_expr (tbl : list (Z * nat)) (e : expr) {struct e} : bool :=
  match e with
  | ENum _ | EStr _ | EInterp _ | EBool _ | ENull | EVar _ _ => true
  | EBin _ a b => wf_expr tbl a && wf_expr tbl b
  | EUn _ a => wf_expr tbl a
  | EArr es => forallb (wf_expr tbl) es
  | EIdx a i => wf_expr tbl a && wf_expr tbl i
  | EMember o _ => wf_expr tbl o
  | ECall (EMember o f) args _ =>
      wf_expr tbl o && forallb (wf_expr tbl) args && member_args_ok f (length args)
  | ECall (EVar fn _) args target =>
      forallb (wf_expr tbl) args &&
      (match global_builtin fn with
       | Some _ => Nat.eqb (length args) 1
       | None => match target with
                 | Some i => opt_nat_eqb (assoc i tbl) (length args)
                 | None => false
                 end
       end)
  | ECall c args _ => wf_expr tbl c && forallb (wf_expr tbl) args
  end.

Definition is_index (e : expr) : bool := match e with EIdx _ _ => true | _ => false end.

(* ---------- statements; [inloop] = inside a loop of the current function body ---------- *)
Fixpoint wf_stmt (tbl : list (Z * nat)) (inloop : bool) (t : stmt) {struct t} : bool :=
  match t with
  | SFun _ _ ps body fid _ llen =>
      (match fid with
       | Some i => opt_nat_eqb (assoc i tbl) (length ps)
       | None => false
       end)
      && (Z.of_nat (length ps) <=? llen)
      && forallb (wf_stmt tbl false) body
  | SMake _ _ _ e => wf_expr tbl e
  | SSet _ _ _ e => wf_expr tbl e
  | SSetIdx _ target e => is_index target && wf_expr tbl target && wf_expr tbl e
  | SIf _ c t f =>
      wf_expr tbl c && forallb (wf_stmt tbl inloop) t
      && (match f with Some fb => forallb (wf_stmt tbl inloop) fb | None => true end)
  | SLoop _ c body => wf_expr tbl c && forallb (wf_stmt tbl true) body
  | SBlock _ body => forallb (wf_stmt tbl inloop) body
  | SRet _ None => true
  | SRet _ (Some e) => wf_expr tbl e
  | SBreak _ => inloop
  | SNext _ => inloop
  | SExpr _ e => wf_expr tbl e
  end.

Definition wf_block (tbl : list (Z * nat)) (inloop : bool) (b : list stmt) : bool :=
  forallb (wf_stmt tbl inloop) b.

Definition wf_static (p : list stmt) : bool := wf_block (ftable p) false p.

(* ---------- per-rule reports (used only by the nsmodel glue to say WHICH rule failed) ----------
   Each is [wf_static] with all but one family of rules switched off; their conjunction is
   not needed by any theorem. *)
Fixpoint loopctl_ok (inloop : bool) (t : stmt) {struct t} : bool :=
  match t with
  | SFun _ _ _ body _ _ _ => forallb (loopctl_ok false) body
  | SIf _ _ t f =>
      forallb (loopctl_ok inloop) t
      && (match f with Some fb => forallb (loopctl_ok inloop) fb | None => true end)
  | SLoop _ _ body => forallb (loopctl_ok true) body
  | SBlock _ body => forallb (loopctl_ok inloop) body
  | SBreak _ | SNext _ => inloop
  | _ => true
  end.
Definition loopctl_static (p : list stmt) : bool := forallb (loopctl_ok false) p.
