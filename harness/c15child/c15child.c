/* c15child — helper child for property C15 (written for /verif, not a repo fixture).
 *
 * Creates the first free "$C15_REPORT_DIR/r<N>" (O_EXCL: the file is the spawn marker and
 * exists before anything else happens), then writes what it received, hex-encoded:
 *   ARGC <n> / ARG <hex> per argv entry (argv[0] first) / EXE <hex of readlink(/proc/self/exe)> / CWD <hex> / ENV <hex> per environ
 *   entry in environ order / STDIN <hex of everything read from fd 0 until EOF> / DONE
 * Empty byte strings are written as "-".  Exit status: $C15_EXIT or 0.
 * No shell, no libc locale handling, no interpretation of any byte. */
#include <errno.h>
#include <fcntl.h>
#include <stdio.h>
#include <stdlib.h>
#include <string.h>
#include <unistd.h>

extern char **environ;

static void put_hex(FILE *f, const char *tag, const unsigned char *p, size_t n) {
    static const char d[] = "0123456789abcdef";
    fputs(tag, f);
    fputc(' ', f);
    if (n == 0) fputc('-', f);
    for (size_t i = 0; i < n; i++) {
        fputc(d[p[i] >> 4], f);
        fputc(d[p[i] & 15], f);
    }
    fputc('\n', f);
}

int main(int argc, char **argv) {
    const char *dir = getenv("C15_REPORT_DIR");
    if (!dir) return 97;
    char path[8192];
    int fd = -1;
    for (int i = 0; i < 100000 && fd < 0; i++) {
        snprintf(path, sizeof path, "%s/r%d", dir, i);
        fd = open(path, O_CREAT | O_EXCL | O_WRONLY, 0644);
        if (fd < 0 && errno != EEXIST) return 98;
    }
    if (fd < 0) return 98;
    FILE *f = fdopen(fd, "w");
    if (!f) return 98;
    fprintf(f, "ARGC %d\n", argc);
    for (int i = 0; i < argc; i++) put_hex(f, "ARG", (unsigned char *)argv[i], strlen(argv[i]));
    {   /* which file is really running (the kernel's view, symlinks resolved) */
        static char exe[8192];
        ssize_t n = readlink("/proc/self/exe", exe, sizeof exe - 1);
        if (n > 0) put_hex(f, "EXE", (unsigned char *)exe, (size_t)n);
        else fputs("EXE !\n", f);
    }
    char *cwd = getcwd(NULL, 0);
    if (cwd) put_hex(f, "CWD", (unsigned char *)cwd, strlen(cwd));
    else fputs("CWD !\n", f);
    for (char **e = environ; *e; e++) put_hex(f, "ENV", (unsigned char *)*e, strlen(*e));
    fflush(f);
    size_t cap = 1 << 16, len = 0;
    unsigned char *buf = malloc(cap);
    for (;;) {
        if (len == cap) {
            cap *= 2;
            buf = realloc(buf, cap);
        }
        ssize_t r = read(0, buf + len, cap - len);
        if (r < 0 && errno == EINTR) continue;
        if (r <= 0) break;
        len += (size_t)r;
    }
    put_hex(f, "STDIN", buf, len);
    fputs("DONE\n", f);
    fclose(f);
    const char *code = getenv("C15_EXIT");
    return code ? atoi(code) : 0;
}
