/* c15child — helper child for property C15 (written for /verif, not a repo fixture).
 *
 * Creates the first free "$C15_REPORT_DIR/r<N>" (O_EXCL: the file is the spawn marker and
 * exists before anything else happens), then writes what it received, hex-encoded:
 *   ARGC <n> / ARG <hex> per argv entry (argv[0] first) / EXE <hex of readlink(/proc/self/exe)> / CWD <hex> / ENV <hex> per environ
 *   entry in environ order / STDIN <hex of everything read from fd 0 until EOF> (inputs above 8 KiB:
 *   STDINSUM <length> <crc32 of the whole stream> / STDINHEAD <hex first 32> / STDINTAIL <hex last 32>) / DONE
 * Empty byte strings are written as "-".  Exit status: $C15_EXIT or 0.
 * No shell, no libc locale handling, no interpretation of any byte. */
#include <errno.h>
#include <fcntl.h>
#include <stdio.h>
#include <stdlib.h>
#include <string.h>
#include <unistd.h>

extern char **environ;

static void put_hex(FILE *f, const char *tag, const unsigned char *p, size_t n) {
    static const char d[] = "0123456789abcdef";
    fputs(tag, f);
    fputc(' ', f);
    if (n == 0) fputc('-', f);
    for (size_t i = 0; i < n; i++) {
        fputc(d[p[i] >> 4], f);
        fputc(d[p[i] & 15], f);
    }
    fputc('\n', f);
}

int main(int argc, char **argv) {
    const char *dir = getenv("C15_REPORT_DIR");
    if (!dir) return 97;
    char path[8192];
    int fd = -1;
    for (int i = 0; i < 100000 && fd < 0; i++) {
        snprintf(path, sizeof path, "%s/r%d", dir, i);
        fd = open(path, O_CREAT | O_EXCL | O_WRONLY, 0644);
        if (fd < 0 && errno != EEXIST) return 98;
    }
    if (fd < 0) return 98;
    FILE *f = fdopen(fd, "w");
    if (!f) return 98;
    fprintf(f, "ARGC %d\n", argc);
    for (int i = 0; i < argc; i++) put_hex(f, "ARG", (unsigned char *)argv[i], strlen(argv[i]));
    {   /* which file is really running (the kernel's view, symlinks resolved) */
        static char exe[8192];
        ssize_t n = readlink("/proc/self/exe", exe, sizeof exe - 1);
        if (n > 0) put_hex(f, "EXE", (unsigned char *)exe, (size_t)n);
        else fputs("EXE !\n", f);
    }
    char *cwd = getcwd(NULL, 0);
    if (cwd) put_hex(f, "CWD", (unsigned char *)cwd, strlen(cwd));
    else fputs("CWD !\n", f);
    for (char **e = environ; *e; e++) put_hex(f, "ENV", (unsigned char *)*e, strlen(*e));
    fflush(f);
    /* $C15_MODE selects how stdin is consumed:
     *   (unset)  read everything until EOF
     *   slow     read everything in small pieces with pauses (a slow consumer)
     *   early    read the first 1000 bytes, close stdin, go on
     *   none     do not touch stdin at all */
    const char *mode = getenv("C15_MODE");
    if (mode && strcmp(mode, "none") == 0) {
        fputs("STDIN skipped\n", f);
    } else {
        int slow = mode && strcmp(mode, "slow") == 0;
        int early = mode && strcmp(mode, "early") == 0;
        size_t cap = 1 << 16, len = 0, nreads = 0;
        unsigned char *buf = malloc(cap);
        for (;;) {
            if (len == cap) {
                cap *= 2;
                buf = realloc(buf, cap);
            }
            size_t want = cap - len;
            if (slow && want > 1531) want = 1531;
            if (early && want > 1000 - len) want = 1000 - len;
            if (want == 0) break;
            ssize_t r = read(0, buf + len, want);
            if (r < 0 && errno == EINTR) continue;
            if (r <= 0) break;
            len += (size_t)r;
            if (slow && (++nreads % 8) == 0) usleep(300);
        }
        if (early) close(0);
        if (len <= 8192) {
            put_hex(f, "STDIN", buf, len);
        } else {
            /* large input: length, CRC-32 of the whole stream, first and last 32 bytes */
            unsigned long crc = 0xFFFFFFFFul;
            for (size_t i = 0; i < len; i++) {
                crc ^= buf[i];
                for (int k = 0; k < 8; k++) crc = (crc >> 1) ^ (0xEDB88320ul & (0ul - (crc & 1ul)));
            }
            crc ^= 0xFFFFFFFFul;
            fprintf(f, "STDINSUM %zu %08lx\n", len, crc & 0xFFFFFFFFul);
            put_hex(f, "STDINHEAD", buf, 32);
            put_hex(f, "STDINTAIL", buf + len - 32, 32);
        }
        free(buf);
    }
    fputs("DONE\n", f);
    fclose(f);
    const char *code = getenv("C15_EXIT");
    return code ? atoi(code) : 0;
}
