//! C16 helper child (std only; compiled with plain rustc by lib/props/c16.py into
//! /verif/.build/c16/c16_child).
//!
//! usage: c16_child <pidfile> <n1> <k1> <n2> <k2> <action>...
//!   The child's stdout is the first n1 bytes of pattern k1, its stderr the first n2 bytes of
//!   pattern k2 (patterns: see `pattern_byte`, identical in harness/src/capture.rs and
//!   coq/extract/mode_capture.ml).  Actions, executed in order:
//!     s<ms>     sleep
//!     o<count>  write the next <count> bytes of the stdout pattern (one write_all)
//!     e<count>  write the next <count> bytes of the stderr pattern
//!     x<code>   exit with that code
//!     A         abort (death by signal: exit_code is null)
//!     P         restore the default SIGPIPE disposition (a write on a closed pipe then kills)
//!   A failed write (EPIPE) is ignored and the remaining actions still run.
//!   Falling off the end exits with 0.
use std::fs;
use std::io::Write;
use std::mem::ManuallyDrop;
use std::os::fd::FromRawFd;
use std::time::Duration;

unsafe extern "C" {
    fn signal(sig: i32, handler: usize) -> usize;
}

fn pattern_byte(stream: u8, n: usize, kind: u8, i: usize) -> u8 {
    let base = if stream == 1 { 97u8 } else { 65u8 };
    match kind {
        b'a' => base + (i % 26) as u8,
        b'u' => {
            let full = (n / 3) * 3;
            if i < full {
                match i % 3 {
                    0 => 0xE2,
                    1 => 0x82,
                    _ => {
                        if stream == 1 {
                            0xAC
                        } else {
                            0xAD
                        }
                    }
                }
            } else if stream == 1 {
                120
            } else {
                88
            }
        }
        b'b' => {
            if i == n / 2 {
                0xFF
            } else {
                base + (i % 26) as u8
            }
        }
        b'B' => {
            if i + 1 == n {
                0xFF
            } else {
                base + (i % 26) as u8
            }
        }
        b'T' => {
            if i + 2 == n || (n == 1 && i == 0) {
                0xE2
            } else if i + 1 == n {
                0x82
            } else {
                base + (i % 26) as u8
            }
        }
        _ => b'?',
    }
}

fn main() {
    let args: Vec<String> = std::env::args().collect();
    if args.len() < 6 {
        std::process::exit(97);
    }
    let pidfile = &args[1];
    let tmp = format!("{pidfile}.tmp");
    let _ = fs::write(&tmp, format!("{}\n", std::process::id()));
    let _ = fs::rename(&tmp, pidfile);
    let n: [usize; 2] = [args[2].parse().unwrap(), args[4].parse().unwrap()];
    let k: [u8; 2] = [args[3].as_bytes()[0], args[5].as_bytes()[0]];
    let data: [Vec<u8>; 2] = [
        (0..n[0]).map(|i| pattern_byte(1, n[0], k[0], i)).collect(),
        (0..n[1]).map(|i| pattern_byte(2, n[1], k[1], i)).collect(),
    ];
    let mut pos = [0usize; 2];
    // raw descriptors, no buffering, never closed by us
    let mut fds = [
        ManuallyDrop::new(unsafe { fs::File::from_raw_fd(1) }),
        ManuallyDrop::new(unsafe { fs::File::from_raw_fd(2) }),
    ];
    for a in &args[6..] {
        let (op, rest) = a.split_at(1);
        match op {
            "s" => std::thread::sleep(Duration::from_millis(rest.parse().unwrap())),
            "o" | "e" => {
                let s = if op == "o" { 0 } else { 1 };
                let cnt: usize = rest.parse().unwrap();
                let end = (pos[s] + cnt).min(n[s]);
                let _ = fds[s].write_all(&data[s][pos[s]..end]);
                pos[s] = end;
            }
            "x" => std::process::exit(rest.parse().unwrap()),
            "A" => std::process::abort(),
            "P" => unsafe {
                signal(13, 0);
            },
            _ => std::process::exit(98),
        }
    }
    std::process::exit(0);
}
