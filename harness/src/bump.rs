//! C11: drives real arenas with op histories; mirrors the Coq client (theories/Bump.v).
use std::alloc::{Allocator, Layout};
use std::fmt::Write as _;
use std::fs;
use std::process::ExitCode;
use std::ptr::NonNull;

use naijascript::arena::Arena;

struct Blk {
    id: i64,
    off: usize,
    len: usize,
    al: usize,
    init: usize,
    shadow: Vec<u8>,
}

fn pattern(seed: i64, i: i64) -> u8 {
    ((seed + i * 7).rem_euclid(251)) as u8
}

struct Client {
    arena: Arena,
    base: usize,
    live: Vec<Blk>, // newest first
    next: i64,
    marks: Vec<usize>,
}

impl Client {
    fn ptr(&self, off: usize) -> NonNull<u8> {
        NonNull::new((self.base + off) as *mut u8).unwrap()
    }

    fn read(&self, off: usize) -> u8 {
        unsafe { *((self.base + off) as *const u8) }
    }

    fn pick(&self, idx: usize) -> Option<usize> {
        if self.live.is_empty() { None } else { Some(idx % self.live.len()) }
    }

    fn do_reset(&mut self, to: usize) {
        unsafe { self.arena.reset(to) };
        self.live.retain(|b| b.off + b.len <= to);
        self.marks.retain(|m| *m <= to);
    }

    fn observe(&self, out: &mut String) {
        let mut acc: i64 = 0;
        for b in &self.live {
            let s = if b.init == 0 {
                b.id
            } else {
                b.id
                    + 3 * i64::from(self.read(b.off))
                    + 5 * i64::from(self.read(b.off + b.init - 1))
                    + 7 * i64::from(self.read(b.off + b.init / 2))
            };
            acc = (acc * 31 + s).rem_euclid(1_000_003);
        }
        let _ = write!(
            out,
            " | {} {} {} {}",
            self.arena.offset(),
            self.arena.verif_commit(),
            self.live.len(),
            acc
        );
        // Full shadow comparison: every initialised byte of every live block.
        for b in &self.live {
            for i in 0..b.init {
                if self.read(b.off + i) != b.shadow[i] {
                    let _ = write!(out, " CORRUPT id={} at={}", b.id, i);
                    break;
                }
            }
            if b.al != 0 && (self.base + b.off) % b.al != 0 {
                let _ = write!(out, " MISALIGNED id={}", b.id);
            }
            if b.off + b.len > self.arena.verif_capacity() {
                let _ = write!(out, " OUTOFBOUNDS id={}", b.id);
            }
        }
        for i in 0..self.live.len() {
            for j in (i + 1)..self.live.len() {
                let (a, b) = (&self.live[i], &self.live[j]);
                if a.len > 0 && b.len > 0 && a.off < b.off + b.len && b.off < a.off + a.len {
                    let _ = write!(out, " OVERLAP id={} id={}", a.id, b.id);
                }
            }
        }
        out.push('\n');
    }
}

pub fn run(input: &str, output: &str) -> ExitCode {
    let text = fs::read_to_string(input).expect("read input");
    let mut out = String::new();
    let mut client: Option<Client> = None;
    for line in text.lines() {
        let t: Vec<&str> = line.split_whitespace().collect();
        if t.is_empty() {
            continue;
        }
        if t[0] == "H" {
            let cap: usize = t[2].parse().unwrap();
            let arena = Arena::new(cap).expect("reserve");
            let base = arena.verif_base() as usize;
            // base modulo 2^32 is enough for every alignment the histories request
            let _ = writeln!(out, "H {} cap={} base={}", t[1], arena.verif_capacity(), base % (1usize << 32));
            client = Some(Client { arena, base, live: Vec::new(), next: 0, marks: Vec::new() });
            continue;
        }
        let c = client.as_mut().expect("history header first");
        let n = |i: usize| -> i64 { t[i].parse().unwrap() };
        match t[0] {
            "A" | "Z" => {
                let bytes = n(1) as usize;
                let al = 1usize << n(2);
                let layout = Layout::from_size_align(bytes, al).unwrap();
                let r = if t[0] == "A" {
                    c.arena.allocate(layout)
                } else {
                    c.arena.allocate_zeroed(layout)
                };
                match r {
                    Ok(p) => {
                        let off = p.cast::<u8>().as_ptr() as usize - c.base;
                        let len = p.len();
                        let init = if t[0] == "Z" { len } else { 0 };
                        c.live.insert(
                            0,
                            Blk { id: c.next, off, len, al, init, shadow: vec![0u8; init] },
                        );
                        c.next += 1;
                        let _ = write!(out, "blk 1 {off} {len}");
                    }
                    Err(_) => {
                        let _ = write!(out, "blk 0 0 0");
                    }
                }
            }
            "G" => match c.pick(n(1) as usize) {
                None => out.push_str("none"),
                Some(k) => {
                    let zeroed = n(3) != 0;
                    let (off, len, al) = (c.live[k].off, c.live[k].len, c.live[k].al);
                    let ns = len + n(2) as usize;
                    let old = Layout::from_size_align(len, al).unwrap();
                    let new = Layout::from_size_align(ns, al).unwrap();
                    let r = unsafe {
                        if zeroed {
                            c.arena.grow_zeroed(c.ptr(off), old, new)
                        } else {
                            c.arena.grow(c.ptr(off), old, new)
                        }
                    };
                    match r {
                        Ok(p) => {
                            let noff = p.cast::<u8>().as_ptr() as usize - c.base;
                            let nlen = p.len();
                            let b = &mut c.live[k];
                            b.off = noff;
                            if zeroed && b.init == b.len {
                                b.shadow.resize(nlen, 0);
                                b.init = nlen;
                            }
                            b.len = nlen;
                            let _ = write!(out, "blk 1 {noff} {nlen}");
                        }
                        Err(_) => {
                            let _ = write!(out, "blk 0 0 0");
                        }
                    }
                }
            },
            "S" => match c.pick(n(1) as usize) {
                None => out.push_str("none"),
                Some(k) => {
                    let (off, len, al) = (c.live[k].off, c.live[k].len, c.live[k].al);
                    if off + len == c.arena.offset() {
                        let ns = len - (n(2) as usize % (len + 1));
                        let old = Layout::from_size_align(len, al).unwrap();
                        let new = Layout::from_size_align(ns, al).unwrap();
                        let p = unsafe { c.arena.shrink(c.ptr(off), old, new) }.unwrap();
                        let nlen = p.len();
                        let b = &mut c.live[k];
                        b.len = nlen;
                        b.init = b.init.min(nlen);
                        b.shadow.truncate(b.init);
                        let noff = c.arena.offset();
                        c.live.retain(|b| b.off + b.len <= noff);
                        c.marks.retain(|m| *m <= noff);
                        let _ = write!(out, "blk 1 {off} {nlen}");
                    } else {
                        out.push_str("none");
                    }
                }
            },
            "R" => {
                let to = (n(1) as usize) % (c.arena.offset() + 1);
                c.do_reset(to);
                let _ = write!(out, "blk 1 {to} 0");
            }
            "RB" => match c.pick(n(1) as usize) {
                None => out.push_str("none"),
                Some(k) => {
                    let to = c.live[k].off;
                    c.do_reset(to);
                    let _ = write!(out, "blk 1 {to} 0");
                }
            },
            "D" => {
                c.arena.decommit();
                out.push_str("none");
            }
            "W" => match c.pick(n(1) as usize) {
                None => out.push_str("none"),
                Some(k) => {
                    let seed = n(2);
                    let (off, len) = (c.live[k].off, c.live[k].len);
                    let mut sh = Vec::with_capacity(len);
                    for i in 0..len {
                        let v = pattern(seed, i as i64);
                        unsafe { *((c.base + off + i) as *mut u8) = v };
                        sh.push(v);
                    }
                    let b = &mut c.live[k];
                    b.init = len;
                    b.shadow = sh;
                    let _ = write!(out, "blk 1 {off} {len}");
                }
            },
            "B" => {
                c.marks.insert(0, c.arena.offset());
                out.push_str("none");
            }
            "E" => {
                if c.marks.is_empty() {
                    out.push_str("none");
                } else {
                    let mk = c.marks.remove(0);
                    c.do_reset(mk);
                    c.arena.decommit();
                    let _ = write!(out, "blk 1 {mk} 0");
                }
            }
            other => panic!("unknown op {other}"),
        }
        c.observe(&mut out);
    }
    fs::write(output, out).expect("write output");
    ExitCode::SUCCESS
}
