//! C11: drives real arenas with op histories; mirrors the Coq client (theories/Bump.v) and,
//! for the K* ops, the arena's client containers of src/arena/string.rs (theories/BumpVec.v):
//! ArenaString and Vec<u32, &Arena> living in the same arena as the raw blocks.  Every
//! container has a shadow copy of its contents in an ordinary Vec<u8>; its buffer is a
//! ledger block like any other (disjointness, bounds, byte-for-byte re-read after each op).
use std::alloc::{Allocator, Layout};
use std::fmt::Write as _;
use std::fs;
use std::ops::Bound;
use std::process::ExitCode;
use std::ptr::NonNull;

use naijascript::arena::{Arena, ArenaString};
use naijascript::arena_format;

struct Blk {
    id: i64,
    off: usize,
    len: usize,
    al: usize,
    init: usize,
    shadow: Vec<u8>,
    owner: Option<i64>,
}

enum Cont {
    S(ArenaString<'static>),
    V(Vec<u32, &'static Arena>),
}

impl Cont {
    fn esz(&self) -> usize {
        match self {
            Cont::S(_) => 1,
            Cont::V(_) => 4,
        }
    }
    /// (address, length in bytes, capacity in bytes)
    fn raw(&self) -> (usize, usize, usize) {
        match self {
            Cont::S(s) => (s.as_bytes().as_ptr() as usize, s.len(), s.capacity()),
            Cont::V(v) => (v.as_ptr() as usize, v.len() * 4, v.capacity() * 4),
        }
    }
    fn bytes(&self) -> &[u8] {
        match self {
            Cont::S(s) => s.as_bytes(),
            Cont::V(v) => unsafe { std::slice::from_raw_parts(v.as_ptr().cast::<u8>(), v.len() * 4) },
        }
    }
}

struct Kont {
    cid: i64,
    blk: Option<i64>,
    cont: Cont,
    shadow: Vec<u8>,
}

const CHUNK: usize = 65536;
/// BumpVec.read_limit: clone / replace_once are driven on containers up to this many bytes
const READ_LIMIT: usize = 2048;

fn data(spec: &str) -> Vec<u8> {
    if spec == "-" {
        Vec::new()
    } else if let Some(h) = spec.strip_prefix('x') {
        (0..h.len() / 2).map(|i| u8::from_str_radix(&h[2 * i..2 * i + 2], 16).unwrap()).collect()
    } else if let Some(r) = spec.strip_prefix('p') {
        let (s, n) = r.split_once(':').unwrap();
        let (s, n): (i64, i64) = (s.parse().unwrap(), n.parse().unwrap());
        (0..n).map(|i| 32 + (s + 7 * i).rem_euclid(95) as u8).collect()
    } else {
        panic!("bad data spec {spec}")
    }
}

fn is_cont(b: u8) -> bool {
    (128..192).contains(&b)
}

/// str::is_char_boundary snapping (same definition as BumpVec.snap).
fn snap(sh: &[u8], i: usize) -> usize {
    let len = sh.len();
    if len <= i {
        len
    } else if i == 0 {
        0
    } else if !is_cont(sh[i]) {
        i
    } else if !is_cont(sh[i - 1]) || i <= 1 {
        i - 1
    } else if !is_cont(sh[i - 2]) || i <= 2 {
        i - 2
    } else {
        i - 3
    }
}

fn to_u32s(d: &[u8]) -> Vec<u32> {
    d.chunks_exact(4).map(|c| u32::from_le_bytes([c[0], c[1], c[2], c[3]])).collect()
}

fn pattern(seed: i64, i: i64) -> u8 {
    ((seed + i * 7).rem_euclid(251)) as u8
}

struct Client {
    arena: &'static Arena,
    base: usize,
    live: Vec<Blk>, // newest first
    next: i64,
    marks: Vec<usize>,
    konts: Vec<Kont>, // oldest first
    knext: i64,
    /// comment appended to the output line after " #" (not compared with the model):
    /// how the container's buffer changed in this op
    tag: std::cell::RefCell<String>,
}

impl Drop for Client {
    fn drop(&mut self) {
        self.konts.clear();
        unsafe { drop(Box::from_raw(std::ptr::from_ref::<Arena>(self.arena).cast_mut())) };
    }
}

impl Client {
    fn kpick(&self, idx: usize) -> Option<usize> {
        if self.konts.is_empty() { None } else { Some(idx % self.konts.len()) }
    }

    /// history guard (BumpVec.guard_ok): the worst-case request certainly fits
    fn guard(&self, al: usize, need: usize) -> bool {
        let x = self.arena.offset() + al + need;
        ((x + CHUNK - 1) & !(CHUNK - 1)) <= self.arena.verif_capacity()
    }

    fn guard_grow(&self, j: usize, add_elems: usize) -> bool {
        let k = &self.konts[j];
        let esz = k.cont.esz();
        let (_, lenb, capb) = k.cont.raw();
        let (len, cap) = (lenb / esz, capb / esz);
        if add_elems <= cap - len {
            true
        } else {
            self.guard(esz, 8.max((cap * 2).max(len + add_elems)) * esz)
        }
    }

    /// containers whose buffer left the ledger are gone
    fn prune(&mut self) {
        let live = &self.live;
        self.konts.retain(|k| match k.blk {
            None => true,
            Some(id) => live.iter().any(|b| b.id == id),
        });
    }

    /// brings the ledger block of container j up to date and prints the container's view
    fn sync(&mut self, j: usize, out: &mut String) {
        let (ptr, lenb, capb) = self.konts[j].cont.raw();
        let esz = self.konts[j].cont.esz();
        if capb == 0 {
            assert!(self.konts[j].blk.is_none(), "a container lost its buffer");
            out.push_str("vec 0 0 0");
            return;
        }
        let off = ptr - self.base;
        let shadow = self.konts[j].shadow.clone();
        match self.konts[j].blk {
            Some(id) => {
                let b = self.live.iter_mut().find(|b| b.id == id).expect("owned block in ledger");
                let newest = self.arena.offset() == off + capb;
                *self.tag.borrow_mut() = if b.off != off {
                    " #reloc".to_string()
                } else if b.len < capb {
                    " #inplace".to_string()
                } else if b.len > capb {
                    " #shrunk".to_string()
                } else if newest {
                    " #same-tail".to_string()
                } else {
                    " #same-inner".to_string()
                };
                b.off = off;
                b.len = capb;
                b.init = shadow.len();
                b.shadow = shadow;
            }
            None => {
                let id = self.next;
                self.next += 1;
                self.live.insert(
                    0,
                    Blk { id, off, len: capb, al: esz, init: shadow.len(), shadow, owner: Some(self.konts[j].cid) },
                );
                self.konts[j].blk = Some(id);
                *self.tag.borrow_mut() = " #first".to_string();
            }
        }
        let _ = write!(out, "vec {off} {lenb} {capb}");
    }

    fn add_kont(&mut self, cont: Cont, shadow: Vec<u8>, out: &mut String) {
        let cid = self.knext;
        self.knext += 1;
        self.konts.push(Kont { cid, blk: None, cont, shadow });
        let j = self.konts.len() - 1;
        self.sync(j, out);
    }

    fn owned(&self, k: usize) -> bool {
        self.live[k].owner.is_some()
    }

    fn ptr(&self, off: usize) -> NonNull<u8> {
        NonNull::new((self.base + off) as *mut u8).unwrap()
    }

    fn read(&self, off: usize) -> u8 {
        unsafe { *((self.base + off) as *const u8) }
    }

    fn pick(&self, idx: usize) -> Option<usize> {
        if self.live.is_empty() { None } else { Some(idx % self.live.len()) }
    }

    fn do_reset(&mut self, to: usize) {
        unsafe { self.arena.reset(to) };
        self.live.retain(|b| b.off + b.len <= to);
        self.marks.retain(|m| *m <= to);
        self.prune();
    }

    fn observe(&self, out: &mut String) {
        let mut acc: i64 = 0;
        for b in &self.live {
            let s = if b.init == 0 {
                b.id
            } else {
                b.id
                    + 3 * i64::from(self.read(b.off))
                    + 5 * i64::from(self.read(b.off + b.init - 1))
                    + 7 * i64::from(self.read(b.off + b.init / 2))
            };
            acc = (acc * 31 + s).rem_euclid(1_000_003);
        }
        let _ = write!(
            out,
            " | {} {} {} {}",
            self.arena.offset(),
            self.arena.verif_commit(),
            self.live.len(),
            acc
        );
        // Full shadow comparison: every initialised byte of every live block.
        for b in &self.live {
            for i in 0..b.init {
                if self.read(b.off + i) != b.shadow[i] {
                    let _ = write!(out, " CORRUPT id={} at={}", b.id, i);
                    break;
                }
            }
            if b.al != 0 && (self.base + b.off) % b.al != 0 {
                let _ = write!(out, " MISALIGNED id={}", b.id);
            }
            if b.off + b.len > self.arena.verif_capacity() {
                let _ = write!(out, " OUTOFBOUNDS id={}", b.id);
            }
        }
        // Containers: the contents seen through the container's own API equal the shadow copy.
        for k in &self.konts {
            let b = k.cont.bytes();
            if b.len() != k.shadow.len() {
                let _ = write!(out, " LENGTH cid={} {}!={}", k.cid, b.len(), k.shadow.len());
            } else if let Some(i) = (0..b.len()).find(|&i| b[i] != k.shadow[i]) {
                let _ = write!(out, " CONTENT cid={} at={}", k.cid, i);
            }
            let (_, lenb, capb) = k.cont.raw();
            if lenb > capb {
                let _ = write!(out, " LENGTH cid={} over capacity", k.cid);
            }
        }
        for i in 0..self.live.len() {
            for j in (i + 1)..self.live.len() {
                let (a, b) = (&self.live[i], &self.live[j]);
                if a.len > 0 && b.len > 0 && a.off < b.off + b.len && b.off < a.off + a.len {
                    let _ = write!(out, " OVERLAP id={} id={}", a.id, b.id);
                }
            }
        }
        out.push_str(&self.tag.borrow());
        self.tag.borrow_mut().clear();
        out.push('\n');
    }
}

pub fn run(input: &str, output: &str) -> ExitCode {
    let text = fs::read_to_string(input).expect("read input");
    let mut out = String::new();
    let mut client: Option<Client> = None;
    let mut dead = false;
    for line in text.lines() {
        let t: Vec<&str> = line.split_whitespace().collect();
        if t.is_empty() {
            continue;
        }
        if t[0] == "H" {
            dead = false;
            let cap: usize = t[2].parse().unwrap();
            drop(client.take()); // frees the previous arena
            let arena: &'static Arena = Box::leak(Box::new(Arena::new(cap).expect("reserve")));
            let base = arena.verif_base() as usize;
            // base modulo 2^32 is enough for every alignment the histories request
            let _ = writeln!(out, "H {} cap={} base={}", t[1], arena.verif_capacity(), base % (1usize << 32));
            client = Some(Client {
                arena,
                base,
                live: Vec::new(),
                next: 0,
                marks: Vec::new(),
                konts: Vec::new(),
                knext: 0,
                tag: std::cell::RefCell::new(String::new()),
            });
            continue;
        }
        if dead {
            continue;
        }
        let c = client.as_mut().expect("history header first");
        let n = |i: usize| -> i64 { t[i].parse().unwrap() };
        match t[0] {
            "A" | "Z" => {
                let bytes = n(1) as usize;
                let al = 1usize << n(2);
                let layout = Layout::from_size_align(bytes, al).unwrap();
                let r = if t[0] == "A" {
                    c.arena.allocate(layout)
                } else {
                    c.arena.allocate_zeroed(layout)
                };
                match r {
                    Ok(p) => {
                        let off = p.cast::<u8>().as_ptr() as usize - c.base;
                        let len = p.len();
                        let init = if t[0] == "Z" { len } else { 0 };
                        c.live.insert(
                            0,
                            Blk { id: c.next, off, len, al, init, shadow: vec![0u8; init], owner: None },
                        );
                        c.next += 1;
                        let _ = write!(out, "blk 1 {off} {len}");
                    }
                    Err(_) => {
                        let _ = write!(out, "blk 0 0 0");
                    }
                }
            }
            "G" => match c.pick(n(1) as usize) {
                None => out.push_str("none"),
                Some(k) if c.owned(k) => out.push_str("none"),
                Some(k) => {
                    let zeroed = n(3) != 0;
                    let (off, len, al) = (c.live[k].off, c.live[k].len, c.live[k].al);
                    let ns = len + n(2) as usize;
                    let old = Layout::from_size_align(len, al).unwrap();
                    let new = Layout::from_size_align(ns, al).unwrap();
                    let r = unsafe {
                        if zeroed {
                            c.arena.grow_zeroed(c.ptr(off), old, new)
                        } else {
                            c.arena.grow(c.ptr(off), old, new)
                        }
                    };
                    match r {
                        Ok(p) => {
                            let noff = p.cast::<u8>().as_ptr() as usize - c.base;
                            let nlen = p.len();
                            let b = &mut c.live[k];
                            b.off = noff;
                            if zeroed && b.init == b.len {
                                b.shadow.resize(nlen, 0);
                                b.init = nlen;
                            }
                            b.len = nlen;
                            let _ = write!(out, "blk 1 {noff} {nlen}");
                        }
                        Err(_) => {
                            let _ = write!(out, "blk 0 0 0");
                        }
                    }
                }
            },
            "S" => match c.pick(n(1) as usize) {
                None => out.push_str("none"),
                Some(k) if c.owned(k) => out.push_str("none"),
                Some(k) => {
                    let (off, len, al) = (c.live[k].off, c.live[k].len, c.live[k].al);
                    if off + len == c.arena.offset() {
                        let ns = len - (n(2) as usize % (len + 1));
                        let old = Layout::from_size_align(len, al).unwrap();
                        let new = Layout::from_size_align(ns, al).unwrap();
                        let p = unsafe { c.arena.shrink(c.ptr(off), old, new) }.unwrap();
                        let nlen = p.len();
                        let b = &mut c.live[k];
                        b.len = nlen;
                        b.init = b.init.min(nlen);
                        b.shadow.truncate(b.init);
                        let noff = c.arena.offset();
                        c.live.retain(|b| b.off + b.len <= noff);
                        c.marks.retain(|m| *m <= noff);
                        c.prune();
                        let _ = write!(out, "blk 1 {off} {nlen}");
                    } else {
                        out.push_str("none");
                    }
                }
            },
            "R" => {
                let to = (n(1) as usize) % (c.arena.offset() + 1);
                c.do_reset(to);
                let _ = write!(out, "blk 1 {to} 0");
            }
            "RB" => match c.pick(n(1) as usize) {
                None => out.push_str("none"),
                Some(k) => {
                    let to = c.live[k].off;
                    c.do_reset(to);
                    let _ = write!(out, "blk 1 {to} 0");
                }
            },
            "D" => {
                c.arena.decommit();
                out.push_str("none");
            }
            "W" => match c.pick(n(1) as usize) {
                None => out.push_str("none"),
                Some(k) if c.owned(k) => out.push_str("none"),
                Some(k) => {
                    let seed = n(2);
                    let (off, len) = (c.live[k].off, c.live[k].len);
                    let mut sh = Vec::with_capacity(len);
                    for i in 0..len {
                        let v = pattern(seed, i as i64);
                        unsafe { *((c.base + off + i) as *mut u8) = v };
                        sh.push(v);
                    }
                    let b = &mut c.live[k];
                    b.init = len;
                    b.shadow = sh;
                    let _ = write!(out, "blk 1 {off} {len}");
                }
            },
            "B" => {
                c.marks.insert(0, c.arena.offset());
                out.push_str("none");
            }
            "E" => {
                if c.marks.is_empty() {
                    out.push_str("none");
                } else {
                    let mk = c.marks.remove(0);
                    c.do_reset(mk);
                    c.arena.decommit();
                    let _ = write!(out, "blk 1 {mk} 0");
                }
            }
            k if k.starts_with('K') => kop(c, &t, &mut out),
            other => panic!("unknown op {other}"),
        }
        let mark = out.len();
        c.observe(&mut out);
        // A history ends at its first oracle failure: the arena's contents are no longer what
        // the shadow says, and going on could only turn the finding into a crash of this driver.
        if ["CORRUPT", "MISALIGNED", "OUTOFBOUNDS", "OVERLAP", "CONTENT", "LENGTH"]
            .iter()
            .any(|w| out[mark..].contains(w))
        {
            dead = true;
        }
    }
    fs::write(output, out).expect("write output");
    ExitCode::SUCCESS
}

/// Container ops (BumpVec.kstep).  Every growth path of src/arena/string.rs that is reachable
/// through the crate's public API is driven here; the mapping op -> method is in lib/props/c11.py.
fn kop(c: &mut Client, t: &[&str], out: &mut String) {
    let n = |i: usize| -> usize { t[i].parse().unwrap() };
    let arena = c.arena;
    match t[0] {
        // KN kind cap: new_in / with_capacity_in
        "KN" => {
            let (kind, cap) = (n(1), n(2));
            let esz = if kind == 0 { 1 } else { 4 };
            if cap > 0 && !c.guard(esz, 8.max(cap) * esz) {
                out.push_str("none");
                return;
            }
            let cont = match (kind, cap) {
                (0, 0) => Cont::S(ArenaString::new_in(arena)),
                (0, _) => Cont::S(ArenaString::with_capacity_in(cap, arena)),
                (_, 0) => Cont::V(Vec::new_in(arena)),
                _ => Cont::V(Vec::with_capacity_in(cap, arena)),
            };
            c.add_kont(cont, Vec::new(), out);
        }
        // KF variant data: from_str and the other constructors that take complete contents
        "KF" => {
            let d = data(t[2]);
            if !d.is_empty() && !c.guard(1, 8.max(d.len())) {
                out.push_str("none");
                return;
            }
            let text = std::str::from_utf8(&d).expect("generator emits valid UTF-8");
            let mk = || {
                let mut v: Vec<u8, &'static Arena> = Vec::with_capacity_in(d.len(), arena);
                v.extend_from_slice(&d);
                v
            };
            let s = match n(1) {
                0 => ArenaString::from_str(arena, text),
                1 => unsafe { ArenaString::from_utf8_unchecked(mk()) },
                _ => ArenaString::from_utf8_lossy_owned(mk()),
            };
            c.add_kont(Cont::S(s), d, out);
        }
        // KA data: arena_format!("{}", text) = new_in + one write_str
        "KA" => {
            let d = data(t[1]);
            if !d.is_empty() && !c.guard(1, 8.max(d.len())) {
                out.push_str("none");
                return;
            }
            let text = std::str::from_utf8(&d).expect("generator emits valid UTF-8");
            let s = arena_format!(arena, "{}", text);
            c.add_kont(Cont::S(s), d, out);
        }
        // KD vi: Clone
        "KD" => match c.kpick(n(1)) {
            None => out.push_str("none"),
            Some(j) => {
                let esz = c.konts[j].cont.esz();
                let sh = c.konts[j].shadow.clone();
                if sh.len() > READ_LIMIT || (!sh.is_empty() && !c.guard(esz, 8.max(sh.len() / esz) * esz)) {
                    out.push_str("none");
                    return;
                }
                let cont = match &c.konts[j].cont {
                    Cont::S(s) => Cont::S(s.clone()),
                    Cont::V(v) => Cont::V(v.clone()),
                };
                c.add_kont(cont, sh, out);
            }
        },
        // KP vi variant data: push_str / write_str / extend_from_slice
        // KC vi variant cp:   push(char) / write_char           (strings only)
        // KR vi cp count:     push_repeat                        (strings only)
        "KP" | "KC" | "KR" => match c.kpick(n(1)) {
            None => out.push_str("none"),
            Some(j) => {
                let sonly = t[0] != "KP";
                let esz = c.konts[j].cont.esz();
                if sonly && esz != 1 {
                    out.push_str("none");
                    return;
                }
                let mut d = match t[0] {
                    "KP" => data(t[3]),
                    "KC" => char::from_u32(n(3) as u32).unwrap().to_string().into_bytes(),
                    _ => char::from_u32(n(2) as u32).unwrap().to_string().repeat(n(3)).into_bytes(),
                };
                d.truncate(d.len() / esz * esz);
                if !c.guard_grow(j, d.len() / esz) {
                    out.push_str("none");
                    return;
                }
                let k = &mut c.konts[j];
                match (&mut k.cont, t[0]) {
                    (Cont::S(s), "KP") => {
                        let text = std::str::from_utf8(&d).expect("valid UTF-8");
                        match n(2) {
                            0 => s.push_str(text),
                            1 => std::fmt::Write::write_str(s, text).unwrap(),
                            _ => unsafe { s.as_mut_vec() }.extend_from_slice(&d),
                        }
                    }
                    (Cont::V(v), "KP") => v.extend_from_slice(&to_u32s(&d)),
                    (Cont::S(s), "KC") => {
                        let ch = char::from_u32(n(3) as u32).unwrap();
                        match n(2) {
                            0 => s.push(ch),
                            _ => write!(s, "{ch}").unwrap(),
                        }
                    }
                    (Cont::S(s), _) => s.push_repeat(char::from_u32(n(2) as u32).unwrap(), n(3)),
                    _ => unreachable!(),
                }
                k.shadow.extend_from_slice(&d);
                c.sync(j, out);
            }
        },
        // KV vi add / KE vi add: reserve / reserve_exact
        "KV" | "KE" => match c.kpick(n(1)) {
            None => out.push_str("none"),
            Some(j) => {
                let add = n(2);
                if !c.guard_grow(j, add) {
                    out.push_str("none");
                    return;
                }
                match (&mut c.konts[j].cont, t[0]) {
                    (Cont::S(s), "KV") => s.reserve(add),
                    (Cont::S(s), _) => s.reserve_exact(add),
                    (Cont::V(v), "KV") => v.reserve(add),
                    (Cont::V(v), _) => v.reserve_exact(add),
                }
                c.sync(j, out);
            }
        },
        // KX vi form start end data: ArenaString::replace_range
        // KO vi a b data:            replace_once_in_place(current[a..b], data)
        "KX" | "KO" => match c.kpick(n(1)) {
            None => out.push_str("none"),
            Some(j) => {
                if c.konts[j].cont.esz() != 1 {
                    out.push_str("none");
                    return;
                }
                let once = t[0] == "KO";
                if once && c.konts[j].shadow.len() > READ_LIMIT {
                    out.push_str("none");
                    return;
                }
                let (a, b) = if once { (n(2), n(3)) } else { (n(3), n(4)) };
                let d = data(t[if once { 4 } else { 5 }]);
                let sh = c.konts[j].shadow.clone();
                let s0 = snap(&sh, a);
                let e0 = s0.max(snap(&sh, b));
                // where the splice lands (the shadow's own search for replace_once)
                let (s1, e1) = if once {
                    let needle = &sh[s0..e0];
                    match (0..=sh.len() - needle.len()).find(|&i| &sh[i..i + needle.len()] == needle) {
                        Some(i) => (i, i + needle.len()),
                        None => unreachable!("the needle is a substring"),
                    }
                } else {
                    (s0, e0)
                };
                let del = e1 - s1;
                if del == 0 && d.is_empty() && once {
                    // replace_range(0..0, "") returns before touching anything
                }
                if d.len() > del && !c.guard_grow(j, d.len() - del) {
                    out.push_str("none");
                    return;
                }
                let text = std::str::from_utf8(&d).expect("valid UTF-8").to_owned();
                let Cont::S(s) = &mut c.konts[j].cont else { unreachable!() };
                if once {
                    let old = std::str::from_utf8(&sh[s0..e0]).expect("snapped").to_owned();
                    s.replace_once_in_place(&old, &text);
                } else {
                    let form = n(2);
                    let len = sh.len();
                    match form {
                        1 if e0 > s0 => s.replace_range(s0..=e0 - 1, &text),
                        2 if s0 == 0 => s.replace_range(..e0, &text),
                        3 if e0 == len => s.replace_range(s0.., &text),
                        4 if s0 == 0 && e0 == len => s.replace_range(.., &text),
                        5 if s0 >= 1 && e0 > s0 => {
                            s.replace_range((Bound::Excluded(s0 - 1), Bound::Included(e0 - 1)), &text);
                        }
                        6 if s0 >= 1 => s.replace_range((Bound::Excluded(s0 - 1), Bound::Excluded(e0)), &text),
                        _ => s.replace_range(s0..e0, &text),
                    }
                }
                let k = &mut c.konts[j];
                k.shadow.splice(s1..e1, d.iter().copied());
                c.sync(j, out);
            }
        },
        // KS vi: shrink_to_fit (only where the API allows it: the buffer is the last block)
        "KS" => match c.kpick(n(1)) {
            None => out.push_str("none"),
            Some(j) => {
                let (ptr, lenb, capb) = c.konts[j].cont.raw();
                if capb > 0 && ptr - c.base + capb == c.arena.offset() && 0 < lenb && lenb < capb {
                    match &mut c.konts[j].cont {
                        Cont::S(s) => s.shrink_to_fit(),
                        Cont::V(v) => v.shrink_to_fit(),
                    }
                    let id = c.konts[j].blk.unwrap();
                    c.live.iter_mut().find(|b| b.id == id).unwrap().len = lenb;
                    let noff = c.arena.offset();
                    c.live.retain(|b| b.off + b.len <= noff);
                    c.marks.retain(|m| *m <= noff);
                    c.prune();
                    let j = c.konts.iter().position(|k| k.blk == Some(id)).expect("container survives");
                    c.sync(j, out);
                } else {
                    out.push_str("none");
                }
            }
        },
        // KZ vi: clear
        "KZ" => match c.kpick(n(1)) {
            None => out.push_str("none"),
            Some(j) => {
                match &mut c.konts[j].cont {
                    Cont::S(s) => s.clear(),
                    Cont::V(v) => v.clear(),
                }
                c.konts[j].shadow.clear();
                c.sync(j, out);
            }
        },
        other => panic!("unknown container op {other}"),
    }
}
