//! C16: drives the helper child (harness/helpers/c16_child.rs) through the REAL runtime: a
//! NaijaScript program using the process built-ins, a host policy with the chosen capture cap
//! and poll interval, the chosen timeout.  One case per input line:
//!
//!   <id> <pin> <p1> <p2> <cap> <timeout_ms> <poll_ms> <n1> <k1> <n2> <k2> <actions,comma,separated> [<place> <churn>]
//!
//! place / churn: where in the script run() is evaluated and how the result travels (top level, returned
//! from a function directly or through a local, inside an array, through nested calls, from a loop ...) and
//! what allocates before the fields are read (see build_script).  The streams are read twice.
//!
//! pin = 1 pins this thread (hence the reader threads and the child, which inherit the mask) to
//! one CPU for the duration of the run, which makes coarse interleavings (child writes and exits
//! before any reader runs, ...) likely.  p = c|i|n.  Output per case, one line:
//!
//!   <id> ok code=<int|null> out=<null|full|prefix:K|other:L> err=<...> success=<0|1> pid=<gone|alive:S|unknown> t=<ms>
//!   <id> err kind=<timeout|limit|utf8|spec|spawn|other> stream=<stdout|stderr|-> pid=... t=<ms>
//!
//! <timeout_ms> may be "-" (the script never calls timeout_ms()); a trailing token
//! caps=<field>:<value>,... sets further fields of the host's ProcessCaps.
//!   <id> panic ...
//!
//! What the script sees is taken from Runtime.output / Runtime.errors.  Environment:
//! C16_HELPER = path of the helper binary, C16_DIR = scratch directory for pid files.
use std::env;
use std::fmt::Write as _;
use std::fs;
use std::io::Write as _;
use std::panic;
use std::process::ExitCode;
use std::time::Instant;

use naijascript::arena::Arena;
use naijascript::process::{HostPolicy, ProcessCaps};
use naijascript::resolver::Resolver;
use naijascript::runtime::{Runtime, Value};
use naijascript::syntax::parser::Parser;
use naijascript::syntax::scanner::Lexer;

const MEBI: usize = 1024 * 1024;

fn pattern_byte(stream: u8, n: usize, kind: u8, i: usize) -> u8 {
    let base = if stream == 1 { 97u8 } else { 65u8 };
    match kind {
        b'a' => base + (i % 26) as u8,
        b'u' => {
            let full = (n / 3) * 3;
            if i < full {
                match i % 3 {
                    0 => 0xE2,
                    1 => 0x82,
                    _ => {
                        if stream == 1 {
                            0xAC
                        } else {
                            0xAD
                        }
                    }
                }
            } else if stream == 1 {
                120
            } else {
                88
            }
        }
        b'b' => {
            if i == n / 2 {
                0xFF
            } else {
                base + (i % 26) as u8
            }
        }
        b'B' => {
            if i + 1 == n {
                0xFF
            } else {
                base + (i % 26) as u8
            }
        }
        // ends inside a multi-byte character (E2 82 without its third byte)
        b'T' => {
            if i + 2 == n || (n == 1 && i == 0) {
                0xE2
            } else if i + 1 == n {
                0x82
            } else {
                base + (i % 26) as u8
            }
        }
        _ => b'?',
    }
}

fn pattern(stream: u8, n: usize, kind: u8) -> Vec<u8> {
    (0..n).map(|i| pattern_byte(stream, n, kind, i)).collect()
}

enum Obs {
    Str(Vec<u8>),
    Num(f64),
    Bool(bool),
    Null,
    Other,
}

struct RunObs {
    outputs: Vec<Obs>,
    errors: Vec<(String, String)>,
    front_end_errors: bool,
}

fn run_script(src: &str, policy: HostPolicy) -> RunObs {
    let arena = Arena::new(64 * MEBI).unwrap();
    let frame = Arena::new(16 * MEBI).unwrap();
    let lexer = Lexer::new(src, &arena);
    let mut parser = Parser::new(lexer, &arena);
    let (root, parse_errors) = parser.parse_program();
    if !parse_errors.diagnostics.is_empty() {
        return RunObs { outputs: vec![], errors: vec![], front_end_errors: true };
    }
    let mut resolver = Resolver::new(&arena);
    resolver.resolve(root);
    if resolver.errors.has_errors() {
        return RunObs { outputs: vec![], errors: vec![], front_end_errors: true };
    }
    let mut runtime = Runtime::new_with_host_policy(&arena, Some(&frame), policy);
    runtime.run_with_analysis(root, &resolver.facts, resolver.optimization_plan.as_ref());
    let outputs = runtime
        .output
        .iter()
        .map(|v| match v {
            Value::Str(s) => Obs::Str(s.as_bytes().to_vec()),
            Value::Number(n) => Obs::Num(*n),
            Value::Bool(b) => Obs::Bool(*b),
            Value::Null => Obs::Null,
            _ => Obs::Other,
        })
        .collect();
    let errors = runtime
        .errors
        .diagnostics
        .iter()
        .map(|d| {
            let labels: Vec<String> = d.labels.iter().map(|l| l.message.to_string()).collect();
            (d.message.to_string(), labels.join(" / "))
        })
        .collect();
    RunObs { outputs, errors, front_end_errors: false }
}

fn desc(expected: &[u8], o: &Obs) -> String {
    match o {
        Obs::Null => "null".to_string(),
        Obs::Str(b) => {
            if b.as_slice() == expected {
                "full".to_string()
            } else if b.len() < expected.len() && &expected[..b.len()] == b.as_slice() {
                format!("prefix:{}", b.len())
            } else {
                format!("other:{}", b.len())
            }
        }
        _ => "other:-1".to_string(),
    }
}

fn pid_state(pidfile: &str) -> String {
    let Ok(text) = fs::read_to_string(pidfile) else {
        return "unknown".to_string();
    };
    let Ok(pid) = text.trim().parse::<i32>() else {
        return "unknown".to_string();
    };
    let rc = unsafe { libc::kill(pid, 0) };
    if rc != 0 {
        return "gone".to_string();
    }
    // exists: running or zombie (a zombie means it was never waited for)
    let stat = fs::read_to_string(format!("/proc/{pid}/stat")).unwrap_or_default();
    let state = stat.rsplit(')').next().and_then(|r| r.split_whitespace().next().map(str::to_string));
    format!("alive:{}", state.unwrap_or_else(|| "?".to_string()))
}

fn with_pin<R>(pin: bool, f: impl FnOnce() -> R) -> R {
    if !pin {
        return f();
    }
    unsafe {
        let mut old: libc::cpu_set_t = std::mem::zeroed();
        let have_old = libc::sched_getaffinity(0, std::mem::size_of::<libc::cpu_set_t>(), &mut old) == 0;
        let mut one: libc::cpu_set_t = std::mem::zeroed();
        // first CPU of the current mask
        let mut cpu = 0;
        if have_old {
            for i in 0..libc::CPU_SETSIZE as usize {
                if libc::CPU_ISSET(i, &old) {
                    cpu = i;
                    break;
                }
            }
        }
        libc::CPU_SET(cpu, &mut one);
        libc::sched_setaffinity(0, std::mem::size_of::<libc::cpu_set_t>(), &one);
        let r = f();
        if have_old {
            libc::sched_setaffinity(0, std::mem::size_of::<libc::cpu_set_t>(), &old);
        }
        r
    }
}

fn same_bytes(a: &Obs, b: &Obs) -> bool {
    match (a, b) {
        (Obs::Str(x), Obs::Str(y)) => x == y,
        (Obs::Null, Obs::Null) => true,
        _ => false,
    }
}

fn indent(s: &str) -> String {
    s.lines().map(|l| format!("    {l}\n")).collect()
}

/// The NaijaScript program.  `place` says where run() is evaluated and how its result reaches
/// the variable `res` (or the field array `f`); `churn` says what allocates between obtaining
/// the result and reading its fields.  Output order: success, exit_code, stdout, stderr, then
/// (after more allocation) stdout and stderr again, then the second child's stdout if any.
fn build_script(build: &str, build2: &str, place: &str, churn: &str, size: usize) -> String {
    let mut s = String::new();
    s.push_str(
        "do pad(n) start\n    make s get \"\"\n    make i get 0\n    jasi (i small pass n) start\n        s get s add \"x\"\n        i get i add 1\n    end\n    return s\nend\n\
         do grow(n) start\n    make s get \"yz\"\n    jasi (s.len() small pass n) start\n        s get s add s\n    end\n    return s.len()\nend\n\
         do ident(x) start\n    return x\nend\n\
         do rd_ok(r) start\n    return r.success()\nend\n\
         do rd_code(r) start\n    return r.exit_code()\nend\n\
         do rd_out(r) start\n    return r.stdout()\nend\n\
         do rd_err(r) start\n    return r.stderr()\nend\n",
    );
    let b = indent(build);
    let mut fields = false; // true: the script holds the four fields in array f instead of res
    match place {
        "top" => {
            s.push_str(build);
            s.push_str("make res get cmd.run()\n");
        }
        "fn_direct" | "read_in_fn" => {
            let _ = write!(s, "do runit() start\n{b}    return cmd.run()\nend\nmake res get runit()\n");
        }
        "fn_local" => {
            let _ = write!(s, "do runit() start\n{b}    make r get cmd.run()\n    return r\nend\nmake res get runit()\n");
        }
        "fn_array_lit" => {
            let _ = write!(s, "do runit() start\n{b}    return [cmd.run()]\nend\nmake box get runit()\nmake res get box[0]\n");
        }
        "fn_array_push" => {
            let _ = write!(
                s,
                "do runit() start\n{b}    make a get []\n    a.push(cmd.run())\n    return a\nend\nmake box get runit()\nmake res get box[0]\n"
            );
        }
        "global_push" => {
            let _ = write!(
                s,
                "make box get []\ndo runit() start\n{b}    box.push(cmd.run())\n    return 0\nend\nmake unused get runit()\nmake res get box[0]\n"
            );
        }
        "loop_push" => {
            let _ = write!(
                s,
                "make box get []\nmake i get 0\njasi (i small pass 1) start\n{b}    box.push(cmd.run())\n    i get i add 1\nend\nmake res get box[0]\n"
            );
        }
        "loop_local" => {
            let _ = write!(
                s,
                "make box get []\nmake i get 0\njasi (i small pass 1) start\n{b}    make r get cmd.run()\n    box.push(r)\n    i get i add 1\nend\nmake res get box[0]\n"
            );
        }
        "fn_loop" => {
            // run() inside a loop inside a function; the result is used after the loop
            let _ = write!(
                s,
                "do runit() start\n    make box get []\n    make i get 0\n    jasi (i small pass 1) start\n{}        box.push(cmd.run())\n        i get i add 1\n    end\n    make junk get pad(40)\n    return box[0]\nend\nmake res get runit()\n",
                indent(&b)
            );
        }
        "nested" => {
            let _ = write!(
                s,
                "do inner() start\n{b}    return cmd.run()\nend\ndo middle() start\n    return inner()\nend\ndo outer() start\n    make junk get pad(24)\n    return middle()\nend\nmake res get outer()\n"
            );
        }
        "arg_ident" => {
            let _ = write!(s, "do runit() start\n{b}    return ident(cmd.run())\nend\nmake res get runit()\n");
        }
        "fields_in_fn" => {
            fields = true;
            let _ = write!(
                s,
                "do runit() start\n{b}    make r get cmd.run()\n    return [r.success(), r.exit_code(), r.stdout(), r.stderr()]\nend\nmake f get runit()\n"
            );
        }
        "fields_direct" => {
            fields = true;
            let _ = write!(
                s,
                "do one() start\n{b}    return cmd.run()\nend\ndo runit() start\n    make r get one()\n    make junk get pad(40)\n    return [rd_ok(r), rd_code(r), rd_out(r), rd_err(r)]\nend\nmake f get runit()\n"
            );
        }
        other => {
            let _ = writeln!(s, "shout(\"unknown placement {other}\")");
        }
    }
    match churn {
        "calls" => s.push_str("make filler get pad(64)\nmake filler3 get pad(200)\n"),
        "loop" => s.push_str(
            "make k get 0\nmake acc get \"\"\njasi (k small pass 24) start\n    make tmp get \"chunk {k} of filler text\"\n    acc get acc add tmp\n    k get k add 1\nend\n",
        ),
        "big" => {
            let _ = writeln!(s, "make grown get grow({})", (size * 2).clamp(64, 400_000));
        }
        "second" => {
            if place == "top" {
                s.push_str(build2);
                s.push_str("make res2 get cmd2.run()\n");
            } else {
                let _ = write!(s, "do again() start\n{}    return cmd2.run()\nend\nmake res2 get again()\n", indent(build2));
            }
        }
        _ => {}
    }
    let (ok, code, out, err) = if fields {
        ("f[0]", "f[1]", "f[2]", "f[3]")
    } else if place == "read_in_fn" {
        ("rd_ok(res)", "rd_code(res)", "rd_out(res)", "rd_err(res)")
    } else {
        ("res.success()", "res.exit_code()", "res.stdout()", "res.stderr()")
    };
    let _ = write!(s, "shout({ok})\nshout({code})\nshout({out})\nshout({err})\n");
    s.push_str("make filler2 get pad(48)\n");
    let _ = write!(s, "shout({out})\nshout({err})\n");
    if churn == "second" {
        s.push_str("shout(res2.stdout())\n");
    }
    s
}

fn one(helper: &str, dir: &str, t: &[&str]) -> String {
    let id = t[0];
    let pin = t[1] == "1";
    let (p1, p2) = (t[2], t[3]);
    let cap: u32 = t[4].parse().unwrap();
    // "-": the script never calls timeout_ms()
    let timeout: Option<u32> = if t[5] == "-" { None } else { Some(t[5].parse().unwrap()) };
    let poll: u32 = t[6].parse().unwrap();
    let n1: usize = t[7].parse().unwrap();
    let k1 = t[8].as_bytes()[0];
    let n2: usize = t[9].parse().unwrap();
    let k2 = t[10].as_bytes()[0];
    let actions: Vec<&str> = if t.len() > 11 && t[11] != "-" { t[11].split(',').collect() } else { vec![] };

    let place = if t.len() > 12 { t[12] } else { "top" };
    let churn = if t.len() > 13 { t[13] } else { "none" };

    let pidfile = format!("{dir}/pid_{id}");
    let pidfile2 = format!("{dir}/pid_{id}_b");
    let _ = fs::remove_file(&pidfile);
    let _ = fs::remove_file(&pidfile2);
    // BUILD: the statements that configure `cmd`
    let mut build = String::new();
    let _ = writeln!(build, "make cmd get command(\"{helper}\")");
    for a in [pidfile.as_str(), t[7], t[8], t[9], t[10]].iter().chain(actions.iter()) {
        let _ = writeln!(build, "cmd.arg(\"{a}\")");
    }
    // optional "stdin=<n>": the builder sets a stdin text of n bytes (the helper never reads it)
    match t.iter().find_map(|w| w.strip_prefix("stdin=")) {
        Some(n) => {
            let n: usize = n.parse().unwrap();
            let _ = writeln!(build, "cmd.stdin_text(\"{}\")", "s".repeat(n));
        }
        None => {
            let _ = writeln!(build, "cmd.stdin_null()");
        }
    }
    for (name, p) in [("stdout", p1), ("stderr", p2)] {
        let m = match p {
            "c" => "capture",
            "n" => "null",
            _ => "inherit",
        };
        let _ = writeln!(build, "cmd.{name}_{m}()");
    }
    if let Some(timeout) = timeout {
        let _ = writeln!(build, "cmd.timeout_ms({timeout})");
    }
    // a second, small child (used by churn = second): 7 bytes on stdout, 5 on stderr, both captured
    let mut build2 = String::new();
    let _ = writeln!(build2, "make cmd2 get command(\"{helper}\")");
    for a in [pidfile2.as_str(), "7", "a", "5", "a", "o7", "e5", "x0"] {
        let _ = writeln!(build2, "cmd2.arg(\"{a}\")");
    }
    let _ = writeln!(build2, "cmd2.stdin_null()\ncmd2.stdout_capture()\ncmd2.stderr_capture()\ncmd2.timeout_ms(6000)");

    let src = build_script(&build, &build2, place, churn, n1.max(n2));
    let want_outputs = if churn == "second" { 7 } else { 6 };

    let mut caps = ProcessCaps::defaults();
    caps.max_capture_bytes_per_stream = cap;
    caps.wait_poll_ms = poll;
    // optional "caps=<field>:<value>,..." : every other field of the host's ProcessCaps
    if let Some(spec) = t.iter().find_map(|w| w.strip_prefix("caps=")) {
        for kv in spec.split(',') {
            let (k, v) = kv.split_once(':').expect("caps=<field>:<value>");
            let v: u32 = v.parse().unwrap();
            match k {
                "max_program_bytes" => caps.max_program_bytes = v,
                "max_cwd_bytes" => caps.max_cwd_bytes = v,
                "max_args" => caps.max_args = v,
                "max_arg_bytes" => caps.max_arg_bytes = v,
                "max_total_arg_bytes" => caps.max_total_arg_bytes = v,
                "max_env_pairs" => caps.max_env_pairs = v,
                "max_env_key_bytes" => caps.max_env_key_bytes = v,
                "max_env_value_bytes" => caps.max_env_value_bytes = v,
                "max_total_env_bytes" => caps.max_total_env_bytes = v,
                "max_stdin_bytes" => caps.max_stdin_bytes = v,
                "max_capture_bytes_per_stream" => caps.max_capture_bytes_per_stream = v,
                "default_timeout_ms" => caps.default_timeout_ms = v,
                "max_timeout_ms" => caps.max_timeout_ms = v,
                "wait_poll_ms" => caps.wait_poll_ms = v,
                other => return format!("{id} unknown-caps-field {other}"),
            }
        }
    }
    let policy = HostPolicy { allow_process: true, process: caps };

    let t0 = Instant::now();
    let res = with_pin(pin, || panic::catch_unwind(|| run_script(&src, policy)));
    let ms = t0.elapsed().as_millis();
    let pid = pid_state(&pidfile);
    let _ = fs::remove_file(&pidfile);
    let pid2_early = pid_state(&pidfile2);

    let _ = fs::remove_file(&pidfile2);
    let Ok(obs) = res else {
        return format!("{id} panic pid={pid} t={ms}");
    };
    if obs.front_end_errors {
        return format!("{id} frontend-error pid={pid} t={ms}");
    }
    if let Some((msg, labels)) = obs.errors.first() {
        let kind = match msg.as_str() {
            "Process timeout" => "timeout",
            "Process output limit exceeded" => "limit",
            "Process output no be valid UTF-8" => "utf8",
            "Process spawn failed" => "spawn",
            "Invalid process configuration" => "spec",
            _ => "other",
        };
        let stream = if kind == "limit" || kind == "utf8" {
            if labels.contains("stdout") {
                "stdout"
            } else if labels.contains("stderr") {
                "stderr"
            } else {
                "?"
            }
        } else {
            "-"
        };
        let extra = if kind == "other" || kind == "spawn" || kind == "spec" { format!(" msg=[{msg}: {labels}]") } else { String::new() };
        return format!("{id} err kind={kind} stream={stream} outputs={} pid={pid} t={ms}{extra}", obs.outputs.len());
    }
    if obs.outputs.len() != want_outputs {
        return format!("{id} malformed outputs={} pid={pid} t={ms}", obs.outputs.len());
    }
    let success = match obs.outputs[0] {
        Obs::Bool(b) => i32::from(b),
        _ => -1,
    };
    let code = match obs.outputs[1] {
        Obs::Num(n) => format!("{}", n as i64),
        Obs::Null => "null".to_string(),
        _ => "?".to_string(),
    };
    let e1 = pattern(1, n1, k1);
    let e2 = pattern(2, n2, k2);
    // the streams are read a second time after more allocation: both reads must agree
    let reread = if desc(&e1, &obs.outputs[2]) == desc(&e1, &obs.outputs[4])
        && desc(&e2, &obs.outputs[3]) == desc(&e2, &obs.outputs[5])
        && same_bytes(&obs.outputs[2], &obs.outputs[4])
        && same_bytes(&obs.outputs[3], &obs.outputs[5])
    {
        "same"
    } else {
        "diff"
    };
    let aux = if churn == "second" {
        let ok = desc(&pattern(1, 7, b'a'), &obs.outputs[6]) == "full" && !pid2_early.starts_with("alive");
        if ok { " aux=ok" } else { " aux=bad" }
    } else {
        ""
    };
    format!(
        "{id} ok code={code} out={} err={} success={success} reread={reread}{aux} pid={pid} t={ms}",
        desc(&e1, &obs.outputs[2]),
        desc(&e2, &obs.outputs[3])
    )
}

pub fn run(input: &str, output: &str) -> ExitCode {
    let helper = env::var("C16_HELPER").expect("C16_HELPER");
    let dir = env::var("C16_DIR").expect("C16_DIR");
    let text = fs::read_to_string(input).expect("input");
    // one line per case, written as soon as the case is done: if the runtime takes the whole
    // process down (SIGSEGV / abort on a dangling string), the driver sees which case it was
    let mut out = fs::File::create(output).expect("output");
    // keep panics quiet: they are reported per case
    panic::set_hook(Box::new(|_| {}));
    for line in text.lines() {
        let t: Vec<&str> = line.split_whitespace().collect();
        if t.len() < 11 {
            continue;
        }
        let l = one(&helper, &dir, &t);
        let _ = writeln!(out, "{l}");
        let _ = out.flush();
    }
    ExitCode::SUCCESS
}
