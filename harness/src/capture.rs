//! C16: drives the helper child (harness/helpers/c16_child.rs) through the REAL runtime: a
//! NaijaScript program using the process built-ins, a host policy with the chosen capture cap
//! and poll interval, the chosen timeout.  One case per input line:
//!
//!   <id> <pin> <p1> <p2> <cap> <timeout_ms> <poll_ms> <n1> <k1> <n2> <k2> <actions,comma,separated>
//!
//! pin = 1 pins this thread (hence the reader threads and the child, which inherit the mask) to
//! one CPU for the duration of the run, which makes coarse interleavings (child writes and exits
//! before any reader runs, ...) likely.  p = c|i|n.  Output per case, one line:
//!
//!   <id> ok code=<int|null> out=<null|full|prefix:K|other:L> err=<...> success=<0|1> pid=<gone|alive:S|unknown> t=<ms>
//!   <id> err kind=<timeout|limit|utf8|spawn|other> stream=<stdout|stderr|-> pid=... t=<ms>
//!   <id> panic ...
//!
//! What the script sees is taken from Runtime.output / Runtime.errors.  Environment:
//! C16_HELPER = path of the helper binary, C16_DIR = scratch directory for pid files.
use std::env;
use std::fmt::Write as _;
use std::fs;
use std::panic;
use std::process::ExitCode;
use std::time::Instant;

use naijascript::arena::Arena;
use naijascript::process::{HostPolicy, ProcessCaps};
use naijascript::resolver::Resolver;
use naijascript::runtime::{Runtime, Value};
use naijascript::syntax::parser::Parser;
use naijascript::syntax::scanner::Lexer;

const MEBI: usize = 1024 * 1024;

fn pattern_byte(stream: u8, n: usize, kind: u8, i: usize) -> u8 {
    let base = if stream == 1 { 97u8 } else { 65u8 };
    match kind {
        b'a' => base + (i % 26) as u8,
        b'u' => {
            let full = (n / 3) * 3;
            if i < full {
                match i % 3 {
                    0 => 0xE2,
                    1 => 0x82,
                    _ => {
                        if stream == 1 {
                            0xAC
                        } else {
                            0xAD
                        }
                    }
                }
            } else if stream == 1 {
                120
            } else {
                88
            }
        }
        b'b' => {
            if i == n / 2 {
                0xFF
            } else {
                base + (i % 26) as u8
            }
        }
        b'B' => {
            if i + 1 == n {
                0xFF
            } else {
                base + (i % 26) as u8
            }
        }
        _ => b'?',
    }
}

fn pattern(stream: u8, n: usize, kind: u8) -> Vec<u8> {
    (0..n).map(|i| pattern_byte(stream, n, kind, i)).collect()
}

enum Obs {
    Str(Vec<u8>),
    Num(f64),
    Bool(bool),
    Null,
    Other,
}

struct RunObs {
    outputs: Vec<Obs>,
    errors: Vec<(String, String)>,
    front_end_errors: bool,
}

fn run_script(src: &str, policy: HostPolicy) -> RunObs {
    let arena = Arena::new(64 * MEBI).unwrap();
    let frame = Arena::new(16 * MEBI).unwrap();
    let lexer = Lexer::new(src, &arena);
    let mut parser = Parser::new(lexer, &arena);
    let (root, parse_errors) = parser.parse_program();
    if !parse_errors.diagnostics.is_empty() {
        return RunObs { outputs: vec![], errors: vec![], front_end_errors: true };
    }
    let mut resolver = Resolver::new(&arena);
    resolver.resolve(root);
    if resolver.errors.has_errors() {
        return RunObs { outputs: vec![], errors: vec![], front_end_errors: true };
    }
    let mut runtime = Runtime::new_with_host_policy(&arena, Some(&frame), policy);
    runtime.run_with_analysis(root, &resolver.facts, resolver.optimization_plan.as_ref());
    let outputs = runtime
        .output
        .iter()
        .map(|v| match v {
            Value::Str(s) => Obs::Str(s.as_bytes().to_vec()),
            Value::Number(n) => Obs::Num(*n),
            Value::Bool(b) => Obs::Bool(*b),
            Value::Null => Obs::Null,
            _ => Obs::Other,
        })
        .collect();
    let errors = runtime
        .errors
        .diagnostics
        .iter()
        .map(|d| {
            let labels: Vec<String> = d.labels.iter().map(|l| l.message.to_string()).collect();
            (d.message.to_string(), labels.join(" / "))
        })
        .collect();
    RunObs { outputs, errors, front_end_errors: false }
}

fn desc(expected: &[u8], o: &Obs) -> String {
    match o {
        Obs::Null => "null".to_string(),
        Obs::Str(b) => {
            if b.as_slice() == expected {
                "full".to_string()
            } else if b.len() < expected.len() && &expected[..b.len()] == b.as_slice() {
                format!("prefix:{}", b.len())
            } else {
                format!("other:{}", b.len())
            }
        }
        _ => "other:-1".to_string(),
    }
}

fn pid_state(pidfile: &str) -> String {
    let Ok(text) = fs::read_to_string(pidfile) else {
        return "unknown".to_string();
    };
    let Ok(pid) = text.trim().parse::<i32>() else {
        return "unknown".to_string();
    };
    let rc = unsafe { libc::kill(pid, 0) };
    if rc != 0 {
        return "gone".to_string();
    }
    // exists: running or zombie (a zombie means it was never waited for)
    let stat = fs::read_to_string(format!("/proc/{pid}/stat")).unwrap_or_default();
    let state = stat.rsplit(')').next().and_then(|r| r.split_whitespace().next().map(str::to_string));
    format!("alive:{}", state.unwrap_or_else(|| "?".to_string()))
}

fn with_pin<R>(pin: bool, f: impl FnOnce() -> R) -> R {
    if !pin {
        return f();
    }
    unsafe {
        let mut old: libc::cpu_set_t = std::mem::zeroed();
        let have_old = libc::sched_getaffinity(0, std::mem::size_of::<libc::cpu_set_t>(), &mut old) == 0;
        let mut one: libc::cpu_set_t = std::mem::zeroed();
        // first CPU of the current mask
        let mut cpu = 0;
        if have_old {
            for i in 0..libc::CPU_SETSIZE as usize {
                if libc::CPU_ISSET(i, &old) {
                    cpu = i;
                    break;
                }
            }
        }
        libc::CPU_SET(cpu, &mut one);
        libc::sched_setaffinity(0, std::mem::size_of::<libc::cpu_set_t>(), &one);
        let r = f();
        if have_old {
            libc::sched_setaffinity(0, std::mem::size_of::<libc::cpu_set_t>(), &old);
        }
        r
    }
}

fn one(helper: &str, dir: &str, t: &[&str]) -> String {
    let id = t[0];
    let pin = t[1] == "1";
    let (p1, p2) = (t[2], t[3]);
    let cap: u32 = t[4].parse().unwrap();
    let timeout: u32 = t[5].parse().unwrap();
    let poll: u32 = t[6].parse().unwrap();
    let n1: usize = t[7].parse().unwrap();
    let k1 = t[8].as_bytes()[0];
    let n2: usize = t[9].parse().unwrap();
    let k2 = t[10].as_bytes()[0];
    let actions: Vec<&str> = if t.len() > 11 && t[11] != "-" { t[11].split(',').collect() } else { vec![] };

    let pidfile = format!("{dir}/pid_{id}");
    let _ = fs::remove_file(&pidfile);
    let mut src = String::new();
    let _ = writeln!(src, "make cmd get command(\"{helper}\")");
    for a in [pidfile.as_str(), t[7], t[8], t[9], t[10]].iter().chain(actions.iter()) {
        let _ = writeln!(src, "cmd.arg(\"{a}\")");
    }
    let _ = writeln!(src, "cmd.stdin_null()");
    for (name, p) in [("stdout", p1), ("stderr", p2)] {
        let m = match p {
            "c" => "capture",
            "n" => "null",
            _ => "inherit",
        };
        let _ = writeln!(src, "cmd.{name}_{m}()");
    }
    let _ = writeln!(src, "cmd.timeout_ms({timeout})");
    let _ = writeln!(src, "make res get cmd.run()");
    let _ = writeln!(src, "shout(res.success())");
    let _ = writeln!(src, "shout(res.exit_code())");
    let _ = writeln!(src, "shout(res.stdout())");
    let _ = writeln!(src, "shout(res.stderr())");

    let mut caps = ProcessCaps::defaults();
    caps.max_capture_bytes_per_stream = cap;
    caps.wait_poll_ms = poll;
    let policy = HostPolicy { allow_process: true, process: caps };

    let t0 = Instant::now();
    let res = with_pin(pin, || panic::catch_unwind(|| run_script(&src, policy)));
    let ms = t0.elapsed().as_millis();
    let pid = pid_state(&pidfile);
    let _ = fs::remove_file(&pidfile);

    let Ok(obs) = res else {
        return format!("{id} panic pid={pid} t={ms}");
    };
    if obs.front_end_errors {
        return format!("{id} frontend-error pid={pid} t={ms}");
    }
    if let Some((msg, labels)) = obs.errors.first() {
        let kind = match msg.as_str() {
            "Process timeout" => "timeout",
            "Process output limit exceeded" => "limit",
            "Process output no be valid UTF-8" => "utf8",
            "Process spawn failed" => "spawn",
            _ => "other",
        };
        let stream = if kind == "limit" || kind == "utf8" {
            if labels.contains("stdout") {
                "stdout"
            } else if labels.contains("stderr") {
                "stderr"
            } else {
                "?"
            }
        } else {
            "-"
        };
        let extra = if kind == "other" || kind == "spawn" { format!(" msg=[{msg}: {labels}]") } else { String::new() };
        return format!("{id} err kind={kind} stream={stream} outputs={} pid={pid} t={ms}{extra}", obs.outputs.len());
    }
    if obs.outputs.len() != 4 {
        return format!("{id} malformed outputs={} pid={pid} t={ms}", obs.outputs.len());
    }
    let success = match obs.outputs[0] {
        Obs::Bool(b) => i32::from(b),
        _ => -1,
    };
    let code = match obs.outputs[1] {
        Obs::Num(n) => format!("{}", n as i64),
        Obs::Null => "null".to_string(),
        _ => "?".to_string(),
    };
    let e1 = pattern(1, n1, k1);
    let e2 = pattern(2, n2, k2);
    format!(
        "{id} ok code={code} out={} err={} success={success} pid={pid} t={ms}",
        desc(&e1, &obs.outputs[2]),
        desc(&e2, &obs.outputs[3])
    )
}

pub fn run(input: &str, output: &str) -> ExitCode {
    let helper = env::var("C16_HELPER").expect("C16_HELPER");
    let dir = env::var("C16_DIR").expect("C16_DIR");
    let text = fs::read_to_string(input).expect("input");
    let mut out = String::new();
    // keep panics quiet: they are reported per case
    panic::set_hook(Box::new(|_| {}));
    for line in text.lines() {
        let t: Vec<&str> = line.split_whitespace().collect();
        if t.len() < 11 {
            continue;
        }
        out.push_str(&one(&helper, &dir, &t));
        out.push('\n');
    }
    fs::write(output, out).expect("output");
    ExitCode::SUCCESS
}
