//! `nsverif f64 <in> <out>` — C01: rustc's f64 as the reference for theories/F64.v.
//!
//! One case per input line: `<op> <hex bits> [<hex bits> [<hex bits>]]`; one result per output
//! line, in the format `nsmodel c01f64` prints:
//!   numbers   16 hex digits of the bit pattern, `nan` for every NaN
//!   booleans  0 | 1
//!   isize     sign and 16 hex digits of the magnitude;  usize  16 hex digits
//!   fmt       hex of the bytes `format!("{}", x)` produces (what `Display for Value` and string
//!             concatenation print)
//! The operations are exactly the ones src/runtime.rs and src/builtins/number.rs apply to
//! numbers: `+ - * / %`, `sqrt floor ceil round abs`, unary `-`, `<`, `<=`, `==`,
//! `(l - r).abs() <= eps`, `is_finite`, `fract() != 0.0`, `as isize`, `as usize`, `{}`.
use std::fmt::Write as _;
use std::fs;
use std::process::ExitCode;

fn hex(b: &[u8]) -> String {
    if b.is_empty() {
        return "-".to_string();
    }
    let mut s = String::with_capacity(b.len() * 2);
    for x in b {
        write!(s, "{x:02x}").unwrap();
    }
    s
}

fn num(x: f64) -> String {
    if x.is_nan() { "nan".to_string() } else { format!("{:016x}", x.to_bits()) }
}

fn b(x: bool) -> String {
    (if x { "1" } else { "0" }).to_string()
}

fn arg(t: &[&str], i: usize) -> f64 {
    f64::from_bits(u64::from_str_radix(t[i], 16).expect("hex bits"))
}

#[allow(clippy::cast_possible_truncation, clippy::cast_sign_loss, clippy::cast_precision_loss)]
fn one(t: &[&str]) -> String {
    // std::hint::black_box keeps the compiler from folding the operation at build time
    let a = |i: usize| std::hint::black_box(arg(t, i));
    match t[0] {
        "add" => num(a(1) + a(2)),
        "sub" => num(a(1) - a(2)),
        "mul" => num(a(1) * a(2)),
        "div" => num(a(1) / a(2)),
        "rem" => num(a(1) % a(2)),
        "sqrt" => num(a(1).sqrt()),
        "floor" => num(a(1).floor()),
        "ceil" => num(a(1).ceil()),
        "round" => num(a(1).round()),
        "abs" => num(a(1).abs()),
        "neg" => num(-a(1)),
        "isize" => {
            let v = a(1) as isize;
            if v < 0 { format!("-{:016x}", (v as i128).unsigned_abs()) } else { format!("{:016x}", v) }
        }
        "usize" => format!("{:016x}", a(1) as usize),
        "isint" => b(a(1).is_finite() && a(1).fract() == 0.0),
        "isfinite" => b(a(1).is_finite()),
        "lt" => b(a(1) < a(2)),
        "le" => b(a(1) <= a(2)),
        "eq" => b(a(1) == a(2)),
        // eqeps <eps> <l> <r>
        "eqeps" => b((a(2) - a(3)).abs() <= a(1)),
        "fmt" => hex(format!("{}", a(1)).as_bytes()),
        // ofz <sign><hex magnitude>: integer to the nearest f64 (what `len as f64` does)
        "ofz" => {
            let (neg, h) = t[1].strip_prefix('-').map_or((false, t[1]), |r| (true, r));
            let m = i128::from_str_radix(h, 16).expect("hex integer");
            let v = std::hint::black_box(if neg { -m } else { m });
            num(v as f64)
        }
        // bits: from_bits/to_bits round trip (NaN payloads collapse to `nan`)
        "bits" => num(a(1)),
        // parse <hex of decimal text>: the literal conversion the interpreter uses
        "parse" => {
            let bytes: Vec<u8> =
                (0..t[1].len() / 2).map(|i| u8::from_str_radix(&t[1][2 * i..2 * i + 2], 16).unwrap()).collect();
            match std::str::from_utf8(&bytes).ok().and_then(|s| s.parse::<f64>().ok()) {
                Some(v) => num(v),
                None => "!".to_string(),
            }
        }
        _ => "?".to_string(),
    }
}

pub fn run(input: &str, output: &str) -> ExitCode {
    let text = fs::read_to_string(input).expect("read input");
    let mut out = String::with_capacity(text.len());
    for line in text.lines() {
        let t: Vec<&str> = line.split_whitespace().collect();
        if t.is_empty() {
            continue;
        }
        out.push_str(&one(&t));
        out.push('\n');
    }
    fs::write(output, out).expect("write output");
    ExitCode::SUCCESS
}
