//! C07: the real front end (Lexer -> Parser -> Resolver -> Diagnostics::render_ansi) on arbitrary
//! UTF-8 text, one case per input line (hex of the source bytes, `-` = empty text).
//!
//! For every case the observation block is
//!   CASE <index> <hex>
//!   T <Kind> <start> <end> <owned> <payload hex>      tokens of a stand-alone Lexer run
//!   D <LexError message> <start> <end> <label start> <label end> <label message hex>
//!   RD <line> <col> <carets> S <lblcol> <dashes> ... X <lblcol> <dashes> ...    (one per lexer diagnostic,
//!                                  read back from the rendering of that diagnostic alone)
//!   LEXEND
//!   PD <n> / RS <n>            number of parser (lexer+syntax) / resolver diagnostics
//!   BAD <stage> <what> <start> <end> <len>   a span that is out of range / unordered / off a boundary
//!   PANIC <stage> <file:line> <message>      a caught panic (stage = lex|parse|resolve|render)
//!   GATE <norun-parse|norun-resolve|run>     what cmd.rs::run_source would do with these diagnostics
//!   END <index>
//! The block is flushed after every case: a process abort (panic=abort paths, `unsafe precondition`
//! checks, stack overflow) leaves the output without the END line of the case that died; the Python
//! side attributes the death to that case, re-runs it alone, and resumes after it (`--from`).
use std::fmt::Write as _;
use std::fs;
use std::io::Write as _;
use std::panic;
use std::process::ExitCode;
use std::range::Range;

use naijascript::arena::{Arena, ArenaCow};
use naijascript::diagnostics::{Diagnostic, Diagnostics, Label, Severity};
use naijascript::helpers::MEBI;
use naijascript::resolver::Resolver;
use naijascript::syntax::parser::Parser;
use naijascript::syntax::scanner::Lexer;
use naijascript::syntax::token::Token;

fn unhex(s: &str) -> Option<String> {
    if s == "-" {
        return Some(String::new());
    }
    let b: Vec<u8> = (0..s.len() / 2).map(|i| u8::from_str_radix(&s[2 * i..2 * i + 2], 16).unwrap()).collect();
    String::from_utf8(b).ok()
}

fn hex(b: &[u8]) -> String {
    if b.is_empty() {
        return "-".to_string();
    }
    let mut o = String::with_capacity(b.len() * 2);
    for x in b {
        let _ = write!(o, "{x:02x}");
    }
    o
}

fn kind(t: &Token<'_>) -> (&'static str, Vec<u8>, bool) {
    let n = |s: &'static str| (s, Vec::new(), false);
    match t {
        Token::String(c) => ("String", c.as_bytes().to_vec(), c.is_owned()),
        Token::Identifier(s) => ("Identifier", s.as_bytes().to_vec(), false),
        Token::Number(s) => ("Number", s.as_bytes().to_vec(), false),
        Token::Make => n("Make"),
        Token::Get => n("Get"),
        Token::Add => n("Add"),
        Token::Minus => n("Minus"),
        Token::Times => n("Times"),
        Token::Divide => n("Divide"),
        Token::Mod => n("Mod"),
        Token::And => n("And"),
        Token::Or => n("Or"),
        Token::Not => n("Not"),
        Token::Jasi => n("Jasi"),
        Token::Start => n("Start"),
        Token::End => n("End"),
        Token::Comot => n("Comot"),
        Token::Next => n("Next"),
        Token::Na => n("Na"),
        Token::Pass => n("Pass"),
        Token::SmallPass => n("SmallPass"),
        Token::IfToSay => n("IfToSay"),
        Token::IfNotSo => n("IfNotSo"),
        Token::Do => n("Do"),
        Token::Return => n("Return"),
        Token::True => n("True"),
        Token::False => n("False"),
        Token::Null => n("Null"),
        Token::LParen => n("LParen"),
        Token::RParen => n("RParen"),
        Token::LBracket => n("LBracket"),
        Token::RBracket => n("RBracket"),
        Token::Comma => n("Comma"),
        Token::Dot => n("Dot"),
        Token::EOF => n("EOF"),
    }
}

/// The executable form of Utf8.span_wf: in range, ordered, both ends on character boundaries.
fn span_wf(src: &str, start: usize, end: usize) -> bool {
    start <= end && end <= src.len() && src.is_char_boundary(start) && src.is_char_boundary(end)
}

fn check_spans(stage: &str, src: &str, diags: &[Diagnostic<'_>], out: &mut String) -> bool {
    let mut ok = true;
    for (i, d) in diags.iter().enumerate() {
        if !span_wf(src, d.span.start, d.span.end) {
            let _ = writeln!(out, "BAD {stage} diag{i} {} {} {}", d.span.start, d.span.end, src.len());
            ok = false;
        }
        for (j, l) in d.labels.iter().enumerate() {
            if !span_wf(src, l.span.start, l.span.end) {
                let _ = writeln!(out, "BAD {stage} diag{i}.label{j} {} {} {}", l.span.start, l.span.end, src.len());
                ok = false;
            }
        }
    }
    ok
}

static LAST_LOCATION: std::sync::Mutex<String> = std::sync::Mutex::new(String::new());

/// `<file>:<line> <message>` of a caught panic (the location comes from the panic hook).
fn panic_text(e: Box<dyn std::any::Any + Send>) -> String {
    let loc = LAST_LOCATION.lock().map(|s| s.clone()).unwrap_or_default();
    let msg = e
        .downcast_ref::<String>()
        .cloned()
        .or_else(|| e.downcast_ref::<&str>().map(|s| (*s).to_string()))
        .unwrap_or_default();
    let msg: String = msg.chars().take(120).map(|c| if c == '\n' { ' ' } else { c }).collect();
    format!("{} {msg}", if loc.is_empty() { "?" } else { &loc })
}

fn strip_ansi(s: &str) -> String {
    let mut o = String::new();
    let mut it = s.chars();
    while let Some(c) = it.next() {
        if c == '\x1b' {
            for d in it.by_ref() {
                if d == 'm' {
                    break;
                }
            }
        } else {
            o.push(c);
        }
    }
    o
}

/// Renders one diagnostic (span + label spans) alone and reads back from the text what
/// render_diagnostic computed: line, column, caret count, the label geometry and the expanded
/// source lines.  Layout: header, location, gutter, 3 lines per cross-line label (source line,
/// underline, gutter), source line, caret line, one line per same-line label.
/// Result: `<line> <col> <carets> S <col> <dashes>.. X <col> <dashes>.. L <hex line> <hex cross line>..`
fn render_readback(
    span: naijascript::diagnostics::Span,
    label_spans: &[naijascript::diagnostics::Span],
    severity: Severity,
    src: &str,
    arena: &Arena,
) -> Option<String> {
    let mut one = Diagnostics::new(arena);
    let labels: Vec<Label<'_>> =
        label_spans.iter().map(|l| Label { message: ArenaCow::Borrowed("L"), span: *l }).collect();
    let n = labels.len();
    one.emit(span, severity, "c", "m", labels);
    let text = one.render_ansi(src, "f");
    let text: &str = &text;
    // source lines may contain '\r' but never '\n'
    let lines: Vec<&str> = text.split('\n').collect();
    let lines = &lines[..lines.len() - 1];
    if lines.len() < 5 + n || (lines.len() - 5 - n) % 2 != 0 {
        return None;
    }
    let k = (lines.len() - 5 - n) / 2;
    if k > n {
        return None;
    }
    let loc = strip_ansi(lines[1]);
    let mut it = loc.trim().trim_start_matches("-->").trim().rsplitn(3, ':');
    let col: usize = it.next()?.parse().ok()?;
    let line: usize = it.next()?.parse().ok()?;
    let gutter = lines[2];
    let geometry = |l: &str, mark: char| -> Option<(usize, usize)> {
        let body = strip_ansi(l.strip_prefix(gutter)?);
        let spaces = body.chars().take_while(|c| *c == ' ').count();
        let marks = body.chars().skip(spaces).take_while(|c| *c == mark).count();
        Some((spaces + 1, marks))
    };
    // the numbered gutter has the same byte length as the plain one
    let after_gutter = |l: &str| -> Option<String> { l.as_bytes().get(gutter.len()..).map(hex) };
    let mut o = String::new();
    let caret = geometry(lines[3 + 3 * k + 1], '^')?;
    if caret.0 != col {
        return None;
    }
    let _ = write!(o, "{line} {col} {}", caret.1);
    o.push_str(" S");
    for i in 0..(n - k) {
        let g = geometry(lines[3 + 3 * k + 2 + i], '-')?;
        let _ = write!(o, " {} {}", g.0, g.1);
    }
    o.push_str(" X");
    for i in 0..k {
        let g = geometry(lines[3 + 3 * i + 1], '-')?;
        let _ = write!(o, " {} {}", g.0, g.1);
    }
    let _ = write!(o, " L {}", after_gutter(lines[3 + 3 * k])?);
    for i in 0..k {
        let _ = write!(o, " {}", after_gutter(lines[3 + 3 * i])?);
    }
    Some(o)
}

fn render_geometry(d: &Diagnostic<'_>, src: &str, arena: &Arena) -> Option<String> {
    let spans: Vec<_> = d.labels.iter().map(|l| l.span).collect();
    let full = render_readback(d.span, &spans, d.severity, src, arena)?;
    // the lexer block keeps the short form (geometry only); the text is compared through G lines
    Some(format!("RD {}", full.split(" L ").next().unwrap_or("")))
}

/// `G <stage> <a> <b> <n> <c1> <d1> .. | <readback>`: one line per parser / resolver diagnostic
/// with well-formed spans; the Python side hands the spans to the extracted Render.v and
/// compares the read-back (geometry and source-line text).
fn dump_geometry(stage: &str, src: &str, diags: &[Diagnostic<'_>], arena: &Arena, out: &mut String) {
    for d in diags.iter().take(24) {
        let spans: Vec<_> = d.labels.iter().map(|l| l.span).collect();
        if !span_wf(src, d.span.start, d.span.end) || spans.iter().any(|l| !span_wf(src, l.start, l.end)) {
            continue;
        }
        let mut head = format!("G {stage} {} {} {}", d.span.start, d.span.end, spans.len());
        for l in &spans {
            let _ = write!(head, " {} {}", l.start, l.end);
        }
        let g = panic::catch_unwind(panic::AssertUnwindSafe(|| render_readback(d.span, &spans, d.severity, src, arena)));
        match g {
            Ok(Some(s)) => {
                let _ = writeln!(out, "{head} | R {s}");
            }
            Ok(None) => {
                let _ = writeln!(out, "{head} | R unreadable");
            }
            Err(e) => {
                let _ = writeln!(out, "PANIC render {}", panic_text(e));
            }
        }
    }
}

/// `nsverif frontend --render <in> <out>`: the renderer alone on given spans.  Input lines
/// `<hexsrc> <a> <b> <n> <c1> <d1> ...` (diagnostic span, n label spans); output `R <readback>`,
/// `R unreadable` or `R PANIC <where> <message>`.
fn run_render(input: &str, output: &str) -> ExitCode {
    let text = fs::read_to_string(input).expect("read input");
    let mut out = String::new();
    let arena = Arena::new(64 * MEBI).expect("arena");
    let mut last_hex = String::new();
    let mut src = String::new();
    for line in text.lines() {
        let w: Vec<&str> = line.split_whitespace().collect();
        if w.len() < 4 {
            continue;
        }
        if w[0] != last_hex {
            last_hex = w[0].to_string();
            src = unhex(w[0]).unwrap_or_default();
        }
        let num = |i: usize| -> usize { w.get(i).and_then(|x| x.parse().ok()).unwrap_or(0) };
        let span = Range::from(num(1)..num(2));
        let labels: Vec<_> = (0..num(3)).map(|i| Range::from(num(4 + 2 * i)..num(5 + 2 * i))).collect();
        let mark = arena.offset();
        let g = panic::catch_unwind(panic::AssertUnwindSafe(|| render_readback(span, &labels, Severity::Error, &src, &arena)));
        match g {
            Ok(Some(s)) => {
                let _ = writeln!(out, "R {s}");
            }
            Ok(None) => out.push_str("R unreadable\n"),
            Err(e) => {
                let _ = writeln!(out, "R PANIC {}", panic_text(e));
            }
        }
        unsafe { arena.reset(mark) };
    }
    fs::write(output, out).expect("write output");
    ExitCode::SUCCESS
}

/// Renders the whole diagnostic set as the CLI does and reports how many diagnostics appear in the
/// text (`RCOUNT <stage> <rendered> <produced>`; one location line ` --> f:L:C` per diagnostic).
/// Sets above RENDER_SET_LIMIT are left to the real binary (many-diagnostics stream): the walk is
/// quadratic in a debug build.
const RENDER_SET_LIMIT: usize = 1500;
fn render_whole_set(stage: &str, diags: &Diagnostics<'_>, src: &str, out: &mut String) {
    let n = diags.diagnostics.len();
    if n > RENDER_SET_LIMIT {
        let _ = writeln!(out, "RENDER skipped {stage} {n}");
        return;
    }
    let rendered = panic::catch_unwind(panic::AssertUnwindSafe(|| {
        let text = diags.render_ansi(src, "f");
        let text: &str = &text;
        text.split('\n').filter(|l| strip_ansi(l).starts_with(" --> f:")).count()
    }));
    match rendered {
        Ok(c) => {
            let _ = writeln!(out, "RCOUNT {stage} {c} {n}");
        }
        Err(e) => {
            let _ = writeln!(out, "PANIC render {}", panic_text(e));
        }
    }
}

fn one_case(src: &str, lex_dump: bool, out: &mut String) {
    let arena = Arena::new(256 * MEBI).expect("arena");
    // ---- stand-alone lexer run (token / diagnostic dump for the model correspondence)
    let r = panic::catch_unwind(panic::AssertUnwindSafe(|| {
        let mut o = String::new();
        let mut lexer = Lexer::new(src, &arena);
        let mut count = 0usize;
        for st in &mut lexer {
            let (k, payload, owned) = kind(&st.token);
            if lex_dump {
                let _ = writeln!(o, "T {k} {} {} {} {}", st.span.start, st.span.end, u8::from(owned), hex(&payload));
            }
            // token spans obey the same predicate (the parser builds every later span from them)
            if !span_wf(src, st.span.start, st.span.end) {
                let _ = writeln!(o, "BAD lex token{count} {} {} {}", st.span.start, st.span.end, src.len());
            }
            count += 1;
            if count > 4 * src.len() + 16 {
                let _ = writeln!(o, "BAD lex no-progress 0 0 {}", src.len());
                break;
            }
        }
        check_spans("lex", src, &lexer.errors.diagnostics, &mut o);
        for d in &lexer.errors.diagnostics {
            let (ls, le, lm) = match d.labels.first() {
                Some(l) => (l.span.start, l.span.end, hex(l.message.as_bytes())),
                None => (0, 0, "-".to_string()),
            };
            if lex_dump {
                let _ = writeln!(
                    o,
                    "D {} {} {} {ls} {le} {lm}",
                    d.message.replace(' ', "_"),
                    d.span.start,
                    d.span.end
                );
            }
        }
        (o, lexer)
    }));
    let lexer_diags_ok = match r {
        Ok((o, lexer)) => {
            out.push_str(&o);
            let wf = !o.contains("\nBAD ") && !o.starts_with("BAD ");
            if lex_dump && wf {
                // geometry of each lexer diagnostic (ties Render.v to diagnostics.rs)
                for d in &lexer.errors.diagnostics {
                    let g = panic::catch_unwind(panic::AssertUnwindSafe(|| render_geometry(d, src, &arena)));
                    match g {
                        Ok(Some(s)) => {
                            out.push_str(&s);
                            out.push('\n');
                        }
                        Ok(None) => out.push_str("RD unreadable\n"),
                        Err(e) => {
                            let _ = writeln!(out, "PANIC render {}", panic_text(e));
                        }
                    }
                }
            }
            wf
        }
        Err(e) => {
            let _ = writeln!(out, "PANIC lex {}", panic_text(e));
            false
        }
    };
    let _ = lexer_diags_ok;
    out.push_str("LEXEND\n");

    // ---- the pipeline of src/bin/naija/cmd.rs::run_source up to the point where the runtime starts
    let arena = Arena::new(256 * MEBI).expect("arena");
    let res_arena = Arena::new(256 * MEBI).expect("arena");
    let r = panic::catch_unwind(panic::AssertUnwindSafe(|| {
        let lexer = Lexer::new(src, &arena);
        let mut parser = Parser::new(lexer, &arena);
        let (root, err) = parser.parse_program();
        let mut o = String::new();
        let _ = writeln!(o, "PD {}", err.diagnostics.len());
        check_spans("parse", src, &err.diagnostics, &mut o);
        dump_geometry("parse", src, &err.diagnostics, &arena, &mut o);
        render_whole_set("parse", err, src, &mut o);
        if !err.diagnostics.is_empty() {
            o.push_str("GATE norun-parse\n");
            return o;
        }
        let mut resolver = Resolver::with_facts_arena(&res_arena, &arena);
        let rr = panic::catch_unwind(panic::AssertUnwindSafe(|| resolver.resolve(root)));
        if let Err(e) = rr {
            let _ = writeln!(o, "PANIC resolve {}", panic_text(e));
            return o;
        }
        let _ = writeln!(o, "RS {}", resolver.errors.diagnostics.len());
        check_spans("resolve", src, &resolver.errors.diagnostics, &mut o);
        dump_geometry("resolve", src, &resolver.errors.diagnostics, &res_arena, &mut o);
        render_whole_set("resolve", &resolver.errors, src, &mut o);
        let any_error = resolver.errors.diagnostics.iter().any(|d| d.severity == Severity::Error);
        if resolver.errors.has_errors() != any_error {
            o.push_str("BAD resolve has_errors 0 0 0\n");
        }
        o.push_str(if any_error { "GATE norun-resolve\n" } else { "GATE run\n" });
        o
    }));
    match r {
        Ok(o) => out.push_str(&o),
        Err(e) => {
            let _ = writeln!(out, "PANIC parse {}", panic_text(e));
        }
    }
}

pub fn run(args: &[String]) -> ExitCode {
    // frontend [--from N] [--nolex] <in> <out>   |   frontend --render <in> <out>
    if args.first().map(String::as_str) == Some("--render") {
        panic::set_hook(Box::new(|info| {
            if let (Some(l), Ok(mut g)) = (info.location(), LAST_LOCATION.lock()) {
                *g = format!("{}:{}", l.file(), l.line());
            }
        }));
        return run_render(&args[1], &args[2]);
    }
    let mut from = 0usize;
    let mut lex_dump = true;
    let mut files = Vec::new();
    let mut i = 0;
    while i < args.len() {
        match args[i].as_str() {
            "--from" => {
                from = args[i + 1].parse().expect("--from N");
                i += 1;
            }
            "--nolex" => lex_dump = false,
            other => files.push(other.to_string()),
        }
        i += 1;
    }
    let text = fs::read_to_string(&files[0]).expect("read input");
    let mut outf = fs::OpenOptions::new().create(true).append(true).open(&files[1]).expect("open output");
    panic::set_hook(Box::new(|info| {
        if let (Some(l), Ok(mut g)) = (info.location(), LAST_LOCATION.lock()) {
            *g = format!("{}:{}", l.file(), l.line());
        }
    }));
    for (idx, line) in text.lines().enumerate() {
        if idx < from {
            continue;
        }
        let line = line.trim();
        if line.is_empty() {
            continue;
        }
        let mut out = String::new();
        let _ = writeln!(out, "CASE {idx}");
        outf.write_all(out.as_bytes()).expect("write");
        outf.flush().expect("flush");
        out.clear();
        match unhex(line) {
            Some(src) => one_case(&src, lex_dump, &mut out),
            None => out.push_str("SKIP not-utf8\n"),
        }
        let _ = writeln!(out, "END {idx}");
        outf.write_all(out.as_bytes()).expect("write");
        outf.flush().expect("flush");
    }
    ExitCode::SUCCESS
}
