//! `nsverif lang <in> <out> [cfgs]` — implementation side of the core-language
//! correspondence (C01/C03/C04/C05/C06/C09...).
//!
//! Input: cases separated by lines `\x01CASE <id>`; the text after such a line (up to the
//! next one) is a NaijaScript source.  For each case the real pipeline is run
//! (Lexer -> Parser -> Resolver -> Runtime::run_with_analysis) and one canonical record is
//! written (and flushed line by line, so that a native crash can be attributed to the
//! case/configuration that was announced last):
//!
//!   case <id>
//!   parse <number of parser diagnostics>
//!   diag <phase> <severity> <code> <message-hex> <start> <end> <first-label-hex>
//!   accepted 0|1
//!   ast <prefix token stream of the resolved AST>          (accepted only)
//!   plan none | plan S <stmt ids> F <function ids>
//!   begin <cfg>                                            cfg in pf nf pn nn
//!   run <cfg> <ending> | <printed values>
//!   end <id>
//!
//! cfg: p/n = with/without the optimisation plan, f/n = separate frame arena / none.
use std::cell::RefCell;
use std::fmt::Write as _;
use std::fs;
use std::io::Write;
use std::panic::{self, AssertUnwindSafe};
use std::process::ExitCode;

use naijascript::analysis::facts::ProgramFacts;
use naijascript::arena::Arena;
use naijascript::diagnostics::{Diagnostics, Severity};
use naijascript::helpers::MEBI;
use naijascript::resolver::Resolver;
use naijascript::runtime::{Runtime, Value};
use naijascript::syntax::parser::{
    BinaryOp, BlockRef, Expr, ExprRef, Parser, Stmt, StmtRef, StringParts, StringSegment, UnaryOp,
};
use naijascript::syntax::scanner::Lexer;

thread_local! {
    static LAST_PANIC: RefCell<String> = const { RefCell::new(String::new()) };
}

pub fn hex(b: &[u8]) -> String {
    if b.is_empty() {
        return "-".to_string();
    }
    let mut s = String::with_capacity(b.len() * 2);
    for x in b {
        write!(s, "{x:02x}").unwrap();
    }
    s
}

fn opt_u32(x: Option<u32>) -> String {
    x.map_or("-".to_string(), |v| v.to_string())
}

pub fn value_repr(v: &Value<'_>, out: &mut String) {
    match v {
        Value::Number(n) => {
            if n.is_nan() {
                out.push_str("n:nan");
            } else {
                write!(out, "n:{:016x}", n.to_bits()).unwrap();
            }
        }
        Value::Str(s) => {
            out.push_str("s:");
            out.push_str(&hex(s.as_bytes()));
        }
        Value::Bool(b) => out.push_str(if *b { "b:1" } else { "b:0" }),
        Value::Null => out.push('z'),
        Value::Array(items) => {
            out.push_str("a[");
            for (i, it) in items.iter().enumerate() {
                if i > 0 {
                    out.push(',');
                }
                value_repr(it, out);
            }
            out.push(']');
        }
        Value::Host(_) => out.push('h'),
    }
}

struct Dump<'f, 'a> {
    facts: &'f ProgramFacts<'a, 'a>,
    out: String,
}

impl<'f, 'a> Dump<'f, 'a> {
    fn tok(&mut self, t: &str) {
        self.out.push(' ');
        self.out.push_str(t);
    }

    fn sid(&mut self, s: StmtRef<'a>) {
        let t = opt_u32(self.facts.stmt_id(s).map(|i| i.0));
        self.tok(&t);
    }

    fn block(&mut self, b: BlockRef<'a>) {
        self.tok(&b.stmts.len().to_string());
        for s in b.stmts {
            self.stmt(s);
        }
    }

    fn stmt(&mut self, s: StmtRef<'a>) {
        match s {
            Stmt::FunctionDef { name, params, body, .. } => {
                self.tok("F");
                self.sid(s);
                // register_function takes name/params/body from the bound FunctionInfo
                let bound = self.facts.function_by_body(body);
                match bound {
                    Some(fid) => {
                        let info = self.facts.function(fid);
                        self.tok(&hex(info.name.as_bytes()));
                        match info.params {
                            Some(ps) => {
                                self.tok(&ps.params.len().to_string());
                                for p in ps.params {
                                    self.tok(&hex(p.as_bytes()));
                                }
                            }
                            None => self.tok("!"),
                        }
                        self.block(info.body);
                        let range = self.facts.local_range(fid);
                        self.tok(&fid.0.to_string());
                        self.tok(&range.start.to_string());
                        self.tok(&(range.end - range.start).to_string());
                    }
                    None => {
                        self.tok(&hex(name.as_bytes()));
                        self.tok(&params.params.len().to_string());
                        for p in params.params {
                            self.tok(&hex(p.as_bytes()));
                        }
                        self.block(body);
                        self.tok("-");
                        self.tok("0");
                        self.tok("0");
                    }
                }
            }
            Stmt::Assign { var, expr, .. } => {
                self.tok("K");
                self.sid(s);
                self.tok(&hex(var.as_bytes()));
                let l = opt_u32(self.facts.stmt_local(s).map(|l| l.0));
                self.tok(&l);
                self.expr(expr);
            }
            Stmt::AssignExisting { var, expr, .. } => {
                self.tok("T");
                self.sid(s);
                self.tok(&hex(var.as_bytes()));
                let l = opt_u32(self.facts.stmt_local(s).map(|l| l.0));
                self.tok(&l);
                self.expr(expr);
            }
            Stmt::AssignIndex { target, expr, .. } => {
                self.tok("J");
                self.sid(s);
                self.expr(target);
                self.expr(expr);
            }
            Stmt::If { cond, then_b, else_b, .. } => {
                self.tok("IF");
                self.sid(s);
                self.expr(cond);
                self.block(then_b);
                match else_b {
                    Some(eb) => {
                        self.tok("1");
                        self.block(eb);
                    }
                    None => self.tok("0"),
                }
            }
            Stmt::Loop { cond, body, .. } => {
                self.tok("W");
                self.sid(s);
                self.expr(cond);
                self.block(body);
            }
            Stmt::Block { block, .. } => {
                self.tok("BL");
                self.sid(s);
                self.block(block);
            }
            Stmt::Return { expr, .. } => {
                self.tok("R");
                self.sid(s);
                match expr {
                    Some(e) => {
                        self.tok("1");
                        self.expr(e);
                    }
                    None => self.tok("0"),
                }
            }
            Stmt::Break { .. } => {
                self.tok("BR");
                self.sid(s);
            }
            Stmt::Continue { .. } => {
                self.tok("NX");
                self.sid(s);
            }
            Stmt::Expression { expr, .. } => {
                self.tok("EX");
                self.sid(s);
                self.expr(expr);
            }
        }
    }

    fn expr(&mut self, e: ExprRef<'a>) {
        match e {
            Expr::Number(text, ..) => {
                self.tok("N");
                match text.parse::<f64>() {
                    Ok(v) => {
                        let t = format!("{:016x}", v.to_bits());
                        self.tok(&t);
                    }
                    Err(_) => self.tok("!"),
                }
            }
            Expr::String { parts, .. } => match parts {
                StringParts::Static(s) => {
                    self.tok("S");
                    self.tok(&hex(s.as_bytes()));
                }
                StringParts::Interpolated(segs) => {
                    self.tok("I");
                    self.tok(&segs.len().to_string());
                    for (i, seg) in segs.iter().enumerate() {
                        match seg {
                            StringSegment::Literal(s) => {
                                self.tok("L");
                                self.tok(&hex(s.as_bytes()));
                            }
                            StringSegment::Variable(v) => {
                                self.tok("V");
                                self.tok(&hex(v.as_bytes()));
                                let l = opt_u32(
                                    self.facts.string_segment_local(e, i as u32).map(|l| l.0),
                                );
                                self.tok(&l);
                            }
                        }
                    }
                }
            },
            Expr::Bool(b, ..) => {
                self.tok("B");
                self.tok(if *b { "1" } else { "0" });
            }
            Expr::Null(..) => self.tok("Z"),
            Expr::Var(name, ..) => {
                self.tok("V");
                self.tok(&hex(name.as_bytes()));
                let l = opt_u32(self.facts.expr_local(e).map(|l| l.0));
                self.tok(&l);
            }
            Expr::Binary { op, lhs, rhs, .. } => {
                self.tok("O");
                self.tok(match op {
                    BinaryOp::Add => "add",
                    BinaryOp::Minus => "minus",
                    BinaryOp::Times => "times",
                    BinaryOp::Divide => "divide",
                    BinaryOp::Mod => "mod",
                    BinaryOp::And => "and",
                    BinaryOp::Or => "or",
                    BinaryOp::Eq => "eq",
                    BinaryOp::Gt => "gt",
                    BinaryOp::Lt => "lt",
                });
                self.expr(lhs);
                self.expr(rhs);
            }
            Expr::Unary { op, expr, .. } => {
                self.tok("U");
                self.tok(match op {
                    UnaryOp::Not => "not",
                    UnaryOp::Minus => "neg",
                });
                self.expr(expr);
            }
            Expr::Array { elements, .. } => {
                self.tok("A");
                self.tok(&elements.len().to_string());
                for el in *elements {
                    self.expr(el);
                }
            }
            Expr::Index { array, index, .. } => {
                self.tok("X");
                self.expr(array);
                self.expr(index);
            }
            Expr::Member { object, field, .. } => {
                self.tok("M");
                self.expr(object);
                self.tok(&hex(field.as_bytes()));
            }
            Expr::Call { callee, args, .. } => {
                self.tok("C");
                self.expr(callee);
                self.tok(&args.args.len().to_string());
                for a in args.args {
                    self.expr(a);
                }
                let t = opt_u32(self.facts.user_call_callee(e).map(|f| f.0));
                self.tok(&t);
            }
        }
    }
}

fn sev(s: &Severity) -> &'static str {
    match s {
        Severity::Error => "error",
        Severity::Warning => "warning",
        Severity::Note => "note",
    }
}

fn dump_diags(w: &mut impl Write, phase: &str, d: &Diagnostics<'_>) {
    for dg in &d.diagnostics {
        writeln!(
            w,
            "diag {phase} {} {} {} {} {} {}",
            sev(&dg.severity),
            dg.code,
            hex(dg.message.as_bytes()),
            dg.span.start,
            dg.span.end,
            hex(dg.labels.first().map_or(&b""[..], |l| l.message.as_bytes()))
        )
        .unwrap();
    }
}

/// One full pipeline run in fresh arenas for one configuration.  Returns "<ending> | values".
fn run_cfg(src: &str, with_plan: bool, with_frame: bool) -> String {
    let arena = Arena::new(256 * MEBI).unwrap();
    let frame = Arena::new(128 * MEBI).unwrap();
    let lexer = Lexer::new(src, &arena);
    let mut parser = Parser::new(lexer, &arena);
    let (root, _) = parser.parse_program();
    let mut resolver = Resolver::new(&arena);
    resolver.resolve(root);
    let mut runtime = Runtime::new(&arena, if with_frame { Some(&frame) } else { None });
    let plan = if with_plan { resolver.optimization_plan.as_ref() } else { None };
    let res = panic::catch_unwind(AssertUnwindSafe(|| {
        runtime.run_with_analysis(root, &resolver.facts, plan);
    }));
    let mut line = String::new();
    match res {
        Ok(()) => {
            if let Some(d) = runtime.errors.diagnostics.first() {
                write!(line, "err:{}", d.message.replace(' ', "_")).unwrap();
            } else {
                line.push_str("ok");
            }
        }
        Err(_) => {
            let msg = LAST_PANIC.with(|m| m.borrow().clone());
            write!(line, "panic:{}", hex(msg.as_bytes())).unwrap();
        }
    }
    line.push_str(" |");
    // a panic can leave values half-built: reading them is still memory-safe for the
    // canonical printer (it only follows initialised Vec/str headers)
    let printed = panic::catch_unwind(AssertUnwindSafe(|| {
        let mut s = String::new();
        for v in &runtime.output {
            s.push(' ');
            value_repr(v, &mut s);
        }
        s
    }));
    match printed {
        Ok(s) => line.push_str(&s),
        Err(_) => line.push_str(" !unprintable"),
    }
    line
}

fn one_case(w: &mut impl Write, id: &str, src: &str, cfgs: &[&str]) {
    writeln!(w, "case {id}").unwrap();
    w.flush().unwrap();
    let arena = Arena::new(256 * MEBI).unwrap();
    let lexer = Lexer::new(src, &arena);
    let mut parser = Parser::new(lexer, &arena);
    let (root, parse_errors) = parser.parse_program();
    writeln!(w, "parse {}", parse_errors.diagnostics.len()).unwrap();
    dump_diags(w, "parse", parse_errors);
    let parse_ok = !parse_errors.has_errors();
    if !parse_ok {
        writeln!(w, "accepted 0").unwrap();
        writeln!(w, "end {id}").unwrap();
        w.flush().unwrap();
        return;
    }
    let mut resolver = Resolver::new(&arena);
    resolver.resolve(root);
    dump_diags(w, "resolve", &resolver.errors);
    let accepted = !resolver.errors.has_errors();
    writeln!(w, "accepted {}", u8::from(accepted)).unwrap();
    {
        // the AST is dumped for every program that parses (bindings are partial when the
        // checker rejected it); `plan` and the runs follow only for accepted programs
        let mut d = Dump { facts: &resolver.facts, out: String::new() };
        d.block(root);
        writeln!(w, "ast{}", d.out).unwrap();
    }
    if !accepted {
        writeln!(w, "end {id}").unwrap();
        w.flush().unwrap();
        return;
    }
    match resolver.optimization_plan.as_ref() {
        None => writeln!(w, "plan none").unwrap(),
        Some(p) => {
            let mut s = String::from("plan S");
            for id in &p.removable_stmts {
                write!(s, " {}", id.0).unwrap();
            }
            s.push_str(" F");
            for id in &p.removable_function_defs {
                write!(s, " {}", id.0).unwrap();
            }
            writeln!(w, "{s}").unwrap();
        }
    }
    w.flush().unwrap();
    for cfg in cfgs {
        if cfg.len() != 2 {
            // "none" (or anything that is not a two-letter configuration): front end only
            continue;
        }
        writeln!(w, "begin {cfg}").unwrap();
        w.flush().unwrap();
        let b = cfg.as_bytes();
        let line = run_cfg(src, b[0] == b'p', b[1] == b'f');
        writeln!(w, "run {cfg} {line}").unwrap();
        w.flush().unwrap();
    }
    writeln!(w, "end {id}").unwrap();
    w.flush().unwrap();
}

pub fn run(args: &[String]) -> ExitCode {
    let input = fs::read_to_string(&args[0]).expect("read input");
    let out_path = args[1].clone();
    let cfgs_owned: Vec<String> = if args.len() > 2 {
        args[2].split(',').map(str::to_string).collect()
    } else {
        vec!["pf".into(), "nf".into(), "pn".into(), "nn".into()]
    };
    panic::set_hook(Box::new(|info| {
        let loc = info.location().map_or(String::new(), |l| format!("{}:{}", l.file(), l.line()));
        let msg = if let Some(s) = info.payload().downcast_ref::<&str>() {
            (*s).to_string()
        } else if let Some(s) = info.payload().downcast_ref::<String>() {
            s.clone()
        } else {
            String::new()
        };
        LAST_PANIC.with(|m| *m.borrow_mut() = format!("{loc}: {msg}"));
    }));
    // same stack size as the CLI's main thread
    let handle = std::thread::Builder::new()
        .stack_size(8 * MEBI)
        .spawn(move || {
            let cfgs: Vec<&str> = cfgs_owned.iter().map(String::as_str).collect();
            let f = fs::OpenOptions::new().create(true).append(true).open(&out_path).expect("open output");
            let mut w = std::io::BufWriter::new(f);
            let mut cur_id: Option<String> = None;
            let mut cur = String::new();
            for line in input.split_inclusive('\n') {
                if let Some(rest) = line.strip_prefix("\u{1}CASE ") {
                    if let Some(id) = cur_id.take() {
                        one_case(&mut w, &id, &cur, &cfgs);
                    }
                    cur_id = Some(rest.trim_end().to_string());
                    cur.clear();
                } else {
                    cur.push_str(line);
                }
            }
            if let Some(id) = cur_id.take() {
                one_case(&mut w, &id, &cur, &cfgs);
            }
            w.flush().unwrap();
        })
        .unwrap();
    match handle.join() {
        Ok(()) => ExitCode::SUCCESS,
        Err(_) => ExitCode::from(3),
    }
}
