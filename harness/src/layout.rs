//! C10: `nsverif layout [--from N] <in> <out>` — property oracle "layout is insignificant" on the
//! real pipeline (Lexer -> Parser -> Resolver -> Runtime), plus the data for the model tie.
//!
//! Input: one program per line, `P <id> <seed> <k> <hex of the UTF-8 source>` (`Q ...` = the same
//! without the redundant-parentheses variants).
//! For every program
//!   1. the REAL lexer gives the token spans; programs with lexer diagnostics are skipped (a token
//!      with a lexical error, e.g. an unterminated string, has no layout-independent text);
//!   2. the program is re-rendered k ways from those spans (token texts are the span texts; the
//!      words of a multi-word keyword are the whitespace-separated words of its span text; every
//!      gap is filled with whitespace (space TAB LF FF CR) and `#` comments; between the words of
//!      a multi-word keyword only whitespace is used);
//!   3. each re-layout runs through the same pipeline as `naija <file>` (cmd.rs::run_source) and
//!      is compared with the original: token kinds/payloads/ownership, parser diagnostics
//!      (severity, code, message, label messages), AST without spans, resolver diagnostics, the
//!      run gate, `Runtime.output` and the ending;
//!   4. `parens`: random sub-expressions of accepted programs are wrapped in redundant
//!      parentheses; AST without spans, diagnostics, output and ending must not change.
//!
//! Output (flushed per case, so that a native crash is attributed to the announced case):
//!   CASE <index> <id>
//!   SKIP <reason>
//!   BASE <gate> <ntokens> <hex of the observation summary>
//!   L <j> <kind> <hex text> <abstract layout>        (abstract layout: see `Abs::encode`)
//!   T <j> <Kind:payloadhex:owned,...>                 tokens of the real lexer on that text
//!   O <j> same | DIFF <field> <hex base> <hex relayout>
//!   X <j> <nwrapped> <hex text> same | DIFF <field> <hex base> <hex variant>
//!   END <index>
use std::cell::RefCell;
use std::collections::HashMap;
use std::fmt::Write as _;
use std::fs;
use std::io::Write as _;
use std::panic::{self, AssertUnwindSafe};
use std::process::ExitCode;

use naijascript::arena::Arena;
use naijascript::diagnostics::{Diagnostics, Severity};
use naijascript::helpers::MEBI;
use naijascript::resolver::Resolver;
use naijascript::runtime::{Runtime, Value};
use naijascript::syntax::parser::{
    BinaryOp, BlockRef, Expr, ExprRef, Parser, Stmt, StmtRef, StringParts, StringSegment, UnaryOp,
};
use naijascript::syntax::scanner::Lexer;
use naijascript::syntax::token::Token;

thread_local! {
    static LAST_PANIC: RefCell<String> = const { RefCell::new(String::new()) };
}

fn hex(b: &[u8]) -> String {
    if b.is_empty() {
        return "-".to_string();
    }
    let mut s = String::with_capacity(b.len() * 2);
    for x in b {
        let _ = write!(s, "{x:02x}");
    }
    s
}

fn hex0(b: &[u8]) -> String {
    let mut s = String::with_capacity(b.len() * 2);
    for x in b {
        let _ = write!(s, "{x:02x}");
    }
    s
}

fn unhex(s: &str) -> Option<String> {
    if s == "-" {
        return Some(String::new());
    }
    let b: Vec<u8> = (0..s.len() / 2).map(|i| u8::from_str_radix(&s[2 * i..2 * i + 2], 16).unwrap()).collect();
    String::from_utf8(b).ok()
}

struct Rng(u64);
impl Rng {
    fn next(&mut self) -> u64 {
        let mut x = self.0;
        x ^= x >> 12;
        x ^= x << 25;
        x ^= x >> 27;
        self.0 = x;
        x.wrapping_mul(0x2545_F491_4F6C_DD1D)
    }
    fn below(&mut self, n: usize) -> usize {
        (self.next() >> 33) as usize % n.max(1)
    }
    fn chance(&mut self, pct: usize) -> bool {
        self.below(100) < pct
    }
}

// ------------------------------------------------------------------ observation of one text

fn kind(t: &Token<'_>) -> (&'static str, Vec<u8>, bool) {
    let n = |s: &'static str| (s, Vec::new(), false);
    match t {
        Token::String(c) => ("String", c.as_bytes().to_vec(), c.is_owned()),
        Token::Identifier(s) => ("Identifier", s.as_bytes().to_vec(), false),
        Token::Number(s) => ("Number", s.as_bytes().to_vec(), false),
        Token::Make => n("Make"),
        Token::Get => n("Get"),
        Token::Add => n("Add"),
        Token::Minus => n("Minus"),
        Token::Times => n("Times"),
        Token::Divide => n("Divide"),
        Token::Mod => n("Mod"),
        Token::And => n("And"),
        Token::Or => n("Or"),
        Token::Not => n("Not"),
        Token::Jasi => n("Jasi"),
        Token::Start => n("Start"),
        Token::End => n("End"),
        Token::Comot => n("Comot"),
        Token::Next => n("Next"),
        Token::Na => n("Na"),
        Token::Pass => n("Pass"),
        Token::SmallPass => n("SmallPass"),
        Token::IfToSay => n("IfToSay"),
        Token::IfNotSo => n("IfNotSo"),
        Token::Do => n("Do"),
        Token::Return => n("Return"),
        Token::True => n("True"),
        Token::False => n("False"),
        Token::Null => n("Null"),
        Token::LParen => n("LParen"),
        Token::RParen => n("RParen"),
        Token::LBracket => n("LBracket"),
        Token::RBracket => n("RBracket"),
        Token::Comma => n("Comma"),
        Token::Dot => n("Dot"),
        Token::EOF => n("EOF"),
    }
}

#[derive(Clone)]
struct Tok {
    kind: &'static str,
    payload: Vec<u8>,
    owned: bool,
    start: usize,
    end: usize,
}

fn lex_all(src: &str) -> (Vec<Tok>, usize) {
    let arena = Arena::new(64 * MEBI).expect("arena");
    let mut lexer = Lexer::new(src, &arena);
    let mut v = Vec::new();
    for st in &mut lexer {
        let (k, p, o) = kind(&st.token);
        v.push(Tok { kind: k, payload: p, owned: o, start: st.span.start, end: st.span.end });
    }
    let n = lexer.errors.diagnostics.len();
    (v, n)
}

fn tokens_line(toks: &[Tok]) -> String {
    let mut s = String::new();
    for (i, t) in toks.iter().enumerate() {
        if i > 0 {
            s.push(',');
        }
        let _ = write!(s, "{}:{}:{}", t.kind, hex0(&t.payload), u8::from(t.owned));
    }
    if s.is_empty() {
        s.push('-');
    }
    s
}

fn sev(s: &Severity) -> &'static str {
    match s {
        Severity::Error => "error",
        Severity::Warning => "warning",
        Severity::Note => "note",
    }
}

/// Diagnostics without spans: severity, code, message and the label messages.
fn diags_text(d: &Diagnostics<'_>) -> String {
    let mut s = String::new();
    for dg in &d.diagnostics {
        let _ = write!(s, "[{} {} {}", sev(&dg.severity), dg.code, dg.message);
        for l in &dg.labels {
            let _ = write!(s, " | {}", &*l.message);
        }
        s.push(']');
    }
    s
}

fn value_repr(v: &Value<'_>, out: &mut String) {
    match v {
        Value::Number(n) => {
            if n.is_nan() {
                out.push_str("n:nan");
            } else {
                let _ = write!(out, "n:{:016x}", n.to_bits());
            }
        }
        Value::Str(s) => {
            out.push_str("s:");
            out.push_str(&hex(s.as_bytes()));
        }
        Value::Bool(b) => out.push_str(if *b { "b:1" } else { "b:0" }),
        Value::Null => out.push('z'),
        Value::Array(items) => {
            out.push_str("a[");
            for (i, it) in items.iter().enumerate() {
                if i > 0 {
                    out.push(',');
                }
                value_repr(it, out);
            }
            out.push(']');
        }
        Value::Host(_) => out.push('h'),
    }
}

// ---- span-free AST printer

fn binop(op: BinaryOp) -> &'static str {
    match op {
        BinaryOp::Add => "add",
        BinaryOp::Minus => "minus",
        BinaryOp::Times => "times",
        BinaryOp::Divide => "divide",
        BinaryOp::Mod => "mod",
        BinaryOp::And => "and",
        BinaryOp::Or => "or",
        BinaryOp::Eq => "eq",
        BinaryOp::Gt => "gt",
        BinaryOp::Lt => "lt",
    }
}

fn p_block(b: BlockRef<'_>, o: &mut String) {
    o.push('{');
    for s in b.stmts {
        p_stmt(s, o);
    }
    o.push('}');
}

fn p_stmt(s: StmtRef<'_>, o: &mut String) {
    match s {
        Stmt::FunctionDef { name, params, body, .. } => {
            let _ = write!(o, "(fn {}", hex(name.as_bytes()));
            for p in params.params {
                let _ = write!(o, " {}", hex(p.as_bytes()));
            }
            o.push(' ');
            p_block(body, o);
            o.push(')');
        }
        Stmt::Assign { var, expr, .. } => {
            let _ = write!(o, "(make {} ", hex(var.as_bytes()));
            p_expr(expr, o);
            o.push(')');
        }
        Stmt::AssignExisting { var, expr, .. } => {
            let _ = write!(o, "(set {} ", hex(var.as_bytes()));
            p_expr(expr, o);
            o.push(')');
        }
        Stmt::AssignIndex { target, expr, .. } => {
            o.push_str("(setidx ");
            p_expr(target, o);
            o.push(' ');
            p_expr(expr, o);
            o.push(')');
        }
        Stmt::If { cond, then_b, else_b, .. } => {
            o.push_str("(if ");
            p_expr(cond, o);
            p_block(then_b, o);
            if let Some(e) = else_b {
                o.push_str(" else ");
                p_block(e, o);
            }
            o.push(')');
        }
        Stmt::Loop { cond, body, .. } => {
            o.push_str("(loop ");
            p_expr(cond, o);
            p_block(body, o);
            o.push(')');
        }
        Stmt::Block { block, .. } => {
            o.push_str("(block ");
            p_block(block, o);
            o.push(')');
        }
        Stmt::Return { expr, .. } => {
            o.push_str("(return");
            if let Some(e) = expr {
                o.push(' ');
                p_expr(e, o);
            }
            o.push(')');
        }
        Stmt::Break { .. } => o.push_str("(break)"),
        Stmt::Continue { .. } => o.push_str("(next)"),
        Stmt::Expression { expr, .. } => {
            o.push_str("(expr ");
            p_expr(expr, o);
            o.push(')');
        }
    }
}

fn p_expr(e: ExprRef<'_>, o: &mut String) {
    match e {
        Expr::Number(t, ..) => {
            let _ = write!(o, "(num {})", hex(t.as_bytes()));
        }
        Expr::String { parts, .. } => match parts {
            StringParts::Static(s) => {
                let _ = write!(o, "(str {})", hex(s.as_bytes()));
            }
            StringParts::Interpolated(segs) => {
                o.push_str("(istr");
                for seg in *segs {
                    match seg {
                        StringSegment::Literal(s) => {
                            let _ = write!(o, " L{}", hex(s.as_bytes()));
                        }
                        StringSegment::Variable(v) => {
                            let _ = write!(o, " V{}", hex(v.as_bytes()));
                        }
                    }
                }
                o.push(')');
            }
        },
        Expr::Bool(b, ..) => o.push_str(if *b { "(true)" } else { "(false)" }),
        Expr::Null(..) => o.push_str("(null)"),
        Expr::Var(n, ..) => {
            let _ = write!(o, "(var {})", hex(n.as_bytes()));
        }
        Expr::Binary { op, lhs, rhs, .. } => {
            let _ = write!(o, "({} ", binop(*op));
            p_expr(lhs, o);
            o.push(' ');
            p_expr(rhs, o);
            o.push(')');
        }
        Expr::Unary { op, expr, .. } => {
            o.push_str(match op {
                UnaryOp::Not => "(not ",
                UnaryOp::Minus => "(neg ",
            });
            p_expr(expr, o);
            o.push(')');
        }
        Expr::Array { elements, .. } => {
            o.push_str("(array");
            for el in *elements {
                o.push(' ');
                p_expr(el, o);
            }
            o.push(')');
        }
        Expr::Index { array, index, .. } => {
            o.push_str("(index ");
            p_expr(array, o);
            o.push(' ');
            p_expr(index, o);
            o.push(')');
        }
        Expr::Member { object, field, .. } => {
            o.push_str("(member ");
            p_expr(object, o);
            let _ = write!(o, " {})", hex(field.as_bytes()));
        }
        Expr::Call { callee, args, .. } => {
            o.push_str("(call ");
            p_expr(callee, o);
            for a in args.args {
                o.push(' ');
                p_expr(a, o);
            }
            o.push(')');
        }
    }
}

// ---- candidates for redundant parentheses: balanced token ranges [first, last] of sub-expressions

/// Extends the token range [f, l] until its parentheses and brackets are balanced.
fn balance(toks: &[Tok], mut f: usize, mut l: usize) -> Option<(usize, usize)> {
    if l < f || l >= toks.len() {
        return None;
    }
    loop {
        let mut depth: i64 = 0;
        let mut neg = false;
        for t in &toks[f..=l] {
            match t.kind {
                "LParen" | "LBracket" => depth += 1,
                "RParen" | "RBracket" => {
                    depth -= 1;
                    if depth < 0 {
                        neg = true;
                        break;
                    }
                }
                _ => {}
            }
        }
        if neg {
            if f == 0 || !matches!(toks[f - 1].kind, "LParen" | "LBracket") {
                return None;
            }
            f -= 1;
            continue;
        }
        if depth == 0 {
            return Some((f, l));
        }
        // unclosed openers inside: take tokens until they close
        while depth > 0 {
            l += 1;
            if l >= toks.len() {
                return None;
            }
            match toks[l].kind {
                "LParen" | "LBracket" => depth += 1,
                "RParen" | "RBracket" => depth -= 1,
                _ => {}
            }
        }
    }
}

struct Cands<'t> {
    toks: &'t [Tok],
    by_start: HashMap<usize, usize>,
    v: Vec<(usize, usize)>,
    ok: bool,
}

impl Cands<'_> {
    fn at(&mut self, start: usize) -> usize {
        match self.by_start.get(&start) {
            Some(i) => *i,
            None => {
                self.ok = false;
                0
            }
        }
    }

    fn bal(&mut self, f: usize, l: usize) -> (usize, usize) {
        match balance(self.toks, f, l) {
            Some(r) => r,
            None => {
                self.ok = false;
                (f, f)
            }
        }
    }

    /// Balanced token range of the expression (leaf spans are exact token spans; everything else
    /// is rebuilt from the leaves because the parser's composite spans reach into the look-ahead
    /// token).  `head` = the expression begins a statement (a statement must start with an
    /// identifier, so such an expression is not wrapped).
    fn expr(&mut self, e: ExprRef<'_>, head: bool) -> (usize, usize) {
        let r = match e {
            Expr::Number(_, sp) | Expr::Var(_, sp) | Expr::Bool(_, sp) | Expr::Null(sp) => {
                let i = self.at(sp.start);
                (i, i)
            }
            Expr::String { span, .. } => {
                let i = self.at(span.start);
                (i, i)
            }
            Expr::Binary { lhs, rhs, .. } => {
                let a = self.expr(lhs, head);
                let b = self.expr(rhs, false);
                self.bal(a.0, b.1)
            }
            Expr::Unary { expr, span, .. } => {
                let b = self.expr(expr, false);
                let f = self.at(span.start);
                self.bal(f, b.1)
            }
            Expr::Array { elements, span } => {
                let f = self.at(span.start);
                let mut last = f;
                for el in *elements {
                    last = self.expr(el, false).1;
                }
                self.bal(f, last)
            }
            Expr::Index { array, index, .. } => {
                let a = self.expr(array, head);
                let b = self.expr(index, false);
                self.bal(a.0, b.1)
            }
            Expr::Member { object, field_span, .. } => {
                let a = self.expr(object, head);
                let l = self.at(field_span.start);
                self.bal(a.0, l)
            }
            Expr::Call { callee, args, .. } => {
                let a = self.expr(callee, head);
                // the call's `(`: behind the callee and the `)` of parentheses around the callee
                let mut j = a.1 + 1;
                while j < self.toks.len() && self.toks[j].kind == "RParen" {
                    j += 1;
                }
                if j >= self.toks.len() || self.toks[j].kind != "LParen" {
                    self.ok = false;
                    j = a.1;
                }
                let mut last = j;
                for x in args.args {
                    last = self.expr(x, false).1;
                }
                self.bal(a.0, last)
            }
        };
        if !head {
            self.v.push(r);
        }
        r
    }

    fn block(&mut self, b: BlockRef<'_>) {
        for s in b.stmts {
            match s {
                Stmt::FunctionDef { body, .. } => self.block(body),
                Stmt::Assign { expr, var_span, .. } => {
                    // `make x` without initialiser carries a synthetic Null with the variable's span
                    if !(matches!(expr, Expr::Null(sp) if sp == var_span)) {
                        self.expr(expr, false);
                    }
                }
                Stmt::AssignExisting { expr, .. } => {
                    self.expr(expr, false);
                }
                Stmt::AssignIndex { target, expr, .. } => {
                    self.expr(target, true);
                    self.expr(expr, false);
                }
                Stmt::If { cond, then_b, else_b, .. } => {
                    self.expr(cond, false);
                    self.block(then_b);
                    if let Some(e) = else_b {
                        self.block(e);
                    }
                }
                Stmt::Loop { cond, body, .. } => {
                    self.expr(cond, false);
                    self.block(body);
                }
                Stmt::Block { block, .. } => self.block(block),
                Stmt::Return { expr, .. } => {
                    if let Some(e) = expr {
                        self.expr(e, false);
                    }
                }
                Stmt::Break { .. } | Stmt::Continue { .. } => {}
                Stmt::Expression { expr, .. } => {
                    self.expr(expr, true);
                }
            }
        }
    }
}

#[derive(Default, Clone, PartialEq)]
struct Obs {
    tokens: String,
    lex_diags: usize,
    parse_diags: String,
    ast: String,
    resolve_diags: String,
    gate: &'static str,
    output: String,
    ending: String,
    cands: Vec<(usize, usize)>,
    cands_ok: bool,
}

/// The pipeline of src/bin/naija/cmd.rs::run_source on one text.
fn observe(src: &str, want_cands: bool) -> Obs {
    let mut o = Obs::default();
    let (toks, nd) = lex_all(src);
    o.tokens = tokens_line(&toks);
    o.lex_diags = nd;

    let arena = Arena::new(256 * MEBI).expect("arena");
    let lexer = Lexer::new(src, &arena);
    let mut parser = Parser::new(lexer, &arena);
    let (root, err) = parser.parse_program();
    o.parse_diags = diags_text(err);
    let mut ast = String::new();
    p_block(root, &mut ast);
    o.ast = ast;
    if !err.diagnostics.is_empty() {
        o.gate = "parse";
        return o;
    }
    if want_cands {
        let by_start: HashMap<usize, usize> = toks.iter().enumerate().map(|(i, t)| (t.start, i)).collect();
        let mut c = Cands { toks: &toks, by_start, v: Vec::new(), ok: true };
        c.block(root);
        o.cands = c.v;
        o.cands_ok = c.ok;
    }
    let res_arena = Arena::new(256 * MEBI).expect("arena");
    let mut resolver = Resolver::with_facts_arena(&res_arena, &arena);
    resolver.resolve(root);
    o.resolve_diags = diags_text(&resolver.errors);
    if resolver.errors.has_errors() {
        o.gate = "resolve";
        return o;
    }
    o.gate = "run";
    let (facts, plan) = resolver.into_artifacts();
    let frame = Arena::new(128 * MEBI).expect("arena");
    let mut runtime = Runtime::new(&arena, Some(&frame));
    let res = panic::catch_unwind(AssertUnwindSafe(|| {
        runtime.run_with_analysis(root, &facts, plan.as_ref());
    }));
    match res {
        Ok(()) => {
            if runtime.errors.diagnostics.is_empty() {
                o.ending.push_str("ok");
            } else {
                o.ending = format!("err:{}", diags_text(&runtime.errors));
            }
        }
        Err(_) => {
            let msg = LAST_PANIC.with(|m| m.borrow().clone());
            o.ending = format!("panic:{msg}");
        }
    }
    let printed = panic::catch_unwind(AssertUnwindSafe(|| {
        let mut s = String::new();
        for v in &runtime.output {
            s.push(' ');
            value_repr(v, &mut s);
        }
        s
    }));
    o.output = printed.unwrap_or_else(|_| " !unprintable".to_string());
    o
}

fn first_diff(a: &Obs, b: &Obs, with_tokens: bool) -> Option<(&'static str, String, String)> {
    if with_tokens && a.tokens != b.tokens {
        return Some(("tokens", a.tokens.clone(), b.tokens.clone()));
    }
    if with_tokens && a.lex_diags != b.lex_diags {
        return Some(("lexdiags", a.lex_diags.to_string(), b.lex_diags.to_string()));
    }
    if a.parse_diags != b.parse_diags {
        return Some(("parse-diagnostics", a.parse_diags.clone(), b.parse_diags.clone()));
    }
    if a.ast != b.ast {
        return Some(("ast", a.ast.clone(), b.ast.clone()));
    }
    if a.resolve_diags != b.resolve_diags {
        return Some(("resolve-diagnostics", a.resolve_diags.clone(), b.resolve_diags.clone()));
    }
    if a.gate != b.gate {
        return Some(("gate", a.gate.to_string(), b.gate.to_string()));
    }
    if a.output != b.output {
        return Some(("output", a.output.clone(), b.output.clone()));
    }
    if a.ending != b.ending {
        return Some(("ending", a.ending.clone(), b.ending.clone()));
    }
    None
}

// ------------------------------------------------------------------ abstract layouts

#[derive(Clone)]
enum SepElem {
    Ws(u8),
    Comment(Vec<u8>, u8),
}

#[derive(Clone, Default)]
struct Abs {
    lead: Vec<SepElem>,
    inner: Vec<Vec<Vec<u8>>>,
    after: Vec<Vec<SepElem>>,
    tail: Option<Vec<u8>>,
}

fn sep_bytes(sp: &[SepElem], out: &mut Vec<u8>) {
    for e in sp {
        match e {
            SepElem::Ws(b) => out.push(*b),
            SepElem::Comment(body, nl) => {
                out.push(b'#');
                out.extend_from_slice(body);
                out.push(*nl);
            }
        }
    }
}

fn sep_code(sp: &[SepElem]) -> String {
    if sp.is_empty() {
        return "-".into();
    }
    let mut parts = Vec::new();
    for e in sp {
        match e {
            SepElem::Ws(b) => parts.push(format!("w{b:02x}")),
            SepElem::Comment(body, nl) => parts.push(format!("c{}:{nl:02x}", hex0(body))),
        }
    }
    parts.join(",")
}

/// One token as the Coq model describes it (Layout.tk), from the REAL token and its span text.
struct Piece {
    code: String,       // K:Name | M:Name | I:hex | N:int:frac | P:Name | S:qq:last:raw~ee;raw~ee
    words: Vec<Vec<u8>>, // the words of the text (1 for everything but multi-word keywords)
    class: u8,          // b'w' word, b'm' multi, b'n' number without '.', b'f' number with '.', b'p' punct/string
    guard: &'static [u8], // first bytes that must not follow (identifiers `if` / `small`)
    orig_gaps: Vec<Vec<u8>>, // multi-word keywords: the whitespace runs between the words in the source
}

fn piece(t: &Tok, text: &[u8]) -> Option<Piece> {
    let one = |code: String, class: u8| Piece { code, words: vec![text.to_vec()], class, guard: b"", orig_gaps: Vec::new() };
    Some(match t.kind {
        "String" => {
            if text.len() < 2 || text[0] != text[text.len() - 1] {
                return None;
            }
            let q = text[0];
            let body = &text[1..text.len() - 1];
            let mut segs = Vec::new();
            let mut raw = Vec::new();
            let mut i = 0;
            while i < body.len() {
                if body[i] == b'\\' {
                    if i + 1 >= body.len() {
                        return None;
                    }
                    segs.push(format!("{}~{:02x}", hex0(&raw), body[i + 1]));
                    raw.clear();
                    i += 2;
                } else {
                    raw.push(body[i]);
                    i += 1;
                }
            }
            one(format!("S:{q:02x}:{}:{}", hex0(&raw), segs.join(";")), b'p')
        }
        "Identifier" => {
            let mut p = one(format!("I:{}", hex0(text)), b'w');
            if text == b"if" {
                p.guard = b"tn";
            } else if text == b"small" {
                p.guard = b"p";
            }
            p
        }
        "Number" => match text.iter().position(|b| *b == b'.') {
            Some(d) => one(format!("N:{}:{}", hex0(&text[..d]), hex0(&text[d + 1..])), b'f'),
            None => one(format!("N:{}:-", hex0(text)), b'n'),
        },
        "SmallPass" | "IfToSay" | "IfNotSo" => {
            let words: Vec<Vec<u8>> =
                text.split(|b| b.is_ascii_whitespace()).filter(|w| !w.is_empty()).map(<[u8]>::to_vec).collect();
            let mut gaps: Vec<Vec<u8>> = Vec::new();
            let mut cur: Vec<u8> = Vec::new();
            for b in text {
                if b.is_ascii_whitespace() {
                    cur.push(*b);
                } else if !cur.is_empty() {
                    gaps.push(std::mem::take(&mut cur));
                }
            }
            Piece { code: format!("M:{}", t.kind), words, class: b'm', guard: b"", orig_gaps: gaps }
        }
        "LParen" | "RParen" | "LBracket" | "RBracket" | "Comma" | "Dot" => one(format!("P:{}", t.kind), b'p'),
        k => one(format!("K:{k}"), b'w'),
    })
}

fn is_word(b: u8) -> bool {
    b.is_ascii_alphanumeric() || b == b'_'
}

/// Would the left token absorb the byte h when nothing stands in between?  (Layout.fuses)
fn fuses(p: &Piece, h: u8) -> bool {
    match p.class {
        b'w' | b'f' => is_word(h),
        b'm' => h.is_ascii_alphabetic() || h == b'_',
        b'n' => is_word(h) || h == b'.',
        _ => false,
    }
}

const WS: [u8; 5] = [b' ', b'\t', b'\n', 0x0c, b'\r'];

fn rand_ws(r: &mut Rng) -> u8 {
    WS[r.below(5)]
}

/// Fragments a comment may start with, contain or end with: every ASCII punctuation character,
/// token-like text, bracket / quote / brace / backslash shapes, keywords, digits, NUL, multi-byte
/// characters.  A comment is `#` up to the next LF or CR whatever it contains.
const COMMENT_FRAGS: [&str; 64] = [
    "!", "\"", "#", "$", "%", "&", "'", "(", ")", "*", "+", ",", "-", ".", "/", ":", ";", "<", "=", ">", "?", "@", "[",
    "\\", "]", "^", "_", "`", "{", "|", "}", "~", "]#", "#[", "[1]", "#[1] note", "[[", "#!", "##", "{x}", "{{", "\"open",
    "'open", "\\n", "\\\"", "start", "end", "if to say", "if not so", "small pass", "make x get 1", "return", "0", "1.",
    "2.5", "0x1f", "\u{0}", "\u{e9}", "\u{65e5}\u{672c}", "\u{1F30D}", "\t", "\u{c}", "*/", "//",
];

fn rand_comment(r: &mut Rng, i: usize) -> SepElem {
    let mut body: Vec<u8> = Vec::new();
    let c = r.below(100);
    if c < 15 {
        // the plain shapes
        let bodies: [&[u8]; 5] = [b"", b" c", b" if to say (", b"# \"quote' \\", b" end start make"];
        body.extend_from_slice(bodies[r.below(bodies.len())]);
        if r.chance(30) {
            body.extend_from_slice(format!(" {i}").as_bytes());
        }
    } else {
        // [blank?] fragment, filler and fragments up to a length of 0..200, fragment at the end
        let target = match r.below(10) {
            0..=4 => r.below(12),
            5..=7 => 12 + r.below(50),
            _ => 60 + r.below(141),
        };
        if r.chance(35) {
            body.push(b' ');
        }
        body.extend_from_slice(COMMENT_FRAGS[r.below(COMMENT_FRAGS.len())].as_bytes());
        while body.len() < target {
            if r.chance(40) {
                body.extend_from_slice(COMMENT_FRAGS[r.below(COMMENT_FRAGS.len())].as_bytes());
            } else {
                let words: [&[u8]; 6] = [b" ", b"note", b" the bonus is applied below", b"x", b"  ", b"42"];
                body.extend_from_slice(words[r.below(words.len())]);
            }
        }
        if r.chance(60) {
            body.extend_from_slice(COMMENT_FRAGS[r.below(COMMENT_FRAGS.len())].as_bytes());
        }
    }
    SepElem::Comment(body, if r.chance(70) { b'\n' } else { b'\r' })
}

/// Whitespace between the words of a multi-word keyword: any kind (one byte repeated, CRLF
/// repeated, mixed) and a heavy-tailed length, far beyond any plausible fixed look-ahead window.
fn inner_gap(r: &mut Rng) -> Vec<u8> {
    let c = r.below(100);
    let n = if c < 40 {
        1 + r.below(4)
    } else if c < 75 {
        5 + r.below(60)
    } else if c < 93 {
        65 + r.below(236)
    } else {
        1000 + r.below(4001)
    };
    match r.below(8) {
        0 => vec![b' '; n],
        1 => vec![b'\t'; n],
        2 => vec![b'\n'; n],
        3 => vec![b'\r'; n],
        4 => vec![0x0c; n],
        5 => (0..n).map(|i| if i % 2 == 0 { b'\r' } else { b'\n' }).collect(),
        _ => (0..n).map(|_| rand_ws(r)).collect(),
    }
}

fn ws_run(r: &mut Rng, min: usize, max: usize) -> Vec<u8> {
    let n = min + r.below(max - min + 1);
    (0..n).map(|_| rand_ws(r)).collect()
}

/// Separators of the original text, as abstract elements (whitespace bytes and comments).
fn parse_gap(g: &[u8]) -> (Vec<SepElem>, Option<Vec<u8>>) {
    let mut v = Vec::new();
    let mut i = 0;
    while i < g.len() {
        if g[i] == b'#' {
            let mut j = i + 1;
            while j < g.len() && g[j] != b'\n' && g[j] != b'\r' {
                j += 1;
            }
            if j >= g.len() {
                return (v, Some(g[i + 1..].to_vec()));
            }
            v.push(SepElem::Comment(g[i + 1..j].to_vec(), g[j]));
            i = j + 1;
        } else {
            v.push(SepElem::Ws(g[i]));
            i += 1;
        }
    }
    (v, None)
}

const KINDS: [&str; 12] =
    ["orig", "line", "mixed", "comments", "crlf", "respace", "dense", "random", "tall", "cr", "formfeed", "mixed"];

fn make_layout(kind: &str, src: &[u8], toks: &[Tok], pieces: &[Piece], r: &mut Rng) -> Abs {
    let n = toks.len();
    let mut a = Abs { lead: Vec::new(), inner: Vec::new(), after: Vec::new(), tail: None };
    let first_of = |i: usize| -> Option<u8> { if i < n { Some(src[toks[i].start]) } else { None } };
    // original gaps
    let orig_gap = |i: usize| -> (Vec<SepElem>, Option<Vec<u8>>) {
        let from = if i == 0 { 0 } else { toks[i - 1].end };
        let to = if i < n { toks[i].start } else { src.len() };
        parse_gap(&src[from..to])
    };
    match kind {
        "orig" | "crlf" | "respace" | "cr" => {
            let conv = |sp: Vec<SepElem>, kind: &str| -> Vec<SepElem> {
                let mut out = Vec::new();
                for e in sp {
                    match (kind, e) {
                        ("crlf", SepElem::Ws(b'\n')) => {
                            out.push(SepElem::Ws(b'\r'));
                            out.push(SepElem::Ws(b'\n'));
                        }
                        ("crlf", SepElem::Comment(b, b'\n')) => {
                            out.push(SepElem::Comment(b, b'\r'));
                            out.push(SepElem::Ws(b'\n'));
                        }
                        ("cr", SepElem::Ws(b'\n')) => out.push(SepElem::Ws(b'\r')),
                        ("cr", SepElem::Comment(b, b'\n')) => out.push(SepElem::Comment(b, b'\r')),
                        (_, e) => out.push(e),
                    }
                }
                out
            };
            let (l, t0) = orig_gap(0);
            a.lead = conv(l, kind);
            a.tail = t0;
            for i in 0..n {
                let (g, t) = orig_gap(i + 1);
                a.after.push(conv(g, kind));
                if t.is_some() {
                    a.tail = t;
                }
            }
        }
        _ => {
            if matches!(kind, "random" | "mixed" | "comments") && r.chance(50) {
                if r.chance(50) {
                    a.lead.push(rand_comment(r, 0));
                }
                for b in ws_run(r, 0, 2) {
                    a.lead.push(SepElem::Ws(b));
                }
            }
            for i in 0..n {
                let need = match first_of(i + 1) {
                    Some(h) => fuses(&pieces[i], h),
                    None => false,
                };
                let mut sp: Vec<SepElem> = Vec::new();
                match kind {
                    "line" => {
                        if need {
                            sp.push(SepElem::Ws(b' '));
                        }
                    }
                    "dense" => {
                        if need {
                            sp.push(SepElem::Ws([b'\t', 0x0c, b'\r', b' '][r.below(4)]));
                        }
                    }
                    "tall" => sp.push(SepElem::Ws(b'\n')),
                    "formfeed" => {
                        sp.push(SepElem::Ws(0x0c));
                        if r.chance(30) {
                            sp.push(SepElem::Ws(b'\t'));
                        }
                    }
                    "comments" => {
                        if r.chance(40) {
                            sp.push(SepElem::Ws(b' '));
                        }
                        sp.push(rand_comment(r, i));
                    }
                    "random" => {
                        for b in ws_run(r, usize::from(need), 3) {
                            sp.push(SepElem::Ws(b));
                        }
                    }
                    _ => {
                        // mixed: whitespace and comments in any order
                        let k = r.below(4);
                        for _ in 0..k {
                            if r.chance(35) {
                                sp.push(rand_comment(r, i));
                            } else {
                                sp.push(SepElem::Ws(rand_ws(r)));
                            }
                        }
                        if need && sp.is_empty() {
                            sp.push(SepElem::Ws(rand_ws(r)));
                        }
                    }
                }
                a.after.push(sp);
            }
            if matches!(kind, "mixed" | "comments") && r.chance(40) {
                a.tail = Some(match rand_comment(r, n) {
                    SepElem::Comment(b, _) if r.chance(70) => b,
                    _ => b" last line, no line break".to_vec(),
                });
            }
        }
    }
    // the identifiers `if` / `small`: the first non-blank byte behind them must not start a
    // continuation word (only a comment can keep them apart)
    for i in 0..n {
        if pieces[i].guard.is_empty() || kind == "orig" {
            continue;
        }
        let has_comment = a.after[i].iter().any(|e| matches!(e, SepElem::Comment(..)));
        let nxt: Option<u8> = if has_comment {
            Some(b'#')
        } else if i + 1 < n {
            first_of(i + 1)
        } else if a.tail.is_some() {
            Some(b'#')
        } else {
            None
        };
        if let Some(h) = nxt {
            if pieces[i].guard.contains(&h) {
                a.after[i].insert(0, SepElem::Comment(b" keeps the identifier apart".to_vec(), b'\n'));
            }
        }
    }
    // whitespace inside the multi-word keywords
    for (i, p) in pieces.iter().enumerate() {
        let mut gaps = Vec::new();
        if p.class == b'm' {
            for w in 1..p.words.len() {
                let g = match kind {
                    "orig" => p.orig_gaps.get(w - 1).cloned().unwrap_or_default(),
                    "line" => vec![b' '],
                    "dense" => vec![b'\t'],
                    "tall" => vec![b'\n'],
                    "formfeed" => vec![0x0c],
                    "crlf" => vec![b'\r', b'\n'],
                    "cr" => vec![b'\r'],
                    _ => inner_gap(r),
                };
                gaps.push(g);
            }
        }
        let _ = i;
        a.inner.push(gaps);
    }
    a
}

fn render(a: &Abs, pieces: &[Piece]) -> Vec<u8> {
    let mut out = Vec::new();
    sep_bytes(&a.lead, &mut out);
    for (i, p) in pieces.iter().enumerate() {
        out.extend_from_slice(&p.words[0]);
        for (w, g) in p.words[1..].iter().zip(a.inner[i].iter()) {
            out.extend_from_slice(g);
            out.extend_from_slice(w);
        }
        sep_bytes(&a.after[i], &mut out);
    }
    if let Some(t) = &a.tail {
        out.push(b'#');
        out.extend_from_slice(t);
    }
    out
}

impl Abs {
    /// `<lead> <tail> <n> {<tk> <inner> <after>}`; separators: `-` or `wHH` / `cBODYHEX:HH` joined
    /// by `,`; tail: `-` or `tBODYHEX`; inner: `-` or the whitespace runs in hex joined by `,`.
    fn encode(&self, pieces: &[Piece]) -> String {
        let mut s = String::new();
        let _ = write!(
            s,
            "{} {} {}",
            sep_code(&self.lead),
            match &self.tail {
                Some(t) => format!("t{}", hex0(t)),
                None => "-".into(),
            },
            pieces.len()
        );
        for (i, p) in pieces.iter().enumerate() {
            let inner = if self.inner[i].is_empty() {
                "-".to_string()
            } else {
                self.inner[i].iter().map(|g| hex0(g)).collect::<Vec<_>>().join(",")
            };
            let _ = write!(s, " {} {} {}", p.code, inner, sep_code(&self.after[i]));
        }
        s
    }
}

// ------------------------------------------------------------------ redundant parentheses

fn parens_variant(src: &str, toks: &[Tok], cands: &[(usize, usize)], pick: &[usize]) -> Option<(String, usize)> {
    let mut opens: HashMap<usize, usize> = HashMap::new();
    let mut closes: HashMap<usize, usize> = HashMap::new();
    let mut n = 0;
    for &c in pick {
        let (f, l) = cands[c];
        *opens.entry(toks[f].start).or_insert(0) += 1;
        *closes.entry(toks[l].end).or_insert(0) += 1;
        n += 1;
    }
    let b = src.as_bytes();
    let mut out = Vec::with_capacity(b.len() + 2 * n);
    for i in 0..=b.len() {
        if let Some(k) = closes.get(&i) {
            for _ in 0..*k {
                out.push(b')');
            }
        }
        if let Some(k) = opens.get(&i) {
            for _ in 0..*k {
                out.push(b'(');
            }
        }
        if i < b.len() {
            out.push(b[i]);
        }
    }
    String::from_utf8(out).ok().map(|s| (s, n))
}

// ------------------------------------------------------------------ driver

fn one_case(w: &mut impl std::io::Write, seed: u64, k: usize, src: &str, parens: bool) {
    let mut r = Rng(seed | 1);
    for _ in 0..4 {
        r.next();
    }
    let (toks, ndiag) = lex_all(src);
    if ndiag > 0 {
        writeln!(w, "SKIP lexer-diagnostics {ndiag}").unwrap();
        return;
    }
    let b = src.as_bytes();
    let mut pieces = Vec::new();
    for t in &toks {
        match piece(t, &b[t.start..t.end]) {
            Some(p) => pieces.push(p),
            None => {
                writeln!(w, "SKIP unreadable-token {}", t.kind).unwrap();
                return;
            }
        }
    }
    let base = observe(src, true);
    writeln!(
        w,
        "BASE {} {} {}",
        base.gate,
        toks.len(),
        hex(format!("P{} R{} O{} E{}", base.parse_diags, base.resolve_diags, base.output, base.ending).as_bytes())
    )
    .unwrap();
    w.flush().unwrap();
    for j in 0..k {
        let kind = KINDS[j % KINDS.len()];
        let abs = make_layout(kind, b, &toks, &pieces, &mut r);
        let text = render(&abs, &pieces);
        let Ok(text) = String::from_utf8(text) else {
            writeln!(w, "SKIP relayout-not-utf8 {j}").unwrap();
            continue;
        };
        writeln!(w, "L {j} {kind} {} {}", hex(text.as_bytes()), abs.encode(&pieces)).unwrap();
        w.flush().unwrap();
        if kind == "orig" {
            // the identity re-layout: the source itself, abstracted (model tie on the original text)
            writeln!(w, "T {j} {}", base.tokens).unwrap();
            if text == src {
                writeln!(w, "O {j} same").unwrap();
            } else {
                writeln!(w, "O {j} DIFF orig-render {} {}", hex(src.as_bytes()), hex(text.as_bytes())).unwrap();
            }
            continue;
        }
        let o = observe(&text, false);
        writeln!(w, "T {j} {}", o.tokens).unwrap();
        match first_diff(&base, &o, true) {
            None => writeln!(w, "O {j} same").unwrap(),
            Some((f, x, y)) => writeln!(w, "O {j} DIFF {f} {} {}", hex(x.as_bytes()), hex(y.as_bytes())).unwrap(),
        }
        w.flush().unwrap();
    }
    // redundant parentheses (programs the parser accepts without diagnostics)
    if !parens {
        return;
    }
    if base.gate != "parse" && !base.cands_ok {
        writeln!(w, "X 0 0 - unmapped").unwrap();
    }
    if base.gate != "parse" && base.cands_ok && !base.cands.is_empty() {
        let nc = base.cands.len();
        let variants: Vec<Vec<usize>> = vec![
            vec![r.below(nc)],
            (0..nc).filter(|_| r.chance(30)).collect(),
            (0..nc).collect(),
        ];
        for (j, pick) in variants.iter().enumerate() {
            if pick.is_empty() {
                continue;
            }
            match parens_variant(src, &toks, &base.cands, pick) {
                None => writeln!(w, "X {j} 0 - unmapped").unwrap(),
                Some((text, n)) => {
                    writeln!(w, "XT {j} {n} {}", hex(text.as_bytes())).unwrap();
                    w.flush().unwrap();
                    let o = observe(&text, false);
                    match first_diff(&base, &o, false) {
                        None => writeln!(w, "X {j} {n} same").unwrap(),
                        Some((f, x, y)) => {
                            writeln!(w, "X {j} {n} DIFF {f} {} {}", hex(x.as_bytes()), hex(y.as_bytes())).unwrap();
                        }
                    }
                }
            }
            w.flush().unwrap();
        }
    }
}

/// Start time (ms since the process started, +1) of the case being run; 0 = idle.
static CASE_STARTED_MS: std::sync::atomic::AtomicU64 = std::sync::atomic::AtomicU64::new(0);

pub fn run(args: &[String]) -> ExitCode {
    let mut from = 0usize;
    let mut limit_ms = 20_000u64;
    let mut files = Vec::new();
    let mut i = 0;
    while i < args.len() {
        if args[i] == "--from" {
            from = args[i + 1].parse().expect("--from N");
            i += 1;
        } else if args[i] == "--limit-ms" {
            limit_ms = args[i + 1].parse().expect("--limit-ms N");
            i += 1;
        } else {
            files.push(args[i].clone());
        }
        i += 1;
    }
    let input = fs::read_to_string(&files[0]).expect("read input");
    let out_path = files[1].clone();
    // `shout` also prints to stdout: send that to /dev/null
    unsafe {
        let devnull = libc::open(c"/dev/null".as_ptr(), libc::O_WRONLY);
        if devnull >= 0 {
            libc::dup2(devnull, 1);
        }
    }
    panic::set_hook(Box::new(|info| {
        let loc = info.location().map_or(String::new(), |l| format!("{}:{}", l.file(), l.line()));
        LAST_PANIC.with(|m| *m.borrow_mut() = loc);
    }));
    // watchdog: a program that does not terminate (the generator's mutations can produce one) must
    // not stall the run; exit code 97 tells the caller that the announced case timed out
    let t0 = std::time::Instant::now();
    std::thread::spawn(move || {
        loop {
            std::thread::sleep(std::time::Duration::from_millis(100));
            let st = CASE_STARTED_MS.load(std::sync::atomic::Ordering::Relaxed);
            if st != 0 && t0.elapsed().as_millis() as u64 > st + limit_ms {
                std::process::exit(97);
            }
        }
    });
    let handle = std::thread::Builder::new()
        .stack_size(16 * MEBI)
        .spawn(move || {
            let f = fs::OpenOptions::new().create(true).append(true).open(&out_path).expect("open output");
            let mut w = std::io::BufWriter::new(f);
            for (idx, line) in input.lines().enumerate() {
                if idx < from {
                    continue;
                }
                let p: Vec<&str> = line.split_whitespace().collect();
                if p.len() != 5 || (p[0] != "P" && p[0] != "Q") {
                    continue;
                }
                writeln!(w, "CASE {idx} {}", p[1]).unwrap();
                w.flush().unwrap();
                CASE_STARTED_MS.store(t0.elapsed().as_millis() as u64 + 1, std::sync::atomic::Ordering::Relaxed);
                let seed: u64 = p[2].parse().unwrap_or(1);
                let k: usize = p[3].parse().unwrap_or(6);
                match unhex(p[4]) {
                    Some(src) => one_case(&mut w, seed, k, &src, p[0] == "P"),
                    None => writeln!(w, "SKIP not-utf8").unwrap(),
                }
                CASE_STARTED_MS.store(0, std::sync::atomic::Ordering::Relaxed);
                writeln!(w, "END {idx}").unwrap();
                w.flush().unwrap();
            }
        })
        .unwrap();
    match handle.join() {
        Ok(()) => ExitCode::SUCCESS,
        Err(_) => ExitCode::from(3),
    }
}
