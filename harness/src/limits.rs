//! C18: analysis budgets.
//!
//! `nsverif limits fn <in> <out>`    function-level: one count vector + caps per line, the real
//!                                   `first_exceeded_limit` is called on facts/counts built with
//!                                   exactly those sizes (public API and public fields only).
//! `nsverif limits progs <list> <out> [arena_mib] [nofull] [sumx]`   the same for every `<id> <path>` line of <list>,
//!                                   one JSON object per line.
//! `nsverif limits prog <src> <out> [arena_mib] [nofull]`
//!                                   program-level: parser + resolver (the real gate) + runtime,
//!                                   with the resolver's plan, with no plan, and with the plan
//!                                   recomputed through the public analysis API bypassing the gate.
//!                                   Writes one JSON object.
use std::cell::RefCell;
use std::fmt::Write as _;
use std::fs;
use std::panic::{self, AssertUnwindSafe};
use std::process::ExitCode;
use std::time::Instant;

use naijascript::analysis::cfg::{self, ProgramCounts};
use naijascript::analysis::diagnostics as adiag;
use naijascript::analysis::facts::{LocalInfo, LocalKind, ProgramFacts, ScopeInfo, UserCallBinding};
use naijascript::analysis::ids::{FunctionId, ScopeId};
use naijascript::analysis::limits::{AnalysisCaps, AnalysisLimit, DEFAULT_CAPS, first_exceeded_limit};
use naijascript::analysis::opt::{self, OptimizationInputs, OptimizationPlan};
use naijascript::analysis::{liveness, reachability, summary};
use naijascript::arena::Arena;
use naijascript::diagnostics::{Diagnostics, Severity, Span};
use naijascript::resolver::Resolver;
use naijascript::runtime::Runtime;
use naijascript::syntax::parser::{BlockRef, Expr, ExprRef, ParamListRef, Parser, Stmt, StmtRef};
use naijascript::syntax::scanner::Lexer;

const MEBI: usize = 1024 * 1024;

thread_local! {
    static LAST_PANIC: RefCell<String> = const { RefCell::new(String::new()) };
}

fn install_panic_hook() {
    panic::set_hook(Box::new(|info| {
        let loc = info.location().map(|l| format!("{}:{}", l.file(), l.line())).unwrap_or_default();
        let msg = if let Some(s) = info.payload().downcast_ref::<&str>() {
            (*s).to_string()
        } else if let Some(s) = info.payload().downcast_ref::<String>() {
            s.clone()
        } else {
            String::from("?")
        };
        eprintln!("nsverif limits: panic at {loc}: {msg}");
        LAST_PANIC.with(|m| *m.borrow_mut() = format!("{loc} {msg}"));
    }));
}

fn last_panic() -> String {
    LAST_PANIC.with(|m| m.borrow().clone())
}

pub fn run(args: &[String]) -> ExitCode {
    install_panic_hook();
    match args.first().map(String::as_str) {
        Some("fn") if args.len() >= 3 => run_fn(&args[1], &args[2]),
        Some("prog") if args.len() >= 3 => run_prog(&args[1], &args[2], &args[3..]),
        Some("progs") if args.len() >= 3 => run_progs(&args[1], &args[2], &args[3..]),
        Some("caps") => {
            let k = DEFAULT_CAPS;
            println!(
                "caps {},{},{},{},{},{},{},{},{},{},{}",
                k.max_functions,
                k.max_locals,
                k.max_scopes,
                k.max_statements,
                k.max_total_ops,
                k.max_ops_per_function,
                k.max_total_blocks,
                k.max_blocks_per_function,
                k.max_direct_user_calls,
                k.max_summary_events,
                k.max_liveness_events
            );
            ExitCode::SUCCESS
        }
        _ => {
            eprintln!("usage: nsverif limits fn <in> <out> | limits prog <src> <out> [arena_mib] [nofull]");
            ExitCode::from(2)
        }
    }
}

// ------------------------------------------------------------------------------------------
// function level

struct Dummies<'a> {
    root: BlockRef<'a>,
    body: BlockRef<'a>,
    params: ParamListRef<'a>,
    stmt: StmtRef<'a>,
    call: ExprRef<'a>,
    span: Span,
}

fn dummies<'a>(arena: &'a Arena) -> Dummies<'a> {
    let src: &'static str = "do f(a) start\nend\nf(1)\n";
    let lexer = Lexer::new(src, arena);
    let mut parser = Parser::new(lexer, arena);
    let (root, _) = parser.parse_program();
    let mut body = None;
    let mut params = None;
    let mut call = None;
    let mut stmt0 = None;
    for &stmt in root.stmts {
        match stmt {
            Stmt::FunctionDef { body: b, params: p, .. } => {
                body = Some(*b);
                params = Some(*p);
            }
            Stmt::Expression { expr, .. } => {
                if let Expr::Call { .. } = expr {
                    call = Some(*expr);
                }
                stmt0 = Some(stmt);
            }
            _ => {}
        }
    }
    Dummies {
        root,
        body: body.expect("dummy function"),
        params: params.expect("dummy params"),
        stmt: stmt0.expect("dummy stmt"),
        call: call.expect("dummy call"),
        span: root.span,
    }
}

fn parse_u64s(s: &str) -> Vec<u64> {
    s.split(',').filter(|x| !x.is_empty()).map(|x| x.parse::<u64>().expect("number")).collect()
}

fn limit_str(l: Option<AnalysisLimit>) -> String {
    match l {
        None => "none".to_string(),
        Some(l) => format!("{} {} {}", l.metric.replace(' ', "_"), l.observed, l.limit),
    }
}

/// Line: `C <id> | k1,...,k11 | nL,nS,nN,nC,total_ops,total_blocks | b,o,l b,o,l ...`
/// (caps in declaration order; one `b,o,l` triple per function: function_blocks[i],
/// function_ops[i], functions[i].locals_len).
fn fn_case(line: &str, arena: &Arena, d: &Dummies<'_>) -> String {
    let parts: Vec<&str> = line.split('|').map(str::trim).collect();
    let id = parts[0].split_whitespace().nth(1).unwrap_or("?");
    let k = parse_u64s(parts[1]);
    let g = parse_u64s(parts[2]);
    let caps = AnalysisCaps {
        max_functions: k[0] as u32,
        max_locals: k[1] as u32,
        max_scopes: k[2] as u32,
        max_statements: k[3] as u32,
        max_total_ops: k[4] as u32,
        max_ops_per_function: k[5] as u32,
        max_total_blocks: k[6] as u32,
        max_blocks_per_function: k[7] as u32,
        max_direct_user_calls: k[8] as u32,
        max_summary_events: k[9],
        max_liveness_events: k[10],
    };
    let triples: Vec<Vec<u64>> = parts.get(3).map_or_else(Vec::new, |p| p.split_whitespace().map(parse_u64s).collect());
    let mark = arena.offset();
    let res = panic::catch_unwind(AssertUnwindSafe(|| {
        let mut facts: ProgramFacts<'_, '_> = ProgramFacts::new(arena);
        let mut function_blocks = Vec::new_in(arena);
        let mut function_ops = Vec::new_in(arena);
        for (i, t) in triples.iter().enumerate() {
            if i == 0 {
                facts.push_root_function(d.root);
            } else {
                facts.push_function("f", d.params, Some(FunctionId(0)), ScopeId(0), d.span, d.body);
            }
            let info = &mut facts.functions[i];
            info.locals_start = 0;
            info.locals_len = t[2] as u32;
            function_blocks.push(t[0] as u32);
            function_ops.push(t[1] as u32);
        }
        for _ in 0..g[0] {
            facts.locals.push(LocalInfo {
                name: "x",
                owner: FunctionId(0),
                declaring_scope: ScopeId(0),
                decl_span: d.span,
                decl_stmt: None,
                kind: LocalKind::Variable,
            });
        }
        for _ in 0..g[1] {
            facts.scopes.push(ScopeInfo { parent: None, owner: FunctionId(0), span: d.span });
        }
        for _ in 0..g[2] {
            facts.push_stmt_effect(d.stmt, FunctionId(0), ScopeId(0));
        }
        for _ in 0..g[3] {
            facts.user_calls.push(UserCallBinding { call: d.call, caller: FunctionId(0), callee: FunctionId(0) });
        }
        let counts = ProgramCounts {
            function_blocks,
            function_ops,
            total_blocks: g[5] as u32,
            total_ops: g[4] as u32,
            total_statements: g[2] as u32,
        };
        limit_str(first_exceeded_limit(&facts, &counts, caps))
    }));
    unsafe { arena.reset(mark) };
    match res {
        Ok(s) => format!("C {id} -> {s}"),
        Err(_) => format!("C {id} -> panic {}", last_panic().replace(' ', "_")),
    }
}

fn run_fn(input: &str, output: &str) -> ExitCode {
    let text = fs::read_to_string(input).expect("read input");
    let arena = Arena::new(3072 * MEBI).expect("arena");
    let d = dummies(&arena);
    let mut out = String::new();
    for line in text.lines() {
        if line.starts_with("C ") {
            out.push_str(&fn_case(line, &arena, &d));
            out.push('\n');
        }
    }
    fs::write(output, out).expect("write output");
    ExitCode::SUCCESS
}

// ------------------------------------------------------------------------------------------
// program level

fn jstr(s: &str) -> String {
    let mut o = String::with_capacity(s.len() + 2);
    o.push('"');
    for c in s.chars() {
        match c {
            '"' => o.push_str("\\\""),
            '\\' => o.push_str("\\\\"),
            '\n' => o.push_str("\\n"),
            '\r' => o.push_str("\\r"),
            '\t' => o.push_str("\\t"),
            c if (c as u32) < 0x20 => {
                let _ = write!(o, "\\u{:04x}", c as u32);
            }
            c => o.push(c),
        }
    }
    o.push('"');
    o
}

fn sev(s: Severity) -> &'static str {
    match s {
        Severity::Error => "error",
        Severity::Warning => "warning",
        Severity::Note => "note",
    }
}

fn fnv(h: &mut u64, bytes: &[u8]) {
    for b in bytes {
        *h ^= u64::from(*b);
        *h = h.wrapping_mul(0x0000_0100_0000_01b3);
    }
}

fn diags_json(d: &Diagnostics<'_>) -> String {
    let mut o = String::from("[");
    for (i, dg) in d.diagnostics.iter().enumerate() {
        if i > 0 {
            o.push(',');
        }
        let label = dg.labels.first().map_or("", |l| &*l.message);
        let _ = write!(
            o,
            "[{},{},{},{},{}]",
            jstr(sev(dg.severity)),
            jstr(dg.code),
            jstr(dg.message),
            dg.span.start,
            jstr(label)
        );
    }
    o.push(']');
    o
}

fn plan_json(p: Option<&OptimizationPlan<'_>>) -> String {
    match p {
        None => "null".to_string(),
        Some(p) => {
            let mut h = 0xcbf2_9ce4_8422_2325_u64;
            for s in &p.removable_stmts {
                fnv(&mut h, &s.0.to_le_bytes());
            }
            fnv(&mut h, b"|");
            for f in &p.removable_function_defs {
                fnv(&mut h, &f.0.to_le_bytes());
            }
            let head: Vec<String> = p.removable_stmts.iter().take(12).map(|s| s.0.to_string()).collect();
            let fhead: Vec<String> = p.removable_function_defs.iter().take(12).map(|s| s.0.to_string()).collect();
            let rs_low: Vec<String> = p.removable_stmts.iter().filter(|s| s.0 < 256).map(|s| s.0.to_string()).collect();
            let rf_low: Vec<String> = p.removable_function_defs.iter().filter(|s| s.0 < 256).map(|s| s.0.to_string()).collect();
            format!(
                "{{\"rs\":{},\"rf\":{},\"h\":\"{:016x}\",\"rs_head\":[{}],\"rf_head\":[{}],\"rs_low\":[{}],\"rf_low\":[{}]}}",
                p.removable_stmts.len(),
                p.removable_function_defs.len(),
                h,
                head.join(","),
                fhead.join(","),
                rs_low.join(","),
                rf_low.join(",")
            )
        }
    }
}

/// Runs the tree-walk runtime once; returns a JSON object {end, n, h, head}.
fn run_once<'a>(
    arena: &'a Arena,
    frame: &'a Arena,
    root: BlockRef<'a>,
    facts: &ProgramFacts<'a, 'a>,
    plan: Option<&OptimizationPlan<'a>>,
) -> String {
    // Everything one run allocates in the persistent arena (pools, environments, output) is
    // released again afterwards, so the three configurations see the same free space the
    // single run of the CLI sees.
    let mark = arena.offset();
    let line = run_once_inner(arena, frame, root, facts, plan);
    unsafe {
        arena.reset(mark);
        frame.reset(0);
    }
    line
}

fn run_once_inner<'a>(
    arena: &'a Arena,
    frame: &'a Arena,
    root: BlockRef<'a>,
    facts: &ProgramFacts<'a, 'a>,
    plan: Option<&OptimizationPlan<'a>>,
) -> String {
    let mut runtime = match panic::catch_unwind(AssertUnwindSafe(|| Runtime::new(arena, Some(frame)))) {
        Ok(r) => r,
        Err(_) => return format!("{{\"end\":{},\"n\":0,\"h\":\"\",\"head\":[],\"tail\":[]}}", jstr(&format!("panic:{}", last_panic()))),
    };
    let res = panic::catch_unwind(AssertUnwindSafe(|| {
        runtime.run_with_analysis(root, facts, plan);
    }));
    let end = match res {
        Ok(()) => {
            if runtime.errors.has_errors() {
                format!("err:{}", runtime.errors.diagnostics.first().map_or("?", |d| d.message))
            } else {
                "ok".to_string()
            }
        }
        Err(_) => format!("panic:{}", last_panic()),
    };
    let mut h = 0xcbf2_9ce4_8422_2325_u64;
    let mut head = Vec::new();
    let mut tail = Vec::new();
    let n = runtime.output.len();
    for (i, v) in runtime.output.iter().enumerate() {
        let s = format!("{v}");
        fnv(&mut h, s.as_bytes());
        fnv(&mut h, b"\n");
        if i < 24 {
            head.push(jstr(&s));
        }
        if i + 3 >= n && i >= 24 {
            tail.push(jstr(&s));
        }
    }
    format!(
        "{{\"end\":{},\"n\":{},\"h\":\"{:016x}\",\"head\":[{}],\"tail\":[{}]}}",
        jstr(&end),
        n,
        h,
        head.join(","),
        tail.join(",")
    )
}

static SUMX: std::sync::atomic::AtomicBool = std::sync::atomic::AtomicBool::new(false);

fn class_rank(c: naijascript::analysis::effects::ExprClass) -> u64 {
    use naijascript::analysis::effects::ExprClass;
    match c {
        ExprClass::PureNoTrap => 0,
        ExprClass::PureMayTrap => 1,
        ExprClass::Impure => 2,
    }
}

fn unavailable(s: &[summary::FunctionSummary<'_>]) -> usize {
    s.iter().filter(|x| !x.available).count()
}

/// Exact-budget probes of the summary fixpoint through the public API: the number of rows the
/// unbounded run inserts (set growth + class steps) must be a sufficient budget, one less than
/// the rows that certainly cost an event must not be, and the preflight estimate must suffice.
fn summary_exactness(facts: &ProgramFacts<'_, '_>, scratch: &Arena) -> String {
    let inf = summary::compute_summaries_with_max_events(facts, u64::MAX, scratch);
    let mut ins: u64 = 0;
    let mut cls_changed: u64 = 0;
    let mut cls_dist: u64 = 0;
    for x in &inf {
        ins += (x.transitive_callees.len() - x.direct_callees.len()) as u64;
        ins += (x.transitive_capture_reads.len() - x.direct_capture_reads.len()) as u64;
        ins += (x.transitive_capture_writes.len() - x.direct_capture_writes.len()) as u64;
        if x.transitive_class != x.body_class {
            cls_changed += 1;
        }
        cls_dist += class_rank(x.transitive_class) - class_rank(x.body_class);
    }
    let f = facts.functions.len() as u128;
    let l = facts.locals.len() as u128;
    let est = u64::try_from(f * (f + 2 * l + 2)).unwrap_or(u64::MAX);
    let ub = ins + cls_dist;
    let lb = ins + cls_changed;
    let un_ub = unavailable(&summary::compute_summaries_with_max_events(facts, ub, scratch));
    let un_est = unavailable(&summary::compute_summaries_with_max_events(facts, est, scratch));
    let un_lb1: i64 =
        if lb > 0 { unavailable(&summary::compute_summaries_with_max_events(facts, lb - 1, scratch)) as i64 } else { -1 };
    format!(
        "{{\"ins\":{ins},\"cls_changed\":{cls_changed},\"cls_dist\":{cls_dist},\"est\":{est},\"unavail_inf\":{},\"unavail_ub\":{un_ub},\"unavail_est\":{un_est},\"unavail_lb1\":{un_lb1}}}",
        unavailable(&inf)
    )
}

struct Full<'a> {
    summ: String,
    plan: OptimizationPlan<'a>,
    warnings: String, // JSON list [[kind, stmt_id, span_start], ...] in emission order before sorting
}

/// The analyses of `emit_analysis_warnings`, called through the public API without the gate.
fn full_analysis<'a>(facts: &ProgramFacts<'a, 'a>, counts: &ProgramCounts<'_>, scratch: &'a Arena, arena: &'a Arena) -> Full<'a> {
    let program = cfg::build_program_with_counts(facts, counts, scratch);
    let program: &'a cfg::CfgProgram<'a, 'a> = scratch_leak(scratch, program);
    let reachable = reachability::reachable_statement_mask(program, scratch);
    let unreachable = reachability::unreachable_statements(program, scratch);
    let summaries = summary::compute_summaries(facts, scratch);
    let summaries: &'a Vec<summary::FunctionSummary<'a>, &'a Arena> = scratch_leak(scratch, summaries);
    let mut summ = format!("{{\"unavail\":{}", unavailable(summaries));
    if SUMX.load(std::sync::atomic::Ordering::Relaxed) {
        let _ = write!(summ, ",\"x\":{}", summary_exactness(facts, scratch));
    }
    summ.push('}');
    let function_reachability = adiag::compute_function_reachability(program, facts, &reachable, scratch);
    let unused_assignments = liveness::unused_assignments(program, facts, summaries, &reachable, scratch);
    let unused_variables =
        adiag::unused_variables(program, facts, summaries, &reachable, &function_reachability, scratch);
    let unused_functions = adiag::unused_functions(facts, &reachable, &function_reachability, scratch);
    let plan = opt::build_optimization_plan(
        OptimizationInputs {
            program,
            facts,
            summaries,
            reachable: &reachable,
            unused_assignments: &unused_assignments,
            unused_variables: &unused_variables,
            unused_functions: &unused_functions,
        },
        arena,
    );
    let mut w = String::from("[");
    let mut first = true;
    let mut push = |kind: &str, stmt: u32, start: usize| {
        if !first {
            w.push(',');
        }
        first = false;
        let _ = write!(w, "[\"{kind}\",{stmt},{start}]");
    };
    for x in &unreachable {
        push("U", x.stmt_id.0, x.span.start);
    }
    for x in &unused_assignments {
        push("A", x.stmt_id.0, x.span.start);
    }
    for x in &unused_variables {
        push("V", x.stmt_id.0, x.span.start);
    }
    for x in &unused_functions {
        push("F", x.stmt_id.0, x.span.start);
    }
    w.push(']');
    Full { summ, plan, warnings: w }
}

/// Moves a value into the arena so it can be borrowed for the arena's lifetime (never dropped;
/// the process ends right after).
fn scratch_leak<'a, T>(arena: &'a Arena, v: T) -> &'a T {
    let b = Box::new_in(v, arena);
    Box::leak(b)
}

struct Arenas {
    arena: &'static Arena,
    res_arena: &'static Arena,
    scratch: &'static Arena,
    frame: &'static Arena,
}

impl Arenas {
    fn new(arena_mib: usize) -> Self {
        let mk = |mib: usize| -> &'static Arena { Box::leak(Box::new(Arena::new(mib * MEBI).expect("arena"))) };
        Self { arena: mk(arena_mib), res_arena: mk(arena_mib), scratch: mk(4 * arena_mib), frame: mk(arena_mib) }
    }

    fn reset(&self) {
        unsafe {
            self.arena.reset(0);
            self.res_arena.reset(0);
            self.scratch.reset(0);
            self.frame.reset(0);
        }
    }
}

fn run_prog(src_path: &str, output: &str, rest: &[String]) -> ExitCode {
    let arena_mib: usize = rest.first().and_then(|s| s.parse().ok()).unwrap_or(256);
    let nofull = rest.iter().any(|s| s == "nofull");
    SUMX.store(rest.iter().any(|s| s == "sumx"), std::sync::atomic::Ordering::Relaxed);
    let src = fs::read_to_string(src_path).expect("read source");
    let arenas = Arenas::new(arena_mib);
    let o = prog_json(Box::leak(src.into_boxed_str()), &arenas, nofull);
    fs::write(output, o).expect("write");
    ExitCode::SUCCESS
}

/// Batch: every line of <list> is `<id> <path>`; one JSON object per line is appended to
/// <out> as soon as the program is done (so a crash loses only the program that crashed).
fn run_progs(list: &str, output: &str, rest: &[String]) -> ExitCode {
    use std::io::Write as _;
    let arena_mib: usize = rest.first().and_then(|s| s.parse().ok()).unwrap_or(256);
    let nofull = rest.iter().any(|s| s == "nofull");
    SUMX.store(rest.iter().any(|s| s == "sumx"), std::sync::atomic::Ordering::Relaxed);
    let text = fs::read_to_string(list).expect("read list");
    let arenas = Arenas::new(arena_mib);
    let mut out = fs::File::create(output).expect("create output");
    for line in text.lines() {
        let mut it = line.split_whitespace();
        let (Some(id), Some(path)) = (it.next(), it.next()) else { continue };
        let src = fs::read_to_string(path).expect("read source");
        let o = prog_json(Box::leak(src.into_boxed_str()), &arenas, nofull);
        writeln!(out, "{{\"id\":{},\"r\":{}}}", jstr(id), o).expect("write");
        out.flush().expect("flush");
        arenas.reset();
    }
    ExitCode::SUCCESS
}

fn prog_json(src: &'static str, a: &Arenas, nofull: bool) -> String {
    let (arena, res_arena, scratch, frame) = (a.arena, a.res_arena, a.scratch, a.frame);
    let mut o = String::from("{");
    let t0 = Instant::now();
    let lexer = Lexer::new(src, arena);
    let mut parser = Parser::new(lexer, arena);
    let (root, perr) = parser.parse_program();
    let t_parse = t0.elapsed().as_millis();
    let _ = write!(o, "\"parse_errors\":{}", perr.diagnostics.len());
    if !perr.diagnostics.is_empty() {
        let _ = write!(o, ",\"parse_diags\":{}", diags_json(perr));
        o.push('}');
        return o;
    }
    let t1 = Instant::now();
    let mut resolver = Resolver::with_facts_arena(res_arena, arena);
    let rres = panic::catch_unwind(AssertUnwindSafe(|| resolver.resolve(root)));
    let t_resolve = t1.elapsed().as_millis();
    if rres.is_err() {
        let _ = write!(o, ",\"resolve_panic\":{}}}", jstr(&last_panic()));
        return o;
    }
    let accepted = !resolver.errors.has_errors();
    let _ = write!(o, ",\"diags\":{},\"accepted\":{}", diags_json(&resolver.errors), accepted);
    // what the preflight measured
    let facts = &resolver.facts;
    let counts = cfg::count_program(facts, res_arena);
    let mut pf = String::from("[");
    for (i, (b, ops)) in counts.function_blocks.iter().zip(&counts.function_ops).enumerate() {
        if i > 0 {
            pf.push(',');
        }
        let r = facts.local_range(FunctionId(i as u32));
        let _ = write!(pf, "[{},{},{},{}]", jstr(facts.functions[i].name), b, ops, r.end - r.start);
    }
    pf.push(']');
    let _ = write!(
        o,
        ",\"counts\":{{\"F\":{},\"L\":{},\"S\":{},\"N\":{},\"C\":{},\"tops\":{},\"tblocks\":{},\"tstmts\":{},\"pf\":{}}}",
        facts.functions.len(),
        facts.locals.len(),
        facts.scopes.len(),
        facts.stmt_effects.len(),
        facts.user_calls.len(),
        counts.total_ops,
        counts.total_blocks,
        counts.total_statements,
        pf
    );
    let lim = first_exceeded_limit(facts, &counts, DEFAULT_CAPS);
    match lim {
        None => o.push_str(",\"limit\":null"),
        Some(l) => {
            let _ = write!(o, ",\"limit\":[{},{},{}]", jstr(l.metric), l.observed, l.limit);
        }
    }
    let _ = write!(o, ",\"plan\":{}", plan_json(resolver.optimization_plan.as_ref()));
    let mut t_full = 0;
    let mut t_run = 0;
    if accepted {
        let t2 = Instant::now();
        let facts_ref: &ProgramFacts<'static, 'static> = unsafe { &*(facts as *const ProgramFacts<'static, 'static>) };
        let full = if nofull {
            None
        } else {
            match panic::catch_unwind(AssertUnwindSafe(|| full_analysis(facts_ref, &counts, scratch, arena))) {
                Ok(f) => Some(f),
                Err(_) => {
                    let _ = write!(o, ",\"full_panic\":{}", jstr(&last_panic()));
                    None
                }
            }
        };
        t_full = t2.elapsed().as_millis();
        if let Some(f) = &full {
            let _ = write!(o, ",\"full\":{{\"plan\":{},\"warn\":{},\"summ\":{}}}", plan_json(Some(&f.plan)), f.warnings, f.summ);
        }
        let t3 = Instant::now();
        let plan_ref = resolver.optimization_plan.as_ref();
        let _ = write!(o, ",\"run_plan\":{}", run_once(arena, frame, root, facts_ref, plan_ref));
        let _ = write!(o, ",\"run_none\":{}", run_once(arena, frame, root, facts_ref, None));
        if let Some(f) = &full {
            let _ = write!(o, ",\"run_full\":{}", run_once(arena, frame, root, facts_ref, Some(&f.plan)));
        }
        t_run = t3.elapsed().as_millis();
    }
    let _ = write!(
        o,
        ",\"t\":{{\"parse\":{t_parse},\"resolve\":{t_resolve},\"full\":{t_full},\"run\":{t_run}}},\"debug\":{}}}",
        cfg!(debug_assertions)
    );
    o
}
