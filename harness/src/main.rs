#![feature(allocator_api)]
//! nsverif — implementation side of every correspondence check.
//! Usage: nsverif <mode> [args...]

mod bump;
mod capture;
mod f64ops;
mod frontend;
mod lang;
mod layout;
mod limits;
mod mem;
mod parsedump;
mod pipeline;
mod pool;
mod proc;
mod readline;
mod strlib;

use std::env;
use std::process::ExitCode;

fn main() -> ExitCode {
    let args: Vec<String> = env::args().collect();
    if args.len() < 2 {
        eprintln!("usage: nsverif <mode> ...");
        return ExitCode::from(2);
    }
    match args[1].as_str() {
        "tables" => {
            tables();
            ExitCode::SUCCESS
        }
        "bump" => bump::run(&args[2], &args[3]),
        "capture" => capture::run(&args[2], &args[3]),
        "f64" => f64ops::run(&args[2], &args[3]),
        "lang" => lang::run(&args[2..]),
        "layout" => layout::run(&args[2..]),
        "limits" => limits::run(&args[2..]),
        "mem" => mem::run(&args[2..]),
        "parsedump" => parsedump::run(&args[2..]),
        "pipeline" => pipeline::run(&args[2..]),
        "pool" => pool::run(&args[2], &args[3]),
        "proc" => proc::run(&args[2], &args[3]),
        "readline" => readline::run(&args[2..]),
        "strlib" => strlib::run(&args[2], &args[3]),
        "frontend" => frontend::run(&args[2..]),
        other => {
            eprintln!("unknown mode {other}");
            ExitCode::from(2)
        }
    }
}

fn tables() {
    use naijascript::arena::verif_pool as vp;
    let sizes: Vec<String> = vp::VERIF_SLOT_SIZES.iter().map(|x| x.to_string()).collect();
    let counts: Vec<String> = vp::VERIF_SLOT_COUNTS.iter().map(|x| x.to_string()).collect();
    println!(
        "{{\"class_count\": {}, \"slot_sizes\": [{}], \"slot_counts\": [{}], \"debug_assertions\": {}}}",
        vp::VERIF_CLASS_COUNT,
        sizes.join(", "),
        counts.join(", "),
        cfg!(debug_assertions)
    );
}
