//! `nsverif mem <in> <out> [cfgs]` — reclamation counters for C02 (evidence only).
//!
//! Input: the same `\x01CASE <id>` batches as `nsverif lang`.  Every accepted program is run
//! with the separate frame arena (`nf`, and `pf` when asked) and the guarded counters of
//! `naijascript::runtime::verif_counters` are read back:
//!
//!   ctr <id> <cfg> <frame resets> <pool returns> <promotions> <ending> | <printed values>
//!
//! Programs that crash natively must not be sent here (the caller filters them with
//! `nsverif lang` first); a panic is caught and reported as ending `panic`.
use std::fs;
use std::io::Write;
use std::panic::{self, AssertUnwindSafe};
use std::process::ExitCode;

use naijascript::arena::Arena;
use naijascript::helpers::MEBI;
use naijascript::resolver::Resolver;
use naijascript::runtime::{Runtime, verif_counters};
use naijascript::syntax::parser::Parser;
use naijascript::syntax::scanner::Lexer;

use crate::lang::value_repr;

fn run_one(w: &mut impl Write, id: &str, src: &str, cfgs: &[&str]) {
    let arena = Arena::new(256 * MEBI).unwrap();
    let lexer = Lexer::new(src, &arena);
    let mut parser = Parser::new(lexer, &arena);
    let (root, parse_errors) = parser.parse_program();
    if parse_errors.has_errors() {
        writeln!(w, "rejected {id}").unwrap();
        return;
    }
    let mut resolver = Resolver::new(&arena);
    resolver.resolve(root);
    if resolver.errors.has_errors() {
        writeln!(w, "rejected {id}").unwrap();
        return;
    }
    for cfg in cfgs {
        let b = cfg.as_bytes();
        let with_plan = b[0] == b'p';
        let with_frame = b[1] == b'f';
        // fresh arenas per configuration, as in `nsverif lang`
        let arena2 = Arena::new(256 * MEBI).unwrap();
        let frame = Arena::new(128 * MEBI).unwrap();
        let lexer = Lexer::new(src, &arena2);
        let mut parser = Parser::new(lexer, &arena2);
        let (root2, _) = parser.parse_program();
        let mut resolver2 = Resolver::new(&arena2);
        resolver2.resolve(root2);
        let mut runtime = Runtime::new(&arena2, if with_frame { Some(&frame) } else { None });
        let plan = if with_plan { resolver2.optimization_plan.as_ref() } else { None };
        verif_counters::reset();
        let res = panic::catch_unwind(AssertUnwindSafe(|| {
            runtime.run_with_analysis(root2, &resolver2.facts, plan);
        }));
        let (resets, returns, promotions) = verif_counters::snapshot();
        let ending = match res {
            Ok(()) => match runtime.errors.diagnostics.first() {
                Some(d) => format!("err:{}", d.message.replace(' ', "_")),
                None => "ok".to_string(),
            },
            Err(_) => "panic".to_string(),
        };
        let mut vals = String::new();
        if res.is_ok() {
            for v in &runtime.output {
                vals.push(' ');
                value_repr(v, &mut vals);
            }
        }
        writeln!(w, "ctr {id} {cfg} {resets} {returns} {promotions} {ending} |{vals}").unwrap();
        w.flush().unwrap();
    }
}

pub fn run(args: &[String]) -> ExitCode {
    let input = fs::read_to_string(&args[0]).expect("read input");
    let out_path = args[1].clone();
    let cfgs_owned: Vec<String> = if args.len() > 2 {
        args[2].split(',').map(str::to_string).collect()
    } else {
        vec!["nf".into()]
    };
    panic::set_hook(Box::new(|_| {}));
    let handle = std::thread::Builder::new()
        .stack_size(8 * MEBI)
        .spawn(move || {
            let cfgs: Vec<&str> = cfgs_owned.iter().map(String::as_str).collect();
            let f = fs::OpenOptions::new().create(true).append(true).open(&out_path).expect("open output");
            let mut w = std::io::BufWriter::new(f);
            let mut cur_id: Option<String> = None;
            let mut cur = String::new();
            for line in input.split_inclusive('\n') {
                if let Some(rest) = line.strip_prefix("\u{1}CASE ") {
                    if let Some(id) = cur_id.take() {
                        run_one(&mut w, &id, &cur, &cfgs);
                    }
                    cur_id = Some(rest.trim_end().to_string());
                    cur.clear();
                } else {
                    cur.push_str(line);
                }
            }
            if let Some(id) = cur_id.take() {
                run_one(&mut w, &id, &cur, &cfgs);
            }
            w.flush().unwrap();
        })
        .unwrap();
    match handle.join() {
        Ok(()) => ExitCode::SUCCESS,
        Err(_) => ExitCode::from(3),
    }
}
