//! `nsverif parsedump <in> <out>` — implementation side of the parser-model correspondence
//! (check PARSER; its streams are also read by C01/C07/C10).
//!
//! Input: one case per line, the hex of a UTF-8 source text (`-` = empty text).  For every case:
//!
//!   CASE <index> <hex>
//!   T <Kind> <start> <end> <owned> <payload hex> <lexer diagnostics so far>
//!                              tokens of a stand-alone Lexer run, one line per `next()` that
//!                              returned Some; the last field counts the lexer diagnostics
//!                              emitted up to and including that call
//!   LEXEND <lexer diagnostics after the call that returned None>
//!   A <prefix token stream of the syntax tree, every span as start:end>      (root block)
//!   PD <code> <message_> <start> <end> <n labels> {<start> <end> <label hex>}  merged diagnostics
//!   NLEX <number of lexical diagnostics in the merged list>
//!   PANIC <stage> <message>    a caught panic (stage = lex|parse)
//!   END <index>
//!
//! Tree grammar (hex = hex of the bytes, `-` when empty; sp = start:end):
//!   block := <n> stmt*n sp
//!   stmt  := F hex sp <n> {hex sp}*n block sp | K hex sp expr sp | T hex sp expr sp | J expr expr sp
//!          | IF expr block 0 sp | IF expr block 1 block sp | W expr block sp | BL block sp
//!          | R 0 sp | R 1 expr sp | BR sp | NX sp | EX expr sp
//!   expr  := N hex sp | S hex sp | I <n> {L hex | V hex}*n sp | B 0|1 sp | Z sp | V hex sp
//!          | O <op> expr expr sp | U <op> expr sp | A <n> expr*n sp | X expr expr sp sp
//!          | M expr hex sp sp | C expr <n> expr*n sp
//! The block is flushed per case so that a native crash can be attributed to the case announced last.
use std::fmt::Write as _;
use std::fs;
use std::io::Write as _;
use std::panic;
use std::process::ExitCode;

use naijascript::arena::Arena;
use naijascript::diagnostics::Span;
use naijascript::helpers::MEBI;
use naijascript::syntax::parser::{
    BinaryOp, BlockRef, Expr, ExprRef, Parser, Stmt, StmtRef, StringParts, StringSegment, UnaryOp,
};
use naijascript::syntax::scanner::Lexer;
use naijascript::syntax::token::Token;

fn unhex(s: &str) -> Option<String> {
    if s == "-" {
        return Some(String::new());
    }
    if s.len() % 2 != 0 {
        return None;
    }
    let mut b = Vec::with_capacity(s.len() / 2);
    for i in 0..s.len() / 2 {
        b.push(u8::from_str_radix(s.get(2 * i..2 * i + 2)?, 16).ok()?);
    }
    String::from_utf8(b).ok()
}

fn hex(b: &[u8]) -> String {
    if b.is_empty() {
        return "-".to_string();
    }
    let mut o = String::with_capacity(b.len() * 2);
    for x in b {
        let _ = write!(o, "{x:02x}");
    }
    o
}

fn kind(t: &Token<'_>) -> (&'static str, Vec<u8>, bool) {
    let n = |s: &'static str| (s, Vec::new(), false);
    match t {
        Token::String(c) => ("String", c.as_bytes().to_vec(), c.is_owned()),
        Token::Identifier(s) => ("Identifier", s.as_bytes().to_vec(), false),
        Token::Number(s) => ("Number", s.as_bytes().to_vec(), false),
        Token::Make => n("Make"),
        Token::Get => n("Get"),
        Token::Add => n("Add"),
        Token::Minus => n("Minus"),
        Token::Times => n("Times"),
        Token::Divide => n("Divide"),
        Token::Mod => n("Mod"),
        Token::And => n("And"),
        Token::Or => n("Or"),
        Token::Not => n("Not"),
        Token::Jasi => n("Jasi"),
        Token::Start => n("Start"),
        Token::End => n("End"),
        Token::Comot => n("Comot"),
        Token::Next => n("Next"),
        Token::Na => n("Na"),
        Token::Pass => n("Pass"),
        Token::SmallPass => n("SmallPass"),
        Token::IfToSay => n("IfToSay"),
        Token::IfNotSo => n("IfNotSo"),
        Token::Do => n("Do"),
        Token::Return => n("Return"),
        Token::True => n("True"),
        Token::False => n("False"),
        Token::Null => n("Null"),
        Token::LParen => n("LParen"),
        Token::RParen => n("RParen"),
        Token::LBracket => n("LBracket"),
        Token::RBracket => n("RBracket"),
        Token::Comma => n("Comma"),
        Token::Dot => n("Dot"),
        Token::EOF => n("EOF"),
    }
}

struct Dump {
    out: String,
}

impl Dump {
    fn tok(&mut self, t: &str) {
        self.out.push(' ');
        self.out.push_str(t);
    }

    fn sp(&mut self, s: Span) {
        let _ = write!(self.out, " {}:{}", s.start, s.end);
    }

    fn block(&mut self, b: BlockRef<'_>) {
        self.tok(&b.stmts.len().to_string());
        for s in b.stmts {
            self.stmt(s);
        }
        self.sp(b.span);
    }

    fn stmt(&mut self, s: StmtRef<'_>) {
        match s {
            Stmt::FunctionDef { name, name_span, params, body, span } => {
                self.tok("F");
                self.tok(&hex(name.as_bytes()));
                self.sp(*name_span);
                self.tok(&params.params.len().to_string());
                for (i, p) in params.params.iter().enumerate() {
                    self.tok(&hex(p.as_bytes()));
                    match params.param_spans.get(i) {
                        Some(ps) => self.sp(*ps),
                        None => self.tok("?:?"),
                    }
                }
                if params.param_spans.len() != params.params.len() {
                    self.tok("!param_spans");
                }
                self.block(body);
                self.sp(*span);
            }
            Stmt::Assign { var, var_span, expr, span } => {
                self.tok("K");
                self.tok(&hex(var.as_bytes()));
                self.sp(*var_span);
                self.expr(expr);
                self.sp(*span);
            }
            Stmt::AssignExisting { var, var_span, expr, span } => {
                self.tok("T");
                self.tok(&hex(var.as_bytes()));
                self.sp(*var_span);
                self.expr(expr);
                self.sp(*span);
            }
            Stmt::AssignIndex { target, expr, span } => {
                self.tok("J");
                self.expr(target);
                self.expr(expr);
                self.sp(*span);
            }
            Stmt::If { cond, then_b, else_b, span } => {
                self.tok("IF");
                self.expr(cond);
                self.block(then_b);
                match else_b {
                    Some(eb) => {
                        self.tok("1");
                        self.block(eb);
                    }
                    None => self.tok("0"),
                }
                self.sp(*span);
            }
            Stmt::Loop { cond, body, span } => {
                self.tok("W");
                self.expr(cond);
                self.block(body);
                self.sp(*span);
            }
            Stmt::Block { block, span } => {
                self.tok("BL");
                self.block(block);
                self.sp(*span);
            }
            Stmt::Return { expr, span } => {
                self.tok("R");
                match expr {
                    Some(e) => {
                        self.tok("1");
                        self.expr(e);
                    }
                    None => self.tok("0"),
                }
                self.sp(*span);
            }
            Stmt::Break { span } => {
                self.tok("BR");
                self.sp(*span);
            }
            Stmt::Continue { span } => {
                self.tok("NX");
                self.sp(*span);
            }
            Stmt::Expression { expr, span } => {
                self.tok("EX");
                self.expr(expr);
                self.sp(*span);
            }
        }
    }

    fn expr(&mut self, e: ExprRef<'_>) {
        match e {
            Expr::Number(text, span) => {
                self.tok("N");
                self.tok(&hex(text.as_bytes()));
                self.sp(*span);
            }
            Expr::String { parts, span } => {
                match parts {
                    StringParts::Static(s) => {
                        self.tok("S");
                        self.tok(&hex(s.as_bytes()));
                    }
                    StringParts::Interpolated(segs) => {
                        self.tok("I");
                        self.tok(&segs.len().to_string());
                        for seg in *segs {
                            match seg {
                                StringSegment::Literal(s) => {
                                    self.tok("L");
                                    self.tok(&hex(s.as_bytes()));
                                }
                                StringSegment::Variable(v) => {
                                    self.tok("V");
                                    self.tok(&hex(v.as_bytes()));
                                }
                            }
                        }
                    }
                }
                self.sp(*span);
            }
            Expr::Bool(b, span) => {
                self.tok("B");
                self.tok(if *b { "1" } else { "0" });
                self.sp(*span);
            }
            Expr::Null(span) => {
                self.tok("Z");
                self.sp(*span);
            }
            Expr::Var(name, span) => {
                self.tok("V");
                self.tok(&hex(name.as_bytes()));
                self.sp(*span);
            }
            Expr::Binary { op, lhs, rhs, span } => {
                self.tok("O");
                self.tok(match op {
                    BinaryOp::Add => "add",
                    BinaryOp::Minus => "minus",
                    BinaryOp::Times => "times",
                    BinaryOp::Divide => "divide",
                    BinaryOp::Mod => "mod",
                    BinaryOp::And => "and",
                    BinaryOp::Or => "or",
                    BinaryOp::Eq => "eq",
                    BinaryOp::Gt => "gt",
                    BinaryOp::Lt => "lt",
                });
                self.expr(lhs);
                self.expr(rhs);
                self.sp(*span);
            }
            Expr::Unary { op, expr, span } => {
                self.tok("U");
                self.tok(match op {
                    UnaryOp::Not => "not",
                    UnaryOp::Minus => "neg",
                });
                self.expr(expr);
                self.sp(*span);
            }
            Expr::Array { elements, span } => {
                self.tok("A");
                self.tok(&elements.len().to_string());
                for el in *elements {
                    self.expr(el);
                }
                self.sp(*span);
            }
            Expr::Index { array, index, index_span, span } => {
                self.tok("X");
                self.expr(array);
                self.expr(index);
                self.sp(*index_span);
                self.sp(*span);
            }
            Expr::Member { object, field, field_span, span } => {
                self.tok("M");
                self.expr(object);
                self.tok(&hex(field.as_bytes()));
                self.sp(*field_span);
                self.sp(*span);
            }
            Expr::Call { callee, args, span } => {
                self.tok("C");
                self.expr(callee);
                self.tok(&args.args.len().to_string());
                for a in args.args {
                    self.expr(a);
                }
                self.sp(*span);
            }
        }
    }
}

fn panic_message(e: Box<dyn std::any::Any + Send>) -> String {
    let msg = e
        .downcast_ref::<String>()
        .cloned()
        .or_else(|| e.downcast_ref::<&str>().map(|s| (*s).to_string()))
        .unwrap_or_default();
    msg.chars().take(160).map(|c| if c == '\n' { ' ' } else { c }).collect()
}

fn one_case(src: &str, out: &mut String) {
    // ---- stand-alone lexer run
    let arena = Arena::new(256 * MEBI).expect("arena");
    let r = panic::catch_unwind(panic::AssertUnwindSafe(|| {
        let mut o = String::new();
        let mut lexer = Lexer::new(src, &arena);
        let mut count = 0usize;
        while let Some(st) = lexer.next() {
            let (k, payload, owned) = kind(&st.token);
            let _ = writeln!(
                o,
                "T {k} {} {} {} {} {}",
                st.span.start,
                st.span.end,
                u8::from(owned),
                hex(&payload),
                lexer.errors.diagnostics.len()
            );
            count += 1;
            if count > 4 * src.len() + 16 {
                o.push_str("PANIC lex no-progress\n");
                break;
            }
        }
        let _ = writeln!(o, "LEXEND {}", lexer.errors.diagnostics.len());
        o
    }));
    match r {
        Ok(o) => out.push_str(&o),
        Err(e) => {
            let _ = writeln!(out, "PANIC lex {}", panic_message(e));
            return;
        }
    }

    // ---- the parser on its own lazily driven lexer
    let arena = Arena::new(256 * MEBI).expect("arena");
    let r = panic::catch_unwind(panic::AssertUnwindSafe(|| {
        let lexer = Lexer::new(src, &arena);
        let mut parser = Parser::new(lexer, &arena);
        let (root, err) = parser.parse_program();
        let mut d = Dump { out: String::from("A") };
        d.block(root);
        let mut o = d.out;
        o.push('\n');
        let mut nlex = 0usize;
        for dg in &err.diagnostics {
            if dg.code == "lexical" {
                nlex += 1;
            }
            let _ = write!(
                o,
                "PD {} {} {} {} {}",
                dg.code,
                dg.message.replace(' ', "_"),
                dg.span.start,
                dg.span.end,
                dg.labels.len()
            );
            for l in &dg.labels {
                let _ = write!(o, " {} {} {}", l.span.start, l.span.end, hex(l.message.as_bytes()));
            }
            o.push('\n');
        }
        let _ = writeln!(o, "NLEX {nlex}");
        o
    }));
    match r {
        Ok(o) => out.push_str(&o),
        Err(e) => {
            let _ = writeln!(out, "PANIC parse {}", panic_message(e));
        }
    }
}

pub fn run(args: &[String]) -> ExitCode {
    // parsedump [--from N] <in> <out>
    let mut from = 0usize;
    let mut files = Vec::new();
    let mut i = 0;
    while i < args.len() {
        match args[i].as_str() {
            "--from" => {
                from = args[i + 1].parse().expect("--from N");
                i += 1;
            }
            other => files.push(other.to_string()),
        }
        i += 1;
    }
    let text = fs::read_to_string(&files[0]).expect("read input");
    let mut outf = fs::OpenOptions::new().create(true).append(true).open(&files[1]).expect("open output");
    panic::set_hook(Box::new(|_| {}));
    for (idx, line) in text.lines().enumerate() {
        if idx < from {
            continue;
        }
        let line = line.trim();
        if line.is_empty() {
            continue;
        }
        let mut out = String::new();
        let _ = writeln!(out, "CASE {idx} {line}");
        outf.write_all(out.as_bytes()).expect("write");
        outf.flush().expect("flush");
        out.clear();
        match unhex(line) {
            Some(src) => one_case(&src, &mut out),
            None => out.push_str("SKIP not-utf8\n"),
        }
        let _ = writeln!(out, "END {idx}");
        outf.write_all(out.as_bytes()).expect("write");
        outf.flush().expect("flush");
    }
    ExitCode::SUCCESS
}
