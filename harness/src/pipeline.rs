//! C14: the shipped pipeline vs the library; runs do not influence each other.
//!
//! nsverif pipeline lib <in> <out>      library pipeline with separate arenas, one record per program
//! nsverif pipeline wasm <in> <out>     in-process replica of wasm/src/lib.rs run_source, programs back to back
//! nsverif pipeline scratch <in> <out>  drives scratch::init / scratch_arena / drops with op histories
//!                                      (mirrors theories/Scratch.v `nstep`)
use std::alloc::{Allocator, Layout};
use std::fmt::Write as _;
use std::fs;
use std::io::Write as _;
use std::panic::{self, AssertUnwindSafe};
use std::process::ExitCode;
use std::ptr::NonNull;

use naijascript::arena::{self, Arena, ArenaString, ScratchArena, scratch_arena};
use naijascript::diagnostics::{Diagnostics, Severity};
use naijascript::helpers::MEBI;
use naijascript::resolver::Resolver;
use naijascript::runtime::Runtime;
use naijascript::syntax::parser::Parser;
use naijascript::syntax::scanner::Lexer;

fn unhex(s: &str) -> String {
    if s == "-" {
        return String::new();
    }
    let b: Vec<u8> =
        (0..s.len() / 2).map(|i| u8::from_str_radix(&s[2 * i..2 * i + 2], 16).unwrap()).collect();
    String::from_utf8(b).expect("harness inputs are valid UTF-8")
}

fn hex(b: &[u8]) -> String {
    if b.is_empty() {
        return "-".to_string();
    }
    let mut o = String::with_capacity(b.len() * 2);
    for x in b {
        let _ = write!(o, "{x:02x}");
    }
    o
}

// ---------------------------------------------------------------- stdout capture
// `shout` and `Diagnostics::report` print to the process stdout; the harness redirects
// fd 1 into a file around each program so the printed bytes can be compared.
struct Capture {
    saved: i32,
    path: String,
}

impl Capture {
    fn begin(path: &str) -> Capture {
        let _ = std::io::stdout().flush();
        let c = std::ffi::CString::new(path).unwrap();
        unsafe {
            let fd = libc::open(c.as_ptr(), libc::O_WRONLY | libc::O_CREAT | libc::O_TRUNC, 0o644);
            assert!(fd >= 0, "open capture file");
            let saved = libc::dup(1);
            libc::dup2(fd, 1);
            libc::close(fd);
            Capture { saved, path: path.to_string() }
        }
    }

    fn end(self) -> Vec<u8> {
        let _ = std::io::stdout().flush();
        unsafe {
            libc::dup2(self.saved, 1);
            libc::close(self.saved);
        }
        fs::read(&self.path).unwrap_or_default()
    }
}

fn count_errors(d: &Diagnostics) -> usize {
    d.diagnostics.iter().filter(|x| x.severity == Severity::Error).count()
}

struct Outcome {
    status: i32,          // what cmd.rs would return: 0 success, 1 failure
    phase: &'static str,  // parse | resolve | run | ok
    errors: usize,        // error diagnostics emitted by the phases that ran
    warnings: usize,
    output: String,       // Runtime.output, one value per line (as wasm joins it)
    n_out: usize,
    pre: String,          // rendered diagnostics printed before the program runs (resolver warnings)
    post: String,         // rendered diagnostics printed last (the failing phase, or runtime warnings)
    plan: String,         // "-" (resolver not finished) | "none" (analysis cap exceeded) | "some:<stmts>:<fns>" pruned
}

// ---------------------------------------------------------------- library pipeline
// Wired as tests/common.rs `with_pipeline`: one arena for source-independent data (AST,
// resolver, persistent runtime data), one separate frame arena; prints what cmd.rs prints.
fn run_lib(src: &str, filename: &str) -> Outcome {
    // same reservation size as the CLI's SCRATCH_ARENA_CAPACITY, so that running out of
    // arena space is not a difference between the two configurations
    let arena = Arena::new(256 * MEBI).unwrap();
    let frame = Arena::new(256 * MEBI).unwrap();

    let lexer = Lexer::new(src, &arena);
    let mut parser = Parser::new(lexer, &arena);
    let (root, perr) = parser.parse_program();
    if !perr.diagnostics.is_empty() {
        perr.report(src, filename);
        return Outcome {
            status: 1,
            phase: "parse",
            errors: count_errors(perr),
            warnings: perr.diagnostics.len() - count_errors(perr),
            output: String::new(),
            n_out: 0,
            pre: String::new(),
            post: perr.render_ansi(src, filename).to_string(),
            plan: "-".to_string(),
        };
    }
    let mut resolver = Resolver::new(&arena);
    resolver.resolve(root);
    let res_err = count_errors(&resolver.errors);
    let res_warn = resolver.errors.diagnostics.len() - res_err;
    if resolver.errors.has_errors() {
        resolver.errors.report(src, filename);
        return Outcome {
            status: 1,
            phase: "resolve",
            errors: res_err,
            warnings: res_warn,
            output: String::new(),
            n_out: 0,
            pre: String::new(),
            post: resolver.errors.render_ansi(src, filename).to_string(),
            plan: "-".to_string(),
        };
    }
    let mut pre = String::new();
    if !resolver.errors.diagnostics.is_empty() {
        resolver.errors.report(src, filename);
        pre = resolver.errors.render_ansi(src, filename).to_string();
    }
    let plan = match &resolver.optimization_plan {
        None => "none".to_string(),
        Some(p) => format!("some:{}:{}", p.removable_stmts.len(), p.removable_function_defs.len()),
    };
    let mut runtime = Runtime::new(&arena, Some(&frame));
    let err = runtime.run_with_analysis(root, &resolver.facts, resolver.optimization_plan.as_ref());
    let rt_err = count_errors(err);
    let rt_warn = err.diagnostics.len() - rt_err;
    let failed = err.has_errors();
    let mut post = String::new();
    if !err.diagnostics.is_empty() {
        err.report(src, filename);
        post = err.render_ansi(src, filename).to_string();
    }
    let lines: Vec<String> = runtime.output.iter().map(ToString::to_string).collect();
    Outcome {
        status: i32::from(failed),
        phase: if failed { "run" } else { "ok" },
        errors: res_err + rt_err,
        warnings: res_warn + rt_warn,
        output: lines.join("\n"),
        n_out: lines.len(),
        pre,
        post,
        plan,
    }
}

fn panic_text(e: &(dyn std::any::Any + Send)) -> String {
    if let Some(s) = e.downcast_ref::<&str>() {
        (*s).to_string()
    } else if let Some(s) = e.downcast_ref::<String>() {
        s.clone()
    } else {
        "?".to_string()
    }
}

const CHILD_SECONDS: u32 = 20;

fn child_seconds() -> u32 {
    std::env::var("NSVERIF_CHILD_SECONDS").ok().and_then(|v| v.parse().ok()).unwrap_or(CHILD_SECONDS)
}

/// Runs `f` in a forked child (an abort inside the interpreter must not take the
/// harness down).  Returns None when the child exited normally, else a description.
fn in_child(f: impl FnOnce()) -> Option<String> {
    let _ = std::io::stdout().flush();
    unsafe {
        let pid = libc::fork();
        assert!(pid >= 0, "fork");
        if pid == 0 {
            // a runaway program must not hang the check: SIGALRM ends the child, the parent
            // records the signal and the case is treated as inconclusive
            libc::alarm(child_seconds());
            f();
            let _ = std::io::stdout().flush();
            libc::_exit(0);
        }
        let mut st: i32 = 0;
        libc::waitpid(pid, &mut st, 0);
        if libc::WIFEXITED(st) && libc::WEXITSTATUS(st) == 0 {
            None
        } else if libc::WIFSIGNALED(st) {
            Some(format!("signal={}", libc::WTERMSIG(st)))
        } else {
            Some(format!("exit={}", libc::WEXITSTATUS(st)))
        }
    }
}

fn append(path: &str, text: &str) {
    let mut f = fs::OpenOptions::new().create(true).append(true).open(path).expect("open output");
    f.write_all(text.as_bytes()).expect("write output");
}

fn lib_mode(input: &str, output: &str) -> ExitCode {
    let text = fs::read_to_string(input).expect("read input");
    let cap = format!("{output}.cap");
    let _ = fs::remove_file(output);
    append(output, "");
    for line in text.lines() {
        let t: Vec<&str> = line.split_whitespace().collect();
        if t.len() < 4 || t[0] != "P" {
            continue;
        }
        let (id, src, filename) = (t[1], unhex(t[2]), unhex(t[3]));
        let _ = fs::remove_file(&cap);
        let died = in_child(|| {
            let c = Capture::begin(&cap);
            let r = panic::catch_unwind(AssertUnwindSafe(|| run_lib(&src, &filename)));
            let printed = c.end();
            let rec = match r {
                Ok(o) => format!(
                    "R {id} {} {} errs={} warns={} nout={} plan={} out={} pre={} post={} printed={}\n",
                    o.status,
                    o.phase,
                    o.errors,
                    o.warnings,
                    o.n_out,
                    o.plan,
                    hex(o.output.as_bytes()),
                    hex(o.pre.as_bytes()),
                    hex(o.post.as_bytes()),
                    hex(&printed)
                ),
                Err(e) => format!(
                    "R {id} panic msg={} printed={}\n",
                    hex(panic_text(&*e).as_bytes()),
                    hex(&printed)
                ),
            };
            append(output, &rec);
        });
        if let Some(why) = died {
            let printed = fs::read(&cap).unwrap_or_default();
            append(output, &format!("R {id} abort {why} printed={}\n", hex(&printed)));
        }
    }
    ExitCode::SUCCESS
}

// ---------------------------------------------------------------- wasm replica
// wasm/src/lib.rs run_source, copied statement by statement; the only change is that the
// ANSI text is returned as is instead of going through ansi_to_html (not available
// offline) — a pure function of the text.
fn report_html(ansi: &str) -> String {
    ansi.to_string()
}

fn wasm_run_source(src: &str, filename: &str) -> String {
    if let Err(err) = arena::init(16 * MEBI) {
        return format!("Failed to initialize arena: {err}");
    }
    let arena = scratch_arena(None);

    let lexer = Lexer::new(src, &arena);
    let mut parser = Parser::new(lexer, &arena);
    let (root, err) = parser.parse_program();
    if !err.diagnostics.is_empty() {
        return report_html(&err.render_ansi(src, filename));
    }

    // Resolver uses a separate scratch arena that is freed after resolution.
    let mut non_err = String::with_capacity(src.len() / 2);
    {
        let res_arena = scratch_arena(Some(&arena));
        let mut resolver = Resolver::with_facts_arena(&res_arena, &arena);
        resolver.resolve(root);
        if resolver.errors.has_errors() {
            return report_html(&resolver.errors.render_ansi(src, filename));
        }
        if !resolver.errors.diagnostics.is_empty() {
            non_err.push_str(&report_html(&resolver.errors.render_ansi(src, filename)));
        }
        let (facts, optimization_plan) = resolver.into_artifacts();

        // After resolver scope drops, scratch[1] is free for use as frame arena.
        let frame = scratch_arena(Some(&arena));
        let mut runtime = Runtime::new(&arena, Some(&frame));
        let err = runtime.run_with_analysis(root, &facts, optimization_plan.as_ref());
        if err.has_errors() {
            return report_html(&err.render_ansi(src, filename));
        }
        if !err.diagnostics.is_empty() {
            non_err.push_str(&report_html(&err.render_ansi(src, filename)));
        }

        let res = runtime.output.iter().map(ToString::to_string).collect::<Vec<_>>().join("\n");
        if !non_err.is_empty() {
            non_err.push_str(&res);
            return non_err;
        }
        res
    }
}

// ---------------------------------------------------------------- scripted replica
// The same entry point, but with the borrows, their conflict arguments, the arena each phase
// is given and the drop points taken from the script that translator/gen_scratch.py reads
// out of the *current* wasm/src/lib.rs (GenWiring.wasm_script).  A wiring edit in the source
// is therefore executed here, not only seen by the proof.  The phase skeleton (parse; stop on
// any diagnostic; resolve; stop on errors; run; stop on errors; join the output) is the
// fixed part.
#[derive(Clone, Copy, Debug)]
enum Ev {
    Borrow(Option<usize>),
    Drop,
    Parse(usize),
    Resolve(usize, usize),
    Run(usize, usize),
}

fn parse_script(words: &[&str]) -> Vec<Ev> {
    words
        .iter()
        .map(|w| {
            let nums = |s: &str| -> Vec<usize> { s.split(',').map(|x| x.parse().unwrap()).collect() };
            match &w[..1] {
                "B" if *w == "Bn" => Ev::Borrow(None),
                "B" => Ev::Borrow(Some(w[2..].parse().unwrap())),
                "D" => Ev::Drop,
                "P" => Ev::Parse(w[1..].parse().unwrap()),
                "R" => {
                    let v = nums(&w[1..]);
                    Ev::Resolve(v[0], v[1])
                }
                "X" => {
                    let v = nums(&w[1..]);
                    Ev::Run(v[0], v[1])
                }
                _ => panic!("bad script word {w}"),
            }
        })
        .collect()
}

type Handle = Option<Box<ScratchArena<'static>>>;

fn aref(h: &Handle) -> &'static Arena {
    let a: &Arena = h.as_ref().expect("script uses a dropped borrow");
    // the ScratchArena lives in a Box until the script drops it; the phases that use it are
    // leaked, never run again, and own nothing outside the arenas
    unsafe { &*std::ptr::from_ref(a) }
}

fn scripted_run_source(script: &[Ev], cap: usize, src: &str, filename: &str, src_in_arena: bool) -> String {
    if let Err(err) = arena::init(cap) {
        return format!("Failed to initialize arena: {err}");
    }
    let mut src: &'static str = unsafe { &*std::ptr::from_ref(src) };
    let mut handles: Vec<Handle> = Vec::new();
    let mut stack: Vec<usize> = Vec::new();
    let mut root = None;
    let mut artifacts = None;
    let mut non_err = String::with_capacity(src.len() / 2);
    let mut result: Option<String> = None;
    for ev in script {
        if result.is_some() {
            break;
        }
        match *ev {
            Ev::Borrow(c) => {
                let h = match c {
                    None => scratch_arena(None),
                    Some(k) => scratch_arena(Some(aref(&handles[k]))),
                };
                stack.push(handles.len());
                handles.push(Some(Box::new(h)));
            }
            Ev::Drop => {
                let k = stack.pop().expect("script drops more than it borrows");
                handles[k] = None;
            }
            Ev::Parse(h) => {
                let arena = aref(&handles[h]);
                if src_in_arena {
                    // cmd.rs run_stdin: the script text is the first thing allocated in the
                    // persistent scratch arena (a Vec filled block by block), so in every run of
                    // the process it sits at the same address
                    let mut buf: Vec<u8, &Arena> = Vec::new_in(arena);
                    for chunk in src.as_bytes().chunks(8192) {
                        buf.extend_from_slice(chunk);
                    }
                    let text = Box::leak(Box::new(unsafe { ArenaString::from_utf8_unchecked(buf) }));
                    src = unsafe { &*std::ptr::from_ref(text.as_str()) };
                }
                let lexer = Lexer::new(src, arena);
                let parser = Box::leak(Box::new(Parser::new(lexer, arena)));
                let (r, err) = parser.parse_program();
                if !err.diagnostics.is_empty() {
                    result = Some(report_html(&err.render_ansi(src, filename)));
                }
                root = Some(r);
            }
            Ev::Resolve(t, f) => {
                let mut resolver = Resolver::with_facts_arena(aref(&handles[t]), aref(&handles[f]));
                resolver.resolve(root.expect("parse first"));
                if resolver.errors.has_errors() {
                    result = Some(report_html(&resolver.errors.render_ansi(src, filename)));
                    std::mem::forget(resolver);
                    continue;
                }
                if !resolver.errors.diagnostics.is_empty() {
                    non_err.push_str(&report_html(&resolver.errors.render_ansi(src, filename)));
                }
                artifacts = Some(Box::leak(Box::new(resolver.into_artifacts())));
            }
            Ev::Run(p, fr) => {
                let (facts, plan) = &**artifacts.as_ref().expect("resolve first");
                let mut runtime = Runtime::new(aref(&handles[p]), Some(aref(&handles[fr])));
                let err = runtime.run_with_analysis(root.expect("parse first"), facts, plan.as_ref());
                if err.has_errors() {
                    result = Some(report_html(&err.render_ansi(src, filename)));
                } else {
                    if !err.diagnostics.is_empty() {
                        non_err.push_str(&report_html(&err.render_ansi(src, filename)));
                    }
                    let res =
                        runtime.output.iter().map(ToString::to_string).collect::<Vec<_>>().join("\n");
                    result = Some(if non_err.is_empty() {
                        res
                    } else {
                        let mut s = non_err.clone();
                        s.push_str(&res);
                        s
                    });
                }
                std::mem::forget(runtime);
            }
        }
    }
    // scope exit (normal or early return): every live borrow drops, newest first
    while let Some(k) = stack.pop() {
        handles[k] = None;
    }
    result.unwrap_or_default()
}

/// Offsets and commits of the two scratch arenas as seen through fresh borrows.
fn scratch_probe() -> (usize, usize, usize, usize) {
    let a = scratch_arena(None);
    let b = scratch_arena(Some(&a));
    (a.offset(), a.verif_commit(), b.offset(), b.verif_commit())
}

fn wasm_one(id: &str, src: &str, cap: &str, output: &str, script: Option<&(usize, Vec<Ev>)>, src_in_arena: bool) {
    let c = Capture::begin(cap);
    // As in the playground, the source is a heap string that lives for this one call: the
    // allocator is free to hand the same block to the next run's text.
    let owned: String = src.to_owned();
    let r = panic::catch_unwind(AssertUnwindSafe(|| match script {
        Some((capacity, evs)) => scripted_run_source(evs, *capacity, &owned, "playground.ns", src_in_arena),
        None => wasm_run_source(&owned, "playground.ns"),
    }));
    drop(owned);
    let printed = c.end();
    let rec = match r {
        Ok(s) => {
            let (o0, c0, o1, c1) = scratch_probe();
            format!(
                "R {id} ok res={} printed={} after={o0},{c0},{o1},{c1}\n",
                hex(s.as_bytes()),
                hex(&printed)
            )
        }
        Err(e) => {
            // unwinding ran every ScratchArena::drop, so the probe is still legal
            let probe = panic::catch_unwind(scratch_probe);
            let after = match probe {
                Ok((o0, c0, o1, c1)) => format!("{o0},{c0},{o1},{c1}"),
                Err(_) => "probe-panicked".to_string(),
            };
            format!(
                "R {id} panic msg={} printed={} after={after}\n",
                hex(panic_text(&*e).as_bytes()),
                hex(&printed)
            )
        }
    };
    append(output, &rec);
}

/// Each sequence (`S <id>` followed by `P <id> <hexsrc>` lines) runs in its own forked
/// child, programs back to back in that one process.
fn wasm_mode(input: &str, output: &str) -> ExitCode {
    let text = fs::read_to_string(input).expect("read input");
    let cap = format!("{output}.cap");
    let _ = fs::remove_file(output);
    append(output, "");
    let mut seqs: Vec<(String, Vec<(String, String)>)> = Vec::new();
    let mut script: Option<(usize, Vec<Ev>)> = None;
    let mut src_in_arena = false;
    for line in text.lines() {
        let t: Vec<&str> = line.split_whitespace().collect();
        if t.is_empty() {
            continue;
        }
        if t[0] == "W" {
            // W <capacity> <script words>: run the scripted replica instead of the literal copy
            script = Some((t[1].parse().unwrap(), parse_script(&t[2..])));
        } else if t[0] == "M" {
            // M arena: the script text is copied into the persistent scratch arena first (the
            // `naija -` pattern); M heap (default): a heap string per call (the playground pattern)
            src_in_arena = t[1] == "arena";
        } else if t[0] == "S" {
            seqs.push((t[1].to_string(), Vec::new()));
        } else if t[0] == "P" && t.len() >= 3 {
            seqs.last_mut().expect("S header first").1.push((t[1].to_string(), unhex(t[2])));
        }
    }
    for (sid, progs) in &seqs {
        append(output, &format!("S {sid}\n"));
        let died = in_child(|| {
            for (id, src) in progs {
                unsafe { libc::alarm(child_seconds()) };
                wasm_one(id, src, &cap, output, script.as_ref(), src_in_arena);
            }
        });
        if let Some(why) = died {
            let printed = fs::read(&cap).unwrap_or_default();
            append(output, &format!("ABORT {sid} {why} printed={}\n", hex(&printed)));
        }
    }
    ExitCode::SUCCESS
}

// ---------------------------------------------------------------- scratch API histories
struct Blk {
    id: i64,
    off: usize,
    len: usize,
    al: usize,
    init: usize,
    shadow: Vec<u8>,
}

#[derive(Default)]
struct Ledger {
    base: usize,
    live: Vec<Blk>, // newest first
    next: i64,
}

struct Bor {
    handle: ScratchArena<'static>,
    arena: usize, // 0 or 1
    mark: usize,
    next: i64,
}

fn pattern(seed: i64, i: i64) -> u8 {
    ((seed + i * 7).rem_euclid(251)) as u8
}

impl Ledger {
    fn read(&self, off: usize) -> u8 {
        unsafe { *((self.base + off) as *const u8) }
    }

    fn ptr(&self, off: usize) -> NonNull<u8> {
        NonNull::new((self.base + off) as *mut u8).unwrap()
    }

    fn retain_below(&mut self, to: usize) {
        self.live.retain(|b| b.off + b.len <= to);
    }

    fn observe(&self, a: &Arena, out: &mut String) {
        let mut acc: i64 = 0;
        for b in &self.live {
            let s = if b.init == 0 {
                b.id
            } else {
                b.id
                    + 3 * i64::from(self.read(b.off))
                    + 5 * i64::from(self.read(b.off + b.init - 1))
                    + 7 * i64::from(self.read(b.off + b.init / 2))
            };
            acc = (acc * 31 + s).rem_euclid(1_000_003);
        }
        let _ = write!(out, " | {} {} {} {}", a.offset(), a.verif_commit(), self.live.len(), acc);
        for b in &self.live {
            for i in 0..b.init {
                if self.read(b.off + i) != b.shadow[i] {
                    let _ = write!(out, " CORRUPT id={} at={}", b.id, i);
                    break;
                }
            }
            if b.off + b.len > a.verif_capacity() {
                let _ = write!(out, " OUTOFBOUNDS id={}", b.id);
            }
        }
        for i in 0..self.live.len() {
            for j in (i + 1)..self.live.len() {
                let (x, y) = (&self.live[i], &self.live[j]);
                if x.len > 0 && y.len > 0 && x.off < y.off + y.len && y.off < x.off + x.len {
                    let _ = write!(out, " OVERLAP id={} id={}", x.id, y.id);
                }
            }
        }
    }
}

/// Observation of one arena through a borrow that is legal to use right now: the newest
/// live borrow of that arena, or a fresh temporary one when there is none.
fn observe_arena(idx: usize, bors: &[Bor], led: &Ledger, out: &mut String) {
    if let Some(b) = bors.iter().rev().find(|b| b.arena == idx) {
        led.observe(&b.handle, out);
    } else if idx == 0 {
        // No live borrow of this arena: look through a temporary one.  Its drop resets to
        // the offset it saw (no change) and decommits above it; the observation is taken
        // before that.
        let tmp = scratch_arena(None);
        led.observe(&tmp, out);
    } else if let Some(z) = bors.iter().rev().find(|b| b.arena == 0) {
        let tmp = scratch_arena(Some(&z.handle));
        led.observe(&tmp, out);
    } else {
        let z = scratch_arena(None);
        {
            let tmp = scratch_arena(Some(&z));
            led.observe(&tmp, out);
        }
        drop(z);
    }
}

fn scratch_mode(input: &str, output: &str) -> ExitCode {
    let text = fs::read_to_string(input).expect("read input");
    let mut out = String::new();
    let mut bors: Vec<Bor> = Vec::new();
    let mut led: [Ledger; 2] = [Ledger::default(), Ledger::default()];
    let other = Arena::new(65536).unwrap();
    let mut started = false;
    for line in text.lines() {
        let t: Vec<&str> = line.split_whitespace().collect();
        if t.is_empty() {
            continue;
        }
        let n = |i: usize| -> i64 { t[i].parse().unwrap() };
        match t[0] {
            "X" => {
                // first init of the process
                arena::init(n(1) as usize).expect("init");
                let a = scratch_arena(None);
                let b = scratch_arena(Some(&a));
                led[0].base = a.verif_base() as usize;
                led[1].base = b.verif_base() as usize;
                let _ = writeln!(
                    out,
                    "X cap={} base0={} base1={}",
                    a.verif_capacity(),
                    led[0].base % (1usize << 32),
                    led[1].base % (1usize << 32)
                );
                started = true;
                continue;
            }
            "H" => {
                let _ = writeln!(out, "H {}", t[1]);
                continue;
            }
            _ => {}
        }
        assert!(started, "X header first");
        match t[0] {
            "I" => {
                if bors.is_empty() {
                    arena::init(n(1) as usize).expect("init");
                    for l in &mut led {
                        l.live.clear();
                        l.next = 0;
                    }
                }
                out.push_str("none");
            }
            "B" => {
                let handle = match t[1] {
                    "n" => scratch_arena(None),
                    "o" => scratch_arena(Some(&other)),
                    "h" => {
                        if bors.is_empty() {
                            scratch_arena(None)
                        } else {
                            let k = (n(2) as usize) % bors.len();
                            let c = &bors[bors.len() - 1 - k];
                            scratch_arena(Some(&c.handle))
                        }
                    }
                    x => panic!("unknown conflict {x}"),
                };
                let idx = usize::from(handle.verif_base() as usize != led[0].base);
                assert!(handle.verif_base() as usize == led[idx].base);
                let mark = handle.offset();
                let _ = write!(out, "borrow {idx} {mark}");
                bors.push(Bor { handle, arena: idx, mark, next: led[idx].next });
            }
            "D" => match bors.pop() {
                None => out.push_str("none"),
                Some(b) => {
                    let (idx, mark) = (b.arena, b.mark);
                    drop(b);
                    led[idx].retain_below(mark);
                    let _ = write!(out, "drop {idx} {mark}");
                }
            },
            "C" => {
                let idx = n(1) as usize;
                let pos = bors.iter().rposition(|b| b.arena == idx);
                match pos {
                    None => out.push_str("none"),
                    Some(p) => {
                        let (mark, thr) = (bors[p].mark, bors[p].next);
                        let a: &Arena = &bors[p].handle;
                        let l = &mut led[idx];
                        client_op(a, l, mark, thr, &t[2..], &mut out);
                    }
                }
            }
            other => panic!("unknown op {other}"),
        }
        observe_arena(0, &bors, &led[0], &mut out);
        observe_arena(1, &bors, &led[1], &mut out);
        let _ = writeln!(out, " | {}", bors.len());
    }
    while let Some(b) = bors.pop() {
        drop(b);
    }
    fs::write(output, out).expect("write output");
    ExitCode::SUCCESS
}

/// One client operation through borrow (mark, thr) — the normalisation of Scratch.norm_cli:
/// block indices select among the blocks the borrow owns (id >= thr), newest first; reset
/// targets are relative to the borrow's saved offset.
fn client_op(a: &Arena, l: &mut Ledger, mark: usize, thr: i64, t: &[&str], out: &mut String) {
    let n = |i: usize| -> i64 { t[i].parse().unwrap() };
    let pick = |l: &Ledger, idx: usize| -> Option<usize> {
        let inner: Vec<usize> =
            l.live.iter().enumerate().filter(|(_, b)| b.id >= thr).map(|(i, _)| i).collect();
        if inner.is_empty() { None } else { Some(inner[idx % inner.len()]) }
    };
    match t[0] {
        "A" | "Z" => {
            let bytes = n(1) as usize;
            let al = 1usize << n(2);
            let layout = Layout::from_size_align(bytes, al).unwrap();
            let r = if t[0] == "A" { a.allocate(layout) } else { a.allocate_zeroed(layout) };
            match r {
                Ok(p) => {
                    let off = p.cast::<u8>().as_ptr() as usize - l.base;
                    let len = p.len();
                    let init = if t[0] == "Z" { len } else { 0 };
                    l.live.insert(0, Blk { id: l.next, off, len, al, init, shadow: vec![0u8; init] });
                    l.next += 1;
                    let _ = write!(out, "blk 1 {off} {len}");
                }
                Err(_) => out.push_str("blk 0 0 0"),
            }
        }
        "G" => match pick(l, n(1) as usize) {
            None => out.push_str("none"),
            Some(k) => {
                let zeroed = n(3) != 0;
                let (off, len, al) = (l.live[k].off, l.live[k].len, l.live[k].al);
                let ns = len + n(2) as usize;
                let old = Layout::from_size_align(len, al).unwrap();
                let new = Layout::from_size_align(ns, al).unwrap();
                let r = unsafe {
                    if zeroed { a.grow_zeroed(l.ptr(off), old, new) } else { a.grow(l.ptr(off), old, new) }
                };
                match r {
                    Ok(p) => {
                        let noff = p.cast::<u8>().as_ptr() as usize - l.base;
                        let nlen = p.len();
                        let b = &mut l.live[k];
                        b.off = noff;
                        if zeroed && b.init == b.len {
                            b.shadow.resize(nlen, 0);
                            b.init = nlen;
                        }
                        b.len = nlen;
                        let _ = write!(out, "blk 1 {noff} {nlen}");
                    }
                    Err(_) => out.push_str("blk 0 0 0"),
                }
            }
        },
        "S" => match pick(l, n(1) as usize) {
            None => out.push_str("none"),
            Some(k) => {
                let (off, len, al) = (l.live[k].off, l.live[k].len, l.live[k].al);
                if off + len == a.offset() {
                    let ns = len - (n(2) as usize % (len + 1));
                    let old = Layout::from_size_align(len, al).unwrap();
                    let new = Layout::from_size_align(ns, al).unwrap();
                    let p = unsafe { a.shrink(l.ptr(off), old, new) }.unwrap();
                    let nlen = p.len();
                    let b = &mut l.live[k];
                    b.len = nlen;
                    b.init = b.init.min(nlen);
                    b.shadow.truncate(b.init);
                    let noff = a.offset();
                    l.retain_below(noff);
                    let _ = write!(out, "blk 1 {off} {nlen}");
                } else {
                    out.push_str("none");
                }
            }
        },
        "R" => {
            let to = mark + (n(1) as usize) % (a.offset() - mark + 1);
            unsafe { a.reset(to) };
            l.retain_below(to);
            let _ = write!(out, "blk 1 {to} 0");
        }
        "RB" => match pick(l, n(1) as usize) {
            None => out.push_str("none"),
            Some(k) => {
                let to = l.live[k].off;
                unsafe { a.reset(to) };
                l.retain_below(to);
                let _ = write!(out, "blk 1 {to} 0");
            }
        },
        "D" => {
            a.decommit();
            out.push_str("none");
        }
        "W" => match pick(l, n(1) as usize) {
            None => out.push_str("none"),
            Some(k) => {
                let seed = n(2);
                let (off, len) = (l.live[k].off, l.live[k].len);
                let mut sh = Vec::with_capacity(len);
                for i in 0..len {
                    let v = pattern(seed, i as i64);
                    unsafe { *((l.base + off + i) as *mut u8) = v };
                    sh.push(v);
                }
                let b = &mut l.live[k];
                b.init = len;
                b.shadow = sh;
                let _ = write!(out, "blk 1 {off} {len}");
            }
        },
        other => panic!("unknown client op {other}"),
    }
}

pub fn run(args: &[String]) -> ExitCode {
    // quiet panics: they are reported through the records
    panic::set_hook(Box::new(|_| {}));
    match args[0].as_str() {
        "lib" => lib_mode(&args[1], &args[2]),
        "wasm" => wasm_mode(&args[1], &args[2]),
        "scratch" => scratch_mode(&args[1], &args[2]),
        other => {
            eprintln!("pipeline: unknown sub-mode {other}");
            ExitCode::from(2)
        }
    }
}
