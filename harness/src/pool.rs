//! C12: drives real pools (small single-class pools and the full PoolSet).
use std::fmt::Write as _;
use std::fs;
use std::process::ExitCode;
use std::ptr::NonNull;

use naijascript::arena::Arena;
use naijascript::arena::verif_pool::{
    VERIF_SLOT_COUNTS, VERIF_SLOT_SIZES, VerifPool, VerifPoolSet, verif_size_class,
};

struct Buf {
    addr: usize, // absolute
    size: u32,   // requested size
    len: usize,  // granted length
    tag: u8,
}

fn fill(b: &Buf) {
    for i in 0..b.len {
        unsafe { *((b.addr + i) as *mut u8) = b.tag.wrapping_add(i as u8) };
    }
}

fn intact(b: &Buf) -> bool {
    (0..b.len).all(|i| unsafe { *((b.addr + i) as *const u8) } == b.tag.wrapping_add(i as u8))
}

fn overlaps(bufs: &[Buf]) -> bool {
    for i in 0..bufs.len() {
        for j in (i + 1)..bufs.len() {
            let (a, b) = (&bufs[i], &bufs[j]);
            if a.len > 0 && b.len > 0 && a.addr < b.addr + b.len && b.addr < a.addr + a.len {
                return true;
            }
        }
    }
    false
}

pub fn run(input: &str, output: &str) -> ExitCode {
    let text = fs::read_to_string(input).expect("read input");
    let mut out = String::new();
    // The arena must outlive the pools; leak one arena per history (small).
    let mut single: Option<(VerifPool, usize, u32)> = None; // pool, arena base, slot size
    let mut single_cnt: u32 = 0;
    let mut set: Option<(VerifPoolSet<'static>, &'static Arena, usize)> = None;
    let mut live: Vec<Buf> = Vec::new();
    let mut tag: u8 = 1;
    for line in text.lines() {
        let t: Vec<&str> = line.split_whitespace().collect();
        if t.is_empty() {
            continue;
        }
        let n = |i: usize| -> i64 { t[i].parse().unwrap() };
        match t[0] {
            "P" => {
                let arena: &'static Arena = Box::leak(Box::new(Arena::new(1 << 20).unwrap()));
                let pool = VerifPool::new(arena, n(2) as u32, n(3) as u32);
                let base = arena.verif_base() as usize;
                let _ = writeln!(out, "P {} base={}", t[1], pool.base() as usize - base);
                single = Some((pool, base, n(2) as u32));
                single_cnt = n(3) as u32;
                set = None;
                live.clear();
                continue;
            }
            "PS" => {
                let arena: &'static Arena = Box::leak(Box::new(Arena::new(4 << 20).unwrap()));
                let ps = VerifPoolSet::new(arena);
                let base = arena.verif_base() as usize;
                let mut bases = String::new();
                for c in 0..20 {
                    let _ = write!(bases, " {}", ps.class_base(c) as usize - base);
                }
                let _ = writeln!(out, "PS {} off={} bases={}", t[1], arena.offset(), bases.trim());
                set = Some((ps, arena, base));
                single = None;
                live.clear();
                continue;
            }
            _ => {}
        }
        if let Some((pool, base, ssz)) = single.as_ref() {
            match t[0] {
                "a" => match pool.alloc() {
                    Some(p) => {
                        let addr = p.cast::<u8>().as_ptr() as usize;
                        let b = Buf { addr, size: *ssz, len: p.len(), tag };
                        tag = tag.wrapping_add(37);
                        fill(&b);
                        let _ = write!(out, "slot {} {}", addr - base, p.len());
                        live.insert(0, b);
                    }
                    None => out.push_str("exhausted"),
                },
                "f" => {
                    if live.is_empty() {
                        out.push_str("none");
                    } else {
                        let k = (n(1) as usize) % live.len();
                        let b = live.remove(k);
                        if !intact(&b) {
                            out.push_str("CORRUPT ");
                        }
                        unsafe { pool.dealloc(NonNull::new(b.addr as *mut u8).unwrap()) };
                        let _ = write!(out, "freed {}", b.addr - base);
                    }
                }
                "c" => {
                    let addr = base.wrapping_add(n(1) as usize);
                    let got = pool.contains(addr as *const u8);
                    let _ = write!(out, "contains {}", got);
                    let pb = pool.base() as usize;
                    let inside = addr >= pb && addr < pb + (*ssz as usize) * (single_cnt as usize);
                    if got != inside {
                        out.push_str(" CONTAINS-WRONG");
                    }
                }
                other => panic!("unknown op {other}"),
            }
            let (l, f, b) = pool.counters();
            let _ = write!(out, " | {l} {f} {b}");
        } else if let Some((ps, arena, base)) = set.as_ref() {
            let mut touched: Option<u32> = None;
            match t[0] {
                "a" => {
                    let size = n(1) as u32;
                    let p = ps.alloc(size);
                    let addr = p.cast::<u8>().as_ptr() as usize;
                    let pooled = ps.contains(addr as *const u8);
                    let b = Buf { addr, size, len: p.len(), tag };
                    tag = tag.wrapping_add(37);
                    fill(&b);
                    let _ = write!(
                        out,
                        "{} {} {}",
                        if pooled { "pool" } else { "arena" },
                        addr - base,
                        p.len()
                    );
                    live.insert(0, b);
                    touched = verif_size_class(size);
                }
                "f" => {
                    if live.is_empty() {
                        out.push_str("none");
                    } else {
                        let k = (n(1) as usize) % live.len();
                        let b = live.remove(k);
                        if !intact(&b) {
                            out.push_str("CORRUPT ");
                        }
                        unsafe { ps.dealloc(NonNull::new(b.addr as *mut u8).unwrap(), b.size) };
                        let _ = write!(out, "freed {}", b.addr - base);
                        touched = verif_size_class(b.size);
                    }
                }
                "c" => {
                    let addr = base.wrapping_add(n(1) as usize);
                    let got = ps.contains(addr as *const u8);
                    let _ = write!(out, "contains {}", got);
                    let inside = (0..20).any(|c| {
                        let pb = ps.class_base(c) as usize;
                        let total = VERIF_SLOT_SIZES[c] as usize * VERIF_SLOT_COUNTS[c] as usize;
                        addr >= pb && addr < pb + total
                    });
                    if got != inside {
                        out.push_str(" CONTAINS-WRONG");
                    }
                }
                "k" => {
                    // size_class query
                    match verif_size_class(n(1) as u32) {
                        Some(c) => {
                            let _ = write!(out, "class {c}");
                        }
                        None => out.push_str("class none"),
                    }
                }
                other => panic!("unknown op {other}"),
            }
            match touched {
                Some(c) => {
                    let (l, f, b) = ps.counters(c as usize);
                    let _ = write!(out, " | {c} {l} {f} {b} {}", arena.offset());
                }
                None => {
                    let _ = write!(out, " | - {}", arena.offset());
                }
            }
        }
        if overlaps(&live) {
            out.push_str(" OVERLAP");
        }
        if !live.iter().all(intact) {
            out.push_str(" CLOBBERED");
        }
        out.push('\n');
    }
    fs::write(output, out).expect("write output");
    ExitCode::SUCCESS
}
