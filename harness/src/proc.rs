//! C15: implementation side of the process-command correspondence.
//!
//! Two kinds of cases in one input file (byte strings are hex, "-" = empty):
//!
//! (a) function level — the real `ProcessCommand` builder and `validate`, public API only:
//!   C <id> <14 caps, comma separated, ProcessCaps field order>
//!   P <hex>             ProcessCommand::new(program)
//!   A <hex>             push_arg
//!   W <hex>             set_cwd
//!   E <hexk> <hexv>     set_env
//!   I <hex> | IN | II   set_stdin_text / set_stdin_policy(Null) / (Inherit)
//!   O1 C|I|N, O2 C|I|N  set_stdout_policy / set_stderr_policy
//!   T <u32>             set_timeout_ms
//!   D                   -> "D <builder dump>"
//!   V                   -> "V ok <spec dump>" | "V err <Kind>"   (validate against the caps)
//!
//! (b) end to end — a NaijaScript program run by the real pipeline with a host policy:
//!   S <id> <allow 0|1> <14 caps> <hex report dir> <hex source text>
//!   -> "S <id>", then whatever the helper child left in the report dir, file by file
//!      ("spawn" + the file's lines), then
//!      "out <n> <hex>..."  the values the script shouted (to_string of each)
//!      "end ok" | "end err <hex message> <hex first label>" | "end parse" | "end static <hex>" |
//!      "end panic"
use std::fmt::Write as _;
use std::fs;
use std::panic::{self, AssertUnwindSafe};
use std::process::ExitCode;

use naijascript::arena::{Arena, ArenaString};
use naijascript::process::{
    HostPolicy, OutputPolicy, ProcessCaps, ProcessCommand, ProcessError, StdinPolicy,
};
use naijascript::resolver::Resolver;
use naijascript::runtime::Runtime;
use naijascript::syntax::parser::Parser;
use naijascript::syntax::scanner::Lexer;

fn unhex_bytes(s: &str) -> Vec<u8> {
    if s == "-" {
        return Vec::new();
    }
    (0..s.len() / 2).map(|i| u8::from_str_radix(&s[2 * i..2 * i + 2], 16).unwrap()).collect()
}

fn unhex(s: &str) -> String {
    String::from_utf8(unhex_bytes(s)).expect("harness inputs are valid UTF-8")
}

fn hex(b: &[u8]) -> String {
    if b.is_empty() {
        return "-".to_string();
    }
    let mut o = String::with_capacity(b.len() * 2);
    for x in b {
        let _ = write!(o, "{x:02x}");
    }
    o
}

fn caps_of(s: &str) -> ProcessCaps {
    let v: Vec<u32> = s.split(',').map(|x| x.parse().expect("cap")).collect();
    assert!(v.len() == 14, "14 caps expected");
    ProcessCaps {
        max_program_bytes: v[0],
        max_cwd_bytes: v[1],
        max_args: v[2],
        max_arg_bytes: v[3],
        max_total_arg_bytes: v[4],
        max_env_pairs: v[5],
        max_env_key_bytes: v[6],
        max_env_value_bytes: v[7],
        max_total_env_bytes: v[8],
        max_stdin_bytes: v[9],
        max_capture_bytes_per_stream: v[10],
        default_timeout_ms: v[11],
        max_timeout_ms: v[12],
        wait_poll_ms: v[13],
    }
}

fn out_policy(s: &str) -> OutputPolicy {
    match s {
        "C" => OutputPolicy::Capture,
        "I" => OutputPolicy::Inherit,
        "N" => OutputPolicy::Null,
        other => panic!("bad output policy {other}"),
    }
}

fn out_name(p: OutputPolicy) -> &'static str {
    match p {
        OutputPolicy::Capture => "C",
        OutputPolicy::Inherit => "I",
        OutputPolicy::Null => "N",
    }
}

fn stdin_repr(p: &StdinPolicy<'_>) -> String {
    match p {
        StdinPolicy::Inherit => "I".to_string(),
        StdinPolicy::Null => "N".to_string(),
        StdinPolicy::Text(t) => format!("T:{}", hex(t.as_bytes())),
    }
}

#[allow(clippy::too_many_arguments)]
fn dump(
    program: &str,
    args: &[ArenaString<'_>],
    cwd: Option<&str>,
    env: &[naijascript::process::EnvPair<'_>],
    stdin: &StdinPolicy<'_>,
    stdout: OutputPolicy,
    stderr: OutputPolicy,
    timeout: Option<u32>,
) -> String {
    let mut o = String::new();
    let _ = write!(o, "P={} A={}", hex(program.as_bytes()), args.len());
    for (i, a) in args.iter().enumerate() {
        o.push(if i == 0 { ':' } else { ',' });
        o.push_str(&hex(a.as_bytes()));
    }
    let _ = write!(o, " W={}", cwd.map_or("none".to_string(), |c| hex(c.as_bytes())));
    let _ = write!(o, " E={}", env.len());
    for (i, p) in env.iter().enumerate() {
        o.push(if i == 0 { ':' } else { ',' });
        let _ = write!(o, "{}={}", hex(p.key.as_bytes()), hex(p.value.as_bytes()));
    }
    let _ = write!(
        o,
        " I={} O1={} O2={} T={}",
        stdin_repr(stdin),
        out_name(stdout),
        out_name(stderr),
        timeout.map_or("none".to_string(), |t| t.to_string())
    );
    o
}

/// SpecInvalid message -> the rejection kind names of theories/Proc.v
fn kind_of(msg: &str) -> String {
    match msg {
        "program" => "VProgram",
        "argument count" => "VArgCount",
        "environment pair count" => "VEnvCount",
        "argument" => "VArgument",
        "Argument bytes pass configured limit" => "VArgBytes",
        "cwd" => "VCwd",
        "environment key" => "VEnvKey",
        "environment value" => "VEnvValue",
        "Environment bytes pass configured limit" => "VEnvBytes",
        "stdin text" => "VStdin",
        "Timeout must be positive" => "VTimeoutZero",
        "Timeout pass configured limit" => "VTimeoutMax",
        other => return format!("other:{}", hex(other.as_bytes())),
    }
    .to_string()
}

fn function_case(lines: &[&str], out: &mut String) {
    let head: Vec<&str> = lines[0].split_whitespace().collect();
    let _ = writeln!(out, "C {}", head[1]);
    let caps = caps_of(head[2]);
    let arena = Arena::new(256 << 20).unwrap();
    let mut cmd: Option<ProcessCommand<'_>> = None;
    for l in &lines[1..] {
        let t: Vec<&str> = l.split_whitespace().collect();
        if t.is_empty() {
            continue;
        }
        if t[0] == "P" {
            cmd = Some(ProcessCommand::new(&unhex(t[1]), &arena));
            continue;
        }
        let c = cmd.as_mut().expect("P line first");
        let s = |h: &str| ArenaString::from_str(&arena, &unhex(h));
        match t[0] {
            "A" => c.push_arg(s(t[1])),
            "W" => c.set_cwd(s(t[1])),
            "E" => c.set_env(s(t[1]), s(t[2])),
            "I" => c.set_stdin_text(s(t[1])),
            "IN" => c.set_stdin_policy(StdinPolicy::Null),
            "II" => c.set_stdin_policy(StdinPolicy::Inherit),
            "O1" => c.set_stdout_policy(out_policy(t[1])),
            "O2" => c.set_stderr_policy(out_policy(t[1])),
            "T" => c.set_timeout_ms(t[1].parse().expect("u32 timeout")),
            "D" => {
                let d = dump(
                    c.program.as_str(),
                    &c.args,
                    c.cwd.as_ref().map(ArenaString::as_str),
                    &c.env,
                    &c.stdin,
                    c.stdout,
                    c.stderr,
                    c.timeout_ms,
                );
                let _ = writeln!(out, "D {d}");
            }
            "V" => match c.validate(&caps) {
                Ok(spec) => {
                    let d = dump(
                        spec.program,
                        spec.args,
                        spec.cwd,
                        spec.env,
                        spec.stdin,
                        spec.stdout,
                        spec.stderr,
                        Some(spec.timeout_ms),
                    );
                    let _ = writeln!(out, "V ok {d}");
                }
                Err(ProcessError::SpecInvalid(msg)) => {
                    let _ = writeln!(out, "V err {}", kind_of(msg));
                }
                Err(other) => {
                    let _ = writeln!(out, "V err other:{}", hex(format!("{other:?}").as_bytes()));
                }
            },
            other => panic!("unknown op {other}"),
        }
    }
}

fn script_case(line: &str, out: &mut String) {
    let t: Vec<&str> = line.split_whitespace().collect();
    let id = t[1];
    let allow = t[2] == "1";
    let caps = caps_of(t[3]);
    let dir = unhex(t[4]);
    let src = unhex(t[5]);
    let _ = writeln!(out, "S {id}");
    // the helper child finds its report directory through the inherited environment
    unsafe { std::env::set_var("C15_REPORT_DIR", &dir) };
    let policy = HostPolicy { allow_process: allow, process: caps };

    let arena = Arena::new(512 << 20).unwrap();
    let frame = Arena::new(256 << 20).unwrap();
    let mut ending = String::new();
    let mut shouted: Vec<String> = Vec::new();
    {
        let lexer = Lexer::new(&src, &arena);
        let mut parser = Parser::new(lexer, &arena);
        let (root, parse_errors) = parser.parse_program();
        if !parse_errors.diagnostics.is_empty() {
            ending.push_str("end parse");
        } else {
            let mut resolver = Resolver::new(&arena);
            resolver.resolve(root);
            if resolver.errors.has_errors() {
                let m = resolver.errors.diagnostics.first().map_or("", |d| d.message);
                let _ = write!(ending, "end static {}", hex(m.as_bytes()));
            } else {
                let mut runtime = Runtime::new_with_host_policy(&arena, Some(&frame), policy);
                let res = panic::catch_unwind(AssertUnwindSafe(|| {
                    runtime.run_with_analysis(
                        root,
                        &resolver.facts,
                        resolver.optimization_plan.as_ref(),
                    );
                }));
                match res {
                    Err(_) => ending.push_str("end panic"),
                    Ok(()) => {
                        for v in &runtime.output {
                            shouted.push(hex(v.to_string().as_bytes()));
                        }
                        if let Some(d) = runtime.errors.diagnostics.first() {
                            let label =
                                d.labels.first().map_or(String::new(), |l| l.message.to_string());
                            let _ = write!(
                                ending,
                                "end err {} {}",
                                hex(d.message.as_bytes()),
                                hex(label.as_bytes())
                            );
                        } else {
                            ending.push_str("end ok");
                        }
                    }
                }
            }
        }
    }
    // what the children left behind
    let mut i = 0;
    loop {
        let p = format!("{dir}/r{i}");
        let Ok(text) = fs::read_to_string(&p) else { break };
        let _ = writeln!(out, "spawn");
        out.push_str(&text);
        if !text.ends_with('\n') {
            out.push('\n');
        }
        i += 1;
    }
    let _ = write!(out, "out {}", shouted.len());
    for s in &shouted {
        out.push(' ');
        out.push_str(s);
    }
    out.push('\n');
    out.push_str(&ending);
    out.push('\n');
}

pub fn run(input: &str, output: &str) -> ExitCode {
    let text = fs::read_to_string(input).expect("read input");
    let lines: Vec<&str> = text.lines().collect();
    let mut out = String::new();
    panic::set_hook(Box::new(|_| {}));
    let mut i = 0;
    while i < lines.len() {
        let l = lines[i];
        if l.starts_with("C ") {
            let mut j = i + 1;
            while j < lines.len() && !lines[j].starts_with("C ") && !lines[j].starts_with("S ") {
                j += 1;
            }
            let mut part = String::new();
            let r = panic::catch_unwind(AssertUnwindSafe(|| function_case(&lines[i..j], &mut part)));
            out.push_str(&part);
            if r.is_err() {
                out.push_str("PANIC\n");
            }
            i = j;
        } else if l.starts_with("S ") {
            let mut part = String::new();
            let r = panic::catch_unwind(AssertUnwindSafe(|| script_case(l, &mut part)));
            out.push_str(&part);
            if r.is_err() {
                out.push_str("PANIC\n");
            }
            i += 1;
        } else {
            i += 1;
        }
    }
    fs::write(output, out).expect("write output");
    ExitCode::SUCCESS
}
