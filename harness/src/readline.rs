//! `nsverif readline <script> <out>` — memory footprint of a script that calls `read_line`
//! (property C17, long runs).
//!
//! The script is run exactly as `naija <script>` runs it (src/bin/naija: `arena::init(256 MiB)`,
//! persistent arena = scratch arena 0, resolver on a scratch arena that is dropped, frame arena =
//! the other scratch arena, `run_with_analysis` with the optimisation plan); `read_line` reads
//! this process's own standard input (the caller redirects it from a file).  `shout` prints to
//! standard output as usual.  One line is appended to <out>:
//!
//!   rl <ending> arena_before=<offset of the persistent arena just before the run>
//!      arena_after=<its offset after the run> frame_after=<offset of the frame arena after the run>
//!      resets=<frame resets> returns=<pool slot returns> promotions=<copies made by promote> outputs=<values shouted>
//!
//! A line buffer that `read_line` allocated must be gone after the loop iteration that asked
//! for it: arena_after - arena_before must not depend on how many lines the script read.
use std::fs;
use std::io::Write;
use std::process::ExitCode;

use naijascript::arena::{self, scratch_arena};
use naijascript::helpers::MEBI;
use naijascript::resolver::Resolver;
use naijascript::runtime::{Runtime, verif_counters};
use naijascript::syntax::parser::Parser;
use naijascript::syntax::scanner::Lexer;

pub fn run(args: &[String]) -> ExitCode {
    let src = fs::read_to_string(&args[0]).expect("read script");
    let mut out = fs::OpenOptions::new().create(true).append(true).open(&args[1]).expect("open output");
    arena::init(256 * MEBI).expect("arena init");
    let arena = scratch_arena(None);
    let arena = &*arena;
    let lexer = Lexer::new(&src, arena);
    let mut parser = Parser::new(lexer, arena);
    let (root, err) = parser.parse_program();
    if !err.diagnostics.is_empty() {
        writeln!(out, "rl rejected-parse").unwrap();
        return ExitCode::SUCCESS;
    }
    let res_arena = scratch_arena(Some(arena));
    let mut resolver = Resolver::with_facts_arena(&res_arena, arena);
    resolver.resolve(root);
    if resolver.errors.has_errors() {
        writeln!(out, "rl rejected-resolve").unwrap();
        return ExitCode::SUCCESS;
    }
    let (facts, optimization_plan) = resolver.into_artifacts();
    let frame = scratch_arena(Some(arena));
    let mut runtime = Runtime::new(arena, Some(&frame));
    verif_counters::reset();
    let before = arena.offset();
    let errs = runtime.run_with_analysis(root, &facts, optimization_plan.as_ref());
    let ending = if errs.has_errors() {
        format!("err:{}", errs.diagnostics.first().map(|d| d.message.replace(' ', "_")).unwrap_or_default())
    } else {
        "ok".to_string()
    };
    let (resets, returns, promotions) = verif_counters::snapshot();
    std::io::stdout().flush().ok();
    writeln!(
        out,
        "rl {ending} arena_before={before} arena_after={} frame_after={} resets={resets} returns={returns} promotions={promotions} outputs={}",
        arena.offset(),
        frame.offset(),
        runtime.output.len()
    )
    .unwrap();
    ExitCode::SUCCESS
}
