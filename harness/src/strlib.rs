//! C13: function-level runs of the string built-ins. One case per line, hex-encoded bytes.
use std::fmt::Write as _;
use std::fs;
use std::panic;
use std::process::ExitCode;

use naijascript::arena::Arena;
use naijascript::builtins::{ArrayBuiltin, StringBuiltin};
use naijascript::runtime::Value;

fn unhex(s: &str) -> String {
    if s == "-" {
        return String::new();
    }
    let b: Vec<u8> = (0..s.len() / 2).map(|i| u8::from_str_radix(&s[2 * i..2 * i + 2], 16).unwrap()).collect();
    String::from_utf8(b).expect("harness inputs are valid UTF-8")
}

fn hex(s: &str) -> String {
    if s.is_empty() {
        return "-".to_string();
    }
    let mut o = String::new();
    // the property also says "all results are valid UTF-8": the built-ins assemble their results with
    // unchecked constructors, so re-validate the bytes here and mark a malformed result
    if std::str::from_utf8(s.as_bytes()).is_err() {
        o.push_str("INVALID-UTF8:");
    }
    for b in s.as_bytes() {
        let _ = write!(o, "{b:02x}");
    }
    o
}

fn bits(x: f64) -> String {
    if x.is_nan() { "7ff8000000000000".to_string() } else { format!("{:016x}", x.to_bits()) }
}

fn one(arena: &Arena, t: &[&str]) -> String {
    match t[0] {
        "find" => {
            let (h, n) = (unhex(t[1]), unhex(t[2]));
            match naijascript::builtins::find(&h, &n) {
                Some(i) => format!("found {i}"),
                None => "notfound".to_string(),
            }
        }
        "replace" => {
            let (h, f, to) = (unhex(t[1]), unhex(t[2]), unhex(t[3]));
            let r = StringBuiltin::replace(&h, &f, &to, arena);
            format!("str {}", hex(&r))
        }
        "split" => {
            let (s, sep) = (unhex(t[1]), unhex(t[2]));
            let parts: Vec<String> = StringBuiltin::split(&s, &sep, arena).map(|p| hex(&p)).collect();
            format!("arr {}", parts.join(","))
        }
        "splitjoin" => {
            let (s, sep) = (unhex(t[1]), unhex(t[2]));
            let mut v: Vec<Value, &Arena> = Vec::new_in(arena);
            for p in StringBuiltin::split(&s, &sep, arena) {
                v.push(Value::Str(naijascript::arena::ArenaCow::Owned(p)));
            }
            let r = ArrayBuiltin::join(&v, &sep, arena);
            format!("str {}", hex(&r))
        }
        "slice" => {
            let s = unhex(t[1]);
            let (a, b): (f64, f64) = (t[2].parse().unwrap(), t[3].parse().unwrap());
            let r = StringBuiltin::slice(&s, a, b, arena);
            format!("str {}", hex(&r))
        }
        "len" => format!("num {}", StringBuiltin::len(&unhex(t[1]))),
        "trim" => format!("str {}", hex(&StringBuiltin::trim(&unhex(t[1]), arena))),
        "ws" => {
            // all white-space code points in a range, as the implementation's trim sees them
            let (lo, hi): (u32, u32) = (t[1].parse().unwrap(), t[2].parse().unwrap());
            let mut o = String::from("ws");
            for cp in lo..hi {
                if let Some(c) = char::from_u32(cp) {
                    let s = format!("a{c}");
                    if StringBuiltin::trim(&s, arena).len() == 1 {
                        let _ = write!(o, " {cp}");
                    }
                }
            }
            o
        }
        // to_number: the bit pattern of the result, every NaN printed as the canonical one
        "tonum" => format!("num {}", bits(StringBuiltin::to_number(&unhex(t[1])))),
        // Display of a number (what string interpolation / shout print), then to_number of that text
        "roundtrip" => {
            let x = f64::from_bits(u64::from_str_radix(t[1], 16).unwrap());
            let text = format!("{}", Value::Number(x));
            format!("txt {} num {}", hex(&text), bits(StringBuiltin::to_number(&text)))
        }
        "upper" => format!("str {}", hex(&StringBuiltin::to_uppercase(&unhex(t[1]), arena))),
        "lower" => format!("str {}", hex(&StringBuiltin::to_lowercase(&unhex(t[1]), arena))),
        "casemap" => {
            // every scalar value in [lo, hi) whose upper- or lower-casing by the built-ins is not the identity
            let (lo, hi): (u32, u32) = (t[1].parse().unwrap(), t[2].parse().unwrap());
            let mut o = String::from("cm");
            let mut buf = [0u8; 4];
            for cp in lo..hi {
                if let Some(c) = char::from_u32(cp) {
                    let s: &str = c.encode_utf8(&mut buf);
                    let mark = arena.offset();
                    {
                        let u = StringBuiltin::to_uppercase(s, arena);
                        let l = StringBuiltin::to_lowercase(s, arena);
                        if u.as_str() != s || l.as_str() != s {
                            let seq = |r: &str| r.chars().map(|c| format!("{:x}", c as u32)).collect::<Vec<_>>().join(".");
                            let _ = write!(o, " {cp:x}:{}:{}", seq(&u), seq(&l));
                        }
                    }
                    unsafe { arena.reset(mark) };
                }
            }
            o
        }
        other => panic!("unknown case {other}"),
    }
}

pub fn run(input: &str, output: &str) -> ExitCode {
    let text = fs::read_to_string(input).expect("read input");
    let mut out = String::new();
    let arena = Arena::new(64 << 20).unwrap();
    panic::set_hook(Box::new(|_| {}));
    for line in text.lines() {
        let t: Vec<&str> = line.split_whitespace().collect();
        if t.is_empty() {
            continue;
        }
        let mark = arena.offset();
        let r = panic::catch_unwind(panic::AssertUnwindSafe(|| one(&arena, &t)));
        match r {
            Ok(s) => out.push_str(&s),
            Err(e) => {
                let msg = e
                    .downcast_ref::<String>()
                    .cloned()
                    .or_else(|| e.downcast_ref::<&str>().map(|s| (*s).to_string()))
                    .unwrap_or_default();
                let short: String = msg.chars().take(80).collect();
                let _ = write!(out, "PANIC {short}");
            }
        }
        out.push('\n');
        unsafe { arena.reset(mark) };
    }
    fs::write(output, out).expect("write output");
    ExitCode::SUCCESS
}
