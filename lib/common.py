"""Shared machinery for bin/check: builds, proof re-check, audit, evidence, verdicts."""
import fcntl
import hashlib
import json
import os
import random
import re
import shutil
import subprocess
import sys
import time

VERIF = os.path.dirname(os.path.dirname(os.path.abspath(__file__)))
REPO = os.environ.get("VERIF_REPO", "/repo")
BUILD = os.environ.get("VERIF_BUILD", os.path.join(VERIF, ".build"))
COQ = os.path.join(VERIF, "coq")
HARNESS = os.path.join(VERIF, "harness")
TARGET = os.path.join(BUILD, "target")
NSMODEL = os.path.join(BUILD, "nsmodel", "nsmodel")
GUARD_FLAG = "--cfg naijascript_verif"

FORBIDDEN = re.compile(
    r"\b(Admitted|admit|Axiom|Axioms|Parameter|Parameters|Conjecture|Conjectures|Hypothesis|Hypotheses|Variable|Variables|"
    r"Admit Obligations|bypass_check|type-in-type|impredicative-set)\b|Unset\s+Guard|Unset\s+Positivity|Unset\s+Universe")

TRUSTED_BASE_COMMON = [
    "Coq 8.16.1 kernel (coqc; vm_compute used in finite sweeps/refutation lemmas; no native_compute)",
    "axioms: none declared; Print Assumptions under every property theorem must say 'Closed under the global context'",
    "extraction: ExtrOcamlBasic only (bool/option/unit/list/prod/sumbool/sumor to OCaml natives, andb/orb inlined); Z/N/positive/nat stay extracted datatypes; OCaml 4.13.1; driver.ml (parsing/printing glue) trusted",
    "translator/gen_tables.py (regex reading of Rust constants; const-block tables printed by the rustc-compiled harness)",
    "Rust harness (uses the crate's public API plus hooks behind --cfg naijascript_verif)",
    "modelled, not verified: rustc/std, the OS (mmap/mprotect/madvise, read(2), process spawn), memchr-rs",
]


class Env:
    """Per-invocation context."""

    def __init__(self, prop, tier, seed):
        self.prop = prop
        self.tier = tier
        self.seed = seed
        self.t0 = time.time()
        self.rng = random.Random(seed * 1000003 + (int(prop[1:]) if prop[1:].isdigit() else int(hashlib.sha256(prop.encode()).hexdigest()[:6], 16)))
        base = os.path.join(BUILD, "work")
        os.makedirs(base, exist_ok=True)
        # one directory per invocation (two concurrent checks of one property must not wipe
        # each other's files); directories whose owning process is gone are swept (a killed
        # check cannot run its own clean-up, and such leftovers reach gigabytes)
        for d in os.listdir(base):
            pth = os.path.join(base, d)
            try:
                pid = d.rsplit(".", 1)[1] if "." in d else ""
                if pid.isdigit():
                    if not os.path.exists("/proc/%s" % pid):
                        shutil.rmtree(pth, ignore_errors=True)
                elif time.time() - os.path.getmtime(pth) > 3600:
                    shutil.rmtree(pth, ignore_errors=True)
            except OSError:
                pass
        self.work = os.path.join(base, "%s.%d" % (prop, os.getpid()))
        shutil.rmtree(self.work, ignore_errors=True)
        os.makedirs(self.work, exist_ok=True)
        import atexit
        atexit.register(lambda p=self.work: shutil.rmtree(p, ignore_errors=True) if not os.environ.get("VERIF_KEEP_WORK") else None)
        self.log_lines = []

    def log(self, *a):
        s = " ".join(str(x) for x in a)
        self.log_lines.append(s)
        print(s, flush=True)


class Lock:
    def __init__(self, name):
        os.makedirs(BUILD, exist_ok=True)
        # the coq tree is shared by every build dir, so its lock lives in /verif/.build
        base = os.path.join(VERIF, ".build") if name == "coq" else BUILD
        os.makedirs(base, exist_ok=True)
        self.path = os.path.join(base, name + ".lock")

    def __enter__(self):
        self.f = open(self.path, "w")
        fcntl.flock(self.f, fcntl.LOCK_EX)
        return self

    def __exit__(self, *a):
        fcntl.flock(self.f, fcntl.LOCK_UN)
        self.f.close()


def sh(cmd, timeout=None, cwd=None, env=None, check=False, stdin=None):
    """Runs a command (list, or string through the shell) in its own process group; on
    timeout the WHOLE group is killed, so no grandchild (a harness run started through
    `sh -c`) survives as a runaway process."""
    import signal
    e = dict(os.environ)
    if env:
        e.update(env)
    p = subprocess.Popen(cmd, shell=isinstance(cmd, str), cwd=cwd, env=e, stdout=subprocess.PIPE,
                         stderr=subprocess.STDOUT, stdin=subprocess.PIPE if stdin is not None else subprocess.DEVNULL,
                         start_new_session=True)
    try:
        o, _ = p.communicate(input=stdin, timeout=timeout)
        out = (o or b"").decode("utf-8", "replace")
        rc = p.returncode
    except subprocess.TimeoutExpired:
        try:
            os.killpg(p.pid, signal.SIGKILL)
        except OSError:
            pass
        try:
            o, _ = p.communicate(timeout=10)
        except Exception:
            o = b""
        out = (o or b"").decode("utf-8", "replace") + "\n[timeout]"
        rc = 124
    if check and rc != 0:
        raise RuntimeError("command failed (%s): %s\n%s" % (rc, cmd, out[-4000:]))
    return rc, out


# ----------------------------------------------------------------------------
# Rust harness

def cargo_env(release=False):
    return {
        "CARGO_NET_OFFLINE": "true",
        "CARGO_TARGET_DIR": TARGET,
        "RUSTFLAGS": GUARD_FLAG,
    }


def harness_bin(release=False):
    return os.path.join(TARGET, "release" if release else "debug", "nsverif")


def naija_bin(release=False):
    return os.path.join(TARGET, "release" if release else "debug", "naija")


def build_harness(release=False, log=None):
    """Rebuilds the harness (and therefore /repo's crate) from the current working tree."""
    with Lock("cargo"):
        os.makedirs(BUILD, exist_ok=True)
        tmpl = open(os.path.join(HARNESS, "Cargo.toml.in")).read().replace("@REPO@", REPO)
        hdir = HARNESS
        if REPO != "/repo":
            # scratch copy of /repo under test (selftest / fix validation): keep /verif/harness untouched
            hdir = os.path.join(BUILD, "harness_alt")
            os.makedirs(hdir, exist_ok=True)
            if not os.path.islink(os.path.join(hdir, "src")):
                os.symlink(os.path.join(HARNESS, "src"), os.path.join(hdir, "src"))
        ct = os.path.join(hdir, "Cargo.toml")
        if not os.path.exists(ct) or open(ct).read() != tmpl:
            open(ct, "w").write(tmpl)
        lock_src = os.path.join(REPO, "Cargo.lock")
        lock_dst = os.path.join(hdir, "Cargo.lock")
        if not os.path.exists(lock_dst):
            shutil.copy(lock_src, lock_dst)
        cmd = "cargo +nightly build --offline" + (" --release" if release else "")
        rc, out = sh(cmd, cwd=hdir, env=cargo_env(), timeout=1500)
        if rc != 0:
            # a stale lock copy can be the reason: refresh once
            shutil.copy(lock_src, lock_dst)
            rc, out = sh(cmd, cwd=hdir, env=cargo_env(), timeout=1500)
        return rc == 0, out


def build_naija(release=False):
    """Builds /repo's own `naija` binary (hooks on) into the shared target dir."""
    with Lock("cargo"):
        cmd = "cargo +nightly build --offline --bin naija" + (" --release" if release else "")
        rc, out = sh(cmd, cwd=REPO, env=cargo_env(), timeout=1500)
        return rc == 0, out


def refresh_tables():
    ok, out = build_harness()
    if not ok:
        return False, out
    rc, out2 = sh([harness_bin(), "tables"])
    if rc != 0:
        return False, out2
    os.makedirs(BUILD, exist_ok=True)
    line = [l for l in out2.splitlines() if l.startswith("{")][-1]
    open(os.path.join(BUILD, "tables.json"), "w").write(line)
    return True, out


# ----------------------------------------------------------------------------
# Coq

def run_translator(prop=None):
    """Runs every translator/gen_*.py (each regenerates one coq/theories/Gen*.v from /repo's
    current source; gen_tables.py writes Generated.v).  A failing translator breaks only the
    properties whose Coq closure contains a file that translator writes."""
    ok = True
    outs = []
    tdir = os.path.join(VERIF, "translator")
    closure = None
    for fn in sorted(os.listdir(tdir)):
        if fn.startswith("gen_") and fn.endswith(".py"):
            rc, out = sh([sys.executable, os.path.join(tdir, fn), os.path.join(BUILD, "tables.json")],
                         env={"VERIF_REPO": REPO})
            outs.append(out.strip())
            if rc != 0:
                relevant = True
                if prop is not None:
                    if closure is None:
                        closure = set(os.path.basename(p) for p in coq_closure(prop))
                    written = set(re.findall(r"\b(Gen\w*\.v|Generated\.v)", open(os.path.join(tdir, fn)).read()))
                    relevant = bool(written & closure) or not written
                if relevant:
                    ok = False
                else:
                    outs.append("[%s failed but writes nothing %s depends on]" % (fn, prop))
    return ok, "\n".join(o for o in outs if o)


def write_coqproject():
    """_CoqProject lists every .v file under coq/ (theories, proofs, Properties, extract)."""
    files = []
    for sub in ("theories", "proofs", "Properties", "extract"):
        d = os.path.join(COQ, sub)
        if os.path.isdir(d):
            files += sorted(os.path.join(sub, f) for f in os.listdir(d) if f.endswith(".v"))
    text = "-Q . NS\n" + "\n".join(files) + "\n"
    p = os.path.join(COQ, "_CoqProject")
    if not os.path.exists(p) or open(p).read() != text:
        open(p, "w").write(text)
        return True
    return False


def coq_make(targets, timeout=1500, jobs=16):
    """Full .vo build of the given targets (and their dependencies) through coq_makefile."""
    with Lock("coq"):
        changed = write_coqproject()
        if changed or not os.path.exists(os.path.join(COQ, "Makefile")) or \
                os.path.getmtime(os.path.join(COQ, "Makefile")) < os.path.getmtime(os.path.join(COQ, "_CoqProject")):
            sh("coq_makefile -f _CoqProject -o Makefile", cwd=COQ, check=True)
        rc, out = sh(["make", "-j%d" % jobs] + targets, cwd=COQ, timeout=timeout)
        return rc == 0, out


def coq_audit(prop, theorems):
    """Compiles a tiny file that re-states each theorem's type (`Check name : stmt` is in
    Properties/<prop>.v itself) and prints its assumptions; returns (ok, report, per-theorem)."""
    d = os.path.join(BUILD, "audit")
    os.makedirs(d, exist_ok=True)
    src = os.path.join(d, "Audit%s.v" % prop)
    with open(src, "w") as f:
        f.write("Require Import NS.Properties.%s.\n" % prop)
        for t in theorems:
            f.write('Goal True. idtac "@@THEOREM %s". exact I. Qed.\n' % t)
            f.write("Print Assumptions %s.\n" % t)
    with Lock("coq"):
        rc, out = sh(["coqc", "-Q", COQ, "NS", "-o", os.path.join(d, "Audit%s.vo" % prop), src], timeout=600)
    per = {}
    cur = None
    for line in out.splitlines():
        m = re.match(r"@@THEOREM (\S+)", line)
        if m:
            cur = m.group(1)
            per[cur] = []
        elif cur is not None:
            per[cur].append(line)
    ok = rc == 0
    closed = {}
    for t in theorems:
        body = "\n".join(per.get(t, []))
        closed[t] = "Closed under the global context" in body
        if not closed[t]:
            ok = False
    return ok, out, closed


def coq_closure(prop):
    """.v files (absolute paths) that Properties/<prop>.v transitively requires inside NS,
    plus every extraction file (they feed the model executable)."""
    seen = []
    todo = [os.path.join(COQ, "Properties", prop + ".v")]
    ex = os.path.join(COQ, "extract")
    todo += [os.path.join(ex, f) for f in sorted(os.listdir(ex)) if f.endswith(".v")]
    while todo:
        p = todo.pop()
        if p in seen or not os.path.exists(p):
            continue
        seen.append(p)
        txt = strip_coq_comments(open(p, encoding="utf-8").read())
        for name in re.findall(r"\bNS(?:\.[A-Za-z_]\w*)+", txt):
            todo.append(os.path.join(COQ, *name.split(".")[1:]) + ".v")
    return seen


def coq_chk(prop, timeout=5400):
    """Independent re-check of the property's compiled closure with coqchk; returns
    (status, summary dict) with status "ok" | "failed" | "timeout".  ok requires: no axioms,
    nothing relying on type-in-type, unsafe fixpoints or assumed positivity.  The compiled
    files are copied under the lock and checked from the copy, so that the (long) re-check
    does not block other builds; a timeout is inconclusive (recorded), not a failed re-check."""
    d = os.path.join(BUILD, "chk", "%s.%d" % (prop, os.getpid()))
    shutil.rmtree(d, ignore_errors=True)
    os.makedirs(d, exist_ok=True)
    with Lock("coq"):
        sh(["rsync", "-a", "--include=*/", "--include=*.vo", "--exclude=*", COQ + "/", d + "/"], timeout=600)
    rc, out = sh(["coqchk", "-o", "-silent", "-Q", d, "NS", "NS.Properties.%s" % prop], timeout=timeout)
    shutil.rmtree(d, ignore_errors=True)
    summ = {}
    cur = None
    for line in out.splitlines():
        m = re.match(r"\* (Axioms|Constants/Inductives relying on type-in-type|Constants/Inductives relying on unsafe \(co\)fixpoints|Inductives whose positivity is assumed):\s*(.*)", line.strip())
        if m:
            cur = m.group(1)
            summ[cur] = [m.group(2).strip()] if m.group(2).strip() else []
        elif cur and line.strip() and not line.strip().startswith("*"):
            summ[cur].append(line.strip())
    if rc == 124:
        return "timeout", {"rc": rc, "summary": summ, "note": "coqchk did not finish within %d s (inconclusive)" % timeout}
    ok = rc == 0 and len(summ) == 4 and all(v == ["<none>"] for v in summ.values())
    return ("ok" if ok else "failed"), {"rc": rc, "summary": summ, "tail": out[-400:] if not ok else ""}


def grep_forbidden(prop=None):
    """Scans the .v files the property depends on (all of them when prop is None), comments
    stripped, for forbidden vernacular."""
    hits = []
    if prop is not None:
        paths = coq_closure(prop)
    else:
        paths = [os.path.join(r, fn) for r, _, fs in os.walk(COQ) for fn in fs if fn.endswith(".v")]
    for p in sorted(paths):
        if True:
            txt = open(p, encoding="utf-8").read()
            txt = strip_coq_comments(txt)
            for i, line in enumerate(txt.splitlines(), 1):
                m = FORBIDDEN.search(line)
                if m:
                    # Section-local Variable/Hypothesis are allowed only inside a Section.
                    if m.group(0) in ("Variable", "Variables", "Hypothesis", "Hypotheses") and in_section(txt, i):
                        continue
                    hits.append("%s:%d: %s" % (os.path.relpath(p, VERIF), i, line.strip()))
    return hits


def strip_coq_comments(txt):
    out = []
    depth = 0
    i = 0
    n = len(txt)
    in_str = False
    while i < n:
        c = txt[i]
        if depth == 0 and c == '"':
            in_str = not in_str
            out.append(c)
            i += 1
            continue
        if not in_str and txt.startswith("(*", i):
            depth += 1
            i += 2
            continue
        if not in_str and depth > 0 and txt.startswith("*)", i):
            depth -= 1
            i += 2
            continue
        if depth == 0:
            out.append(c)
        elif c == "\n":
            out.append(c)
        i += 1
    return "".join(out)


def in_section(txt, lineno):
    depth = 0
    for i, line in enumerate(txt.splitlines(), 1):
        if i >= lineno:
            break
        if re.match(r"\s*Section\s+\w+", line):
            depth += 1
        elif re.match(r"\s*End\s+\w+", line) and depth > 0:
            depth -= 1
    return depth > 0


def property_theorems(prop):
    """Theorem names declared in Properties/<prop>.v."""
    p = os.path.join(COQ, "Properties", prop + ".v")
    txt = strip_coq_comments(open(p).read())
    return re.findall(r"(?m)^\s*(?:Theorem|Lemma)\s+(\w+)", txt)


def build_nsmodel():
    """Extracts the executable models and compiles the OCaml driver.

    Layout under coq/extract/: Extract*.v each write one Model*.ml(i) (via
    `Extraction "extract/ModelX.ml" ...`); mode_*.ml are hand-written driver fragments, each
    opening the Model module it needs and registering itself with `Modes.register`;
    modes.ml (registry) is compiled before them and main.ml last.  Every unit is compiled
    separately and only the units that compile are linked, so one property's unfinished
    driver cannot take the other properties' model executable down with it (its own mode
    is then simply missing and its check reports that)."""
    with Lock("coq"):
        d = os.path.join(BUILD, "nsmodel")
        os.makedirs(d, exist_ok=True)
        ex = os.path.join(COQ, "extract")
        if write_coqproject():
            sh("coq_makefile -f _CoqProject -o Makefile", cwd=COQ, check=True)
        vos = ["extract/" + f[:-2] + ".vo" for f in sorted(os.listdir(ex)) if f.endswith(".v")]
        rc, out = sh(["make", "-k", "-j16"] + vos, cwd=COQ, timeout=1500)
        report = []
        if rc != 0:
            report.append("extraction: some Extract*.v failed:\n" + out[-1500:])
        models = sorted(f[:-3] for f in os.listdir(ex) if f.startswith("Model") and f.endswith(".ml")
                        and os.path.exists(os.path.join(ex, f + "i")))
        modes = sorted(f for f in os.listdir(ex) if f.startswith("mode_") and f.endswith(".ml"))
        order = []
        for m in models:
            order += [m + ".mli", m + ".ml"]
        order += ["modes.ml"] + modes + ["main.ml"]
        stamp = hashlib.sha256()
        for f in order:
            stamp.update(f.encode())
            stamp.update(open(os.path.join(ex, f), "rb").read())
        sp = os.path.join(d, "stamp")
        if os.path.exists(NSMODEL) and os.path.exists(sp) and open(sp).read() == stamp.hexdigest():
            return True, "nsmodel up to date"
        for f in os.listdir(d):
            if f.endswith((".ml", ".mli", ".cmi", ".cmx", ".o")):
                os.remove(os.path.join(d, f))
        for f in order:
            shutil.copy(os.path.join(ex, f), os.path.join(d, f))
        linked = []
        for f in order:
            rc, out = sh("ocamlfind ocamlopt -O2 -w -a -package str -c %s 2>&1 || ocamlfind ocamlopt -w -a -package str -c %s" % (f, f),
                         cwd=d, timeout=900)
            if rc != 0:
                report.append("nsmodel: %s does not compile (left out):\n%s" % (f, out[-1500:]))
                if f in ("modes.ml", "main.ml"):
                    return False, "\n".join(report)
                continue
            if f.endswith(".ml"):
                linked.append(f[:-3] + ".cmx")
        rc, out = sh("ocamlfind ocamlopt -w -a -package str -linkpkg %s -o nsmodel" % " ".join(linked), cwd=d, timeout=900)
        if rc != 0:
            return False, "\n".join(report) + out
        open(sp, "w").write(stamp.hexdigest())
        return True, "\n".join(report) + out


# ----------------------------------------------------------------------------
# Known findings, replays, evidence

def load_known(prop):
    p = os.path.join(VERIF, "known_findings.json")
    if not os.path.exists(p):
        return []
    data = json.load(open(p))
    return [e for e in data.get("findings", []) if e.get("property") == prop and e.get("status") == "open"]


def write_replay(env, name, payload):
    os.makedirs(os.path.join(VERIF, "replays"), exist_ok=True)
    body = json.dumps(payload, indent=1, sort_keys=True, ensure_ascii=False)
    h = hashlib.sha256(body.encode()).hexdigest()[:10]
    path = os.path.join(VERIF, "replays", "%s-%s-%s.json" % (env.prop, name, h))
    with open(path, "w") as f:
        f.write(body + "\n")
    return path


INT_KEYS = ("evaluations", "distinct_nontrivial", "states", "transitions", "traces_validated_against_impl",
            "obligations", "discharged", "programs", "disagreements_checked")


def sanitize_coverage(cov):
    """Keeps the evidence file valid against EVIDENCE.schema.json whatever a property module
    put into `extra`: typed keys get their type, anything else moves to a *_note key."""
    out = dict(cov)
    for k in INT_KEYS:
        if k in out and not (isinstance(out[k], int) and not isinstance(out[k], bool) and out[k] >= 0):
            out[k + "_note"] = out.pop(k)
    if "exhaustive" in out and not isinstance(out["exhaustive"], bool):
        out["exhaustive_note"] = out.pop("exhaustive")
    for k in ("rule", "checker_cmd", "explanation"):
        if k in out and not isinstance(out[k], str):
            out[k] = json.dumps(out[k], ensure_ascii=False)
    if "samples" in out and not isinstance(out["samples"], list):
        out["samples"] = [out["samples"]]
    if "trusted_base" in out:
        tb = out["trusted_base"] if isinstance(out["trusted_base"], list) else [out["trusted_base"]]
        out["trusted_base"] = [x if isinstance(x, str) else json.dumps(x, ensure_ascii=False) for x in tb]
    return out


def write_evidence(env, coverage, assumptions, violations):
    coverage = sanitize_coverage(coverage)
    assumptions = [a if isinstance(a, str) else json.dumps(a, ensure_ascii=False) for a in (assumptions or [])]
    ev = {
        "property_id": env.prop,
        "tier": env.tier,
        "seed": env.seed,
        "level": "proof",
        "coverage": coverage,
        "assumptions": assumptions,
        "wall_s": round(time.time() - env.t0, 2),
        "violations": violations,
    }
    # evidence/ holds one file per PROPERTY id; shared model components (PARSER, PIPELINE)
    # that can also be run on their own write to evidence/components/ instead
    sub = "evidence" if re.fullmatch(r"C\d\d", env.prop) else os.path.join("evidence", "components")
    os.makedirs(os.path.join(VERIF, sub), exist_ok=True)
    p = os.path.join(VERIF, sub, env.prop + ".json")
    with open(p, "w") as f:
        json.dump(ev, f, indent=1, sort_keys=True, ensure_ascii=False)
        f.write("\n")
    return p


def chash(s):
    return hashlib.sha256(s.encode("utf-8", "replace")).hexdigest()[:16]


# ----------------------------------------------------------------------------
# generic two-sided run for line-oriented modes

def run_both(env, name, mode, text, model_args=(), release=False, timeout=900):
    """Runs `nsverif <mode> in out` and `nsmodel <mode> <model_args> in out`; returns
    (impl_lines | None, model_lines | None, error_text)."""
    inp = os.path.join(env.work, name + ".in")
    open(inp, "w").write(text)
    oi = os.path.join(env.work, name + ".impl")
    om = os.path.join(env.work, name + ".model")
    for p in (oi, om):
        if os.path.exists(p):
            os.remove(p)
    rc1, o1 = sh([harness_bin(release), mode, inp, oi], timeout=timeout)
    rc2, o2 = sh([NSMODEL, mode] + list(model_args) + [inp, om], timeout=timeout)
    li = open(oi).read().splitlines() if rc1 == 0 and os.path.exists(oi) else None
    lm = open(om).read().splitlines() if rc2 == 0 and os.path.exists(om) else None
    return li, lm, (("impl rc=%s: %s" % (rc1, o1[-600:])) if rc1 else "") + (("model rc=%s: %s" % (rc2, o2[-600:])) if rc2 else "")


def group_by_header(lines, is_header):
    groups = []
    cur = None
    for l in lines or []:
        if is_header(l):
            cur = [l]
            groups.append(cur)
        elif cur is not None:
            cur.append(l)
    return groups


def ddmin_lines(lines, pred, keep_head=1, budget_s=90):
    """Delta debugging on lines (after the first keep_head): removes chunks of halving size while
    pred holds, ending with one-at-a-time removal; stops when the time budget is spent and returns
    the smallest failing list found so far (a history of 10^4 operations with seconds per run would
    otherwise shrink for hours)."""
    t0 = time.time()
    head = list(lines[:keep_head])
    cur = list(lines[keep_head:])
    n = 2
    while len(cur) >= 2 and time.time() - t0 < budget_s:
        chunk = max(1, len(cur) // n)
        reduced = False
        i = 0
        while i < len(cur) and time.time() - t0 < budget_s:
            cand = cur[:i] + cur[i + chunk:]
            if len(cand) < len(cur) and pred(head + cand):
                cur = cand
                reduced = True
            else:
                i += chunk
        if not reduced:
            if chunk == 1:
                break
            n = min(len(cur), n * 2)
        else:
            n = max(2, n - 1)
    return head + cur
