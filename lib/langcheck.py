"""Shared comparison logic for the core-language checks: implementation record vs model
record, crash/panic oracle, configuration-equivalence oracles."""
import langrun

MODEL_CFG = {"nn": "n", "nf": "n", "pn": "p", "pf": "p"}


def model_ending(e):
    # model prints panic:<site>; implementation panic:<hex message>
    return "panic" if e.startswith("panic") else e


def compare(impl_rec, model_rec, cfgs=("nn", "pn")):
    """-> (status, detail). status: 'agree' | 'inconclusive' | 'disagree'.
    Resource exhaustion (implementation Stack overflow / timeout, model fuel) and model
    `unsupported` are inconclusive, never a disagreement."""
    if model_rec is None:
        return "inconclusive", "no model record"
    if "badast" in model_rec:
        return "disagree", model_rec["badast"]
    worst = "agree"
    for cfg in cfgs:
        if cfg not in impl_rec["runs"]:
            continue
        ei, vi = impl_rec["runs"][cfg]
        em, vm = model_rec["runs"].get(MODEL_CFG[cfg], ("missing", ""))
        ci, cm = langrun.ending_class(ei), model_ending(em)
        if cm in ("fuel", "unsupported") or ci in ("err:Stack_overflow", "timeout"):
            worst = "inconclusive" if worst == "agree" else worst
            continue
        if (ci, vi) != (cm, vm):
            return "disagree", {"cfg": cfg, "impl": (langrun.panic_text(ei)[:300], vi[:400]), "model": (em, vm[:400])}
    return worst, None


def crashed(impl_rec, cfgs=None):
    """configurations in which the implementation panicked, aborted or died by a signal"""
    out = []
    for cfg, (e, _) in impl_rec["runs"].items():
        if cfgs and cfg not in cfgs:
            continue
        c = langrun.ending_class(e)
        if c in ("panic", "crash"):
            out.append((cfg, langrun.panic_text(e)[:300]))
    if impl_rec.get("crash") and impl_rec["crash"][0] == "frontend":
        out.append(("frontend", impl_rec["crash"][1]))
    return out


def same_behaviour(impl_rec, cfg_a, cfg_b):
    """property oracle for two-configuration properties (C02: nf vs nn, C03: pn vs nn).
    None when either run is missing or ended in resource exhaustion."""
    if cfg_a not in impl_rec["runs"] or cfg_b not in impl_rec["runs"]:
        return None
    (ea, va), (eb, vb) = impl_rec["runs"][cfg_a], impl_rec["runs"][cfg_b]
    ca, cb = langrun.ending_class(ea), langrun.ending_class(eb)
    if "err:Stack_overflow" in (ca, cb) or "timeout" in (ca, cb):
        return None
    return (ca, va) == (cb, vb)
