"""Seeded, scope- and type-aware generator of NaijaScript programs (shared by the core-language
checks C01/C02/C03/C04/C05/C06/C09).  Every random choice comes from the `rng` handed in.

Programs terminate by construction (loops count, recursion carries a decreasing argument) and
are mostly accepted by the static checker; knobs bias the shapes each property needs.
Shapes that hit defects recorded in known_findings.json are only produced when the
corresponding `allow_*` knob is set, so ordinary streams stay comparable."""

NUM, STR, BOOL, NULL, ARR, DYN = "num", "str", "bool", "null", "arr", "dyn"

RESERVED = {"make", "get", "add", "minus", "times", "divide", "mod", "shout", "jasi", "start", "end", "if", "to",
            "say", "not", "so", "na", "pass", "small", "and", "or", "true", "false", "do", "return", "comot",
            "next", "null", "typeof", "read_line", "to_string", "command"}


class Var:
    def __init__(self, name, ty, elem=None, minlen=0, depth=0):
        self.name, self.ty, self.elem, self.minlen, self.depth = name, ty, elem, minlen, depth


class Fn:
    def __init__(self, name, ptypes, rty, captures, pure, relem=None):
        self.name, self.ptypes, self.rty, self.captures, self.pure, self.relem = name, ptypes, rty, captures, pure, relem
        self.defined = False


class Opts:
    def __init__(self, **kw):
        self.max_stmts = 14
        self.max_depth = 3
        self.p_fn = 0.18
        self.p_loop = 0.14
        self.p_if = 0.16
        self.p_block = 0.05
        self.p_capture_write = 0.5      # functions may assign enclosing variables
        self.p_recursion = 0.35
        self.p_unused = 0.15            # declarations/assignments that are never read (pruning food)
        self.p_dead = 0.08              # statements after return/comot/next
        self.p_trap = 0.04              # expressions that can fail at run time
        self.p_shadow = 0.25            # reuse a visible name for a new declaration
        self.p_forward_call = 0.3
        self.str_long = 0.1             # strings crossing pool classes (C02)
        self.alias_heavy = False        # C05 bias: copy arrays then mutate both sides
        self.name_pool = None           # small pool => heavy name reuse (C04)
        self.__dict__.update(kw)


class Gen:
    def __init__(self, rng, opts=None):
        self.r = rng
        self.o = opts or Opts()
        self.scopes = [[]]          # list of lists of Var (innermost last)
        self.fscopes = [[]]         # visible functions per block
        self.loop_depth = 0
        self.fn_stack = []          # (Fn, params) of enclosing function definitions
        self.counter = 0
        self.stats = {}

    # ------------------------------------------------------------ helpers
    def stat(self, k):
        self.stats[k] = self.stats.get(k, 0) + 1

    def fresh(self, prefix="v"):
        if self.o.name_pool:
            for _ in range(4):
                n = self.r.choice(self.o.name_pool)
                if not any(f.name == n for fs in self.fscopes for f in fs) or prefix == "v":
                    if prefix == "v" and any(f.name == n for fs in self.fscopes for f in fs):
                        continue
                    if prefix == "f" and (any(v.name == n for sc in self.scopes for v in sc) or any(f.name == n for f in self.fscopes[-1])):
                        continue
                    return n
        self.counter += 1
        return "%s%d" % (prefix, self.counter)

    def visible(self, ty=None, pred=None):
        seen = set()
        out = []
        for sc in reversed(self.scopes):
            for v in reversed(sc):
                if v.name in seen:
                    continue
                seen.add(v.name)
                if (ty is None or v.ty == ty) and (pred is None or pred(v)):
                    out.append(v)
        return out

    def visible_fns(self):
        seen = set()
        out = []
        for fs in reversed(self.fscopes):
            for f in reversed(fs):
                if f.name in seen:
                    continue
                seen.add(f.name)
                out.append(f)
        return out

    def callable_fns(self, rty=None):
        out = []
        for f in self.visible_fns():
            if rty is not None and f.rty != rty:
                continue
            if not f.defined and (not f.pure or self.fn_stack):
                continue  # forward reference only to capture-free functions, and only from non-function code
            # every captured variable must be the visible binding here
            ok = True
            for c in f.captures:
                vs = [v for v in self.visible() if v.name == c.name]
                if not vs or vs[0] is not c:
                    ok = False
                    break
            # a function under definition can be called recursively only through its own template
            if any(f is g for g, _ in self.fn_stack):
                ok = False
            if ok:
                out.append(f)
        return out

    # ------------------------------------------------------------ literals
    def num_lit(self):
        r = self.r
        k = r.random()
        if k < 0.6:
            return str(r.randint(0, 12))
        if k < 0.8:
            return r.choice(["0.5", "2.25", "1.5", "10.75", "0.1", "3.14159", "100", "255", "1000000"])
        if k < 0.9:
            return "(minus %s)" % r.choice(["1", "2", "0.5", "7", "3.25"])
        return r.choice(["9007199254740993", "0.000001", "123456789.125", "4294967296", "0.30000000000000004"])

    WORDS = ["a", "b", "ab", "abc", "hello", "wor ld", "naija", "x", "", "é", "世界", "tab\\tsep", "q\\\"q", "line\\n2",
             "aaaa", "abab", "  pad  ", "UPPER", "MiXed", "0123456789"]

    def str_lit(self, interp=True):
        r = self.r
        if r.random() < self.o.str_long:
            n = r.choice([7, 8, 9, 15, 16, 17, 31, 33, 127, 129, 160, 161, 255, 257, 300])
            unit = r.choice(["a", "xy", "abc", "0123456789"])
            return '"%s"' % (unit * (n // len(unit) + 1))[:n]
        w = r.choice(self.WORDS)
        if interp and r.random() < 0.3 and "\\" not in w:
            vs = self.visible(pred=lambda v: v.ty in (NUM, STR, BOOL, NULL, ARR))
            if vs:
                v = r.choice(vs)
                self.stat("interp")
                return '"%s{%s}%s"' % (w, v.name, r.choice(["", "!", " z"]))
        return '"%s"' % w

    # ------------------------------------------------------------ expressions
    def expr(self, ty, depth=0):
        r = self.r
        o = self.o
        if depth >= 3:
            return self.atom(ty)
        k = r.random()
        if ty == NUM:
            if k < 0.28:
                return self.atom(NUM)
            if k < 0.62:
                op = r.choice(["add", "minus", "times", "add", "minus"])
                return "%s %s %s" % (self.expr(NUM, depth + 1), op, self.expr(NUM, depth + 1))
            if k < 0.70:
                if r.random() < o.p_trap * 4:
                    self.stat("trap_div")
                    return "%s %s %s" % (self.expr(NUM, depth + 1), r.choice(["divide", "mod"]), self.expr(NUM, depth + 1))
                return "%s %s %s" % (self.expr(NUM, depth + 1), r.choice(["divide", "mod"]), r.choice(["2", "3", "0.5", "7", "(1 add %s.abs())" % self.recv(self.atom(NUM))]))
            if k < 0.74:
                return "minus %s" % self.par(self.atom(NUM))
            if k < 0.78:
                return "(%s)" % self.expr(NUM, depth + 1)
            if k < 0.84:
                return "%s.%s()" % (self.recv(self.atom(NUM)), r.choice(["abs", "floor", "ceil", "round", "sqrt"]))
            if k < 0.90:
                s = self.expr(STR, depth + 1)
                if r.random() < 0.5:
                    return "%s.len()" % self.recv(s)
                return "%s.find(%s)" % (self.recv(s), self.expr(STR, depth + 2))
            if k < 0.93:
                a = self.arr_var()
                if a:
                    return "%s.len()" % a.name
            if k < 0.95:
                return "%s.to_number()" % r.choice(['"12.5"', '"-3"', '"1e3"', '" 7"', '"abc"', '"0.1"', '".5"', '"inf"', '"9007199254740993"', '"1_000"', '"+4.25E-2"', '""'])
            return self.call_or(NUM, depth)
        if ty == STR:
            if k < 0.3:
                return self.atom(STR)
            if k < 0.55:
                a, b = self.expr(STR, depth + 1), self.expr(r.choice([STR, STR, NUM]), depth + 1)
                if r.random() < 0.5:
                    a, b = b, a
                    if not (a.startswith('"') or True):
                        pass
                return "%s add %s" % (self.par(a), self.par(b))
            if k < 0.75:
                s = self.recv(self.expr(STR, depth + 1))
                m = r.choice(["slice", "trim", "replace", "to_uppercase", "to_lowercase"])
                if m == "slice":
                    return "%s.slice(%s, %s)" % (s, r.choice(["0", "1", "(minus 1)", "2", "0.5", self.atom(NUM)]), r.choice(["3", "5", "(minus 1)", "100", self.atom(NUM)]))
                if m == "replace":
                    return "%s.replace(%s, %s)" % (s, self.expr(STR, depth + 2), self.expr(STR, depth + 2))
                if m in ("to_uppercase", "to_lowercase"):
                    return "%s.%s()" % (self.recv(r.choice(['"abcXYZ"', '"MiXed 12"', '"naija"', '"Straße é"', '"ΑΣ ΟΔΥΣΣΕΥΣ"', '"İstanbul ǅ"', '"世界 ok"'])), m)
                return "%s.trim()" % s
            if k < 0.82:
                return "to_string(%s)" % self.expr(r.choice([NUM, BOOL, STR, NULL]), depth + 1)
            if k < 0.87:
                return "typeof(%s)" % self.expr(r.choice([NUM, BOOL, STR, NULL, ARR]), depth + 1)
            if k < 0.92:
                a = self.arr_var()
                if a:
                    return "%s.join(%s)" % (a.name, r.choice(['","', '""', '" - "']))
            return self.call_or(STR, depth)
        if ty == BOOL:
            if k < 0.2:
                return self.atom(BOOL)
            if k < 0.6:
                t = r.choice([NUM, NUM, NUM, STR, BOOL])
                op = r.choice(["na", "pass", "small pass"])
                a, b = self.expr(t, depth + 1), self.expr(t, depth + 1)
                if t != NUM or r.random() < 0.5:
                    a, b = self.par(a), self.par(b)
                return "%s %s %s" % (a, op, b)
            if k < 0.78:
                return "%s %s %s" % (self.expr(BOOL, depth + 1), r.choice(["and", "or"]), self.expr(BOOL, depth + 1))
            if k < 0.86:
                return "not %s" % self.par(self.atom(BOOL))
            if k < 0.9:
                return "(%s)" % self.expr(BOOL, depth + 1)
            if k < 0.94:
                return "%s na null" % self.par(self.atom(r.choice([NULL, NUM, STR])))
            return self.call_or(BOOL, depth)
        if ty == NULL:
            return "null"
        if ty == ARR:
            return self.arr_lit(depth)[0]
        return self.atom(ty)

    def is_strish(self, a, b):
        return True

    def recv(self, e):
        # method receivers: only identifiers, string literals and call/index chains go bare
        import re
        if re.fullmatch(r"[A-Za-z_][A-Za-z0-9_]*(\[\d+\])*", e) or (e.startswith('"') and e.endswith('"') and e.count('"') - e.count('\\"') == 2):
            return e
        return "(%s)" % e

    def par(self, e):
        """parenthesise a compound operand"""
        return "(%s)" % e if " " in self.strip_strings(e) else e

    @staticmethod
    def strip_strings(e):
        import re
        return re.sub(r'"(?:[^"\\]|\\.)*"', '""', e)

    def atom(self, ty):
        r = self.r
        vs = self.visible(ty)
        if vs and r.random() < 0.6:
            return r.choice(vs).name
        # element of an array with that element type
        arrs = self.visible(ARR, pred=lambda v: v.elem == ty and v.minlen > 0)
        if arrs and r.random() < 0.25:
            a = r.choice(arrs)
            self.stat("index_read")
            return "%s[%d]" % (a.name, r.randrange(a.minlen))
        if ty == NUM:
            return self.num_lit()
        if ty == STR:
            return self.str_lit()
        if ty == BOOL:
            return r.choice(["true", "false"])
        if ty == NULL:
            return "null"
        if ty == ARR:
            return self.arr_lit(2)[0]
        return "null"

    def arr_var(self):
        vs = self.visible(ARR)
        return self.r.choice(vs) if vs else None

    def arr_lit(self, depth):
        r = self.r
        elem = r.choice([NUM, NUM, STR, BOOL, ARR] if depth < 2 else [NUM, STR])
        n = r.randint(1, 4)
        if elem == ARR:
            items = [self.arr_lit(depth + 2)[0] for _ in range(n)]
        else:
            items = [self.expr(elem, depth + 2) for _ in range(n)]
        return "[%s]" % ", ".join(items), elem, n

    def call_or(self, ty, depth):
        fs = self.callable_fns(ty)
        if fs and self.r.random() < 0.8:
            return self.call(self.r.choice(fs), depth)
        return self.atom(ty)

    def call(self, f, depth):
        self.stat("user_call")
        args = []
        for t in f.ptypes:
            if t == "dec":       # decreasing recursion counter
                args.append(str(self.r.randint(0, 5)))
            elif t == ARR:
                a = self.arr_var()
                args.append(a.name if a and self.r.random() < 0.7 else self.arr_lit(depth + 1)[0])
            else:
                args.append(self.expr(t, depth + 1))
        return "%s(%s)" % (f.name, ", ".join(args))

    # ------------------------------------------------------------ statements
    def block(self, n, ind, new_scope=True):
        if new_scope:
            self.scopes.append([])
            self.fscopes.append([])
        lines = []
        # functions are hoisted: pre-plan the functions of this block so earlier statements may call them
        planned = []
        if self.r.random() < self.o.p_fn * 2 and len(self.fn_stack) < 2:
            for _ in range(self.r.randint(1, 2)):
                planned.append(self.plan_fn())
        positions = sorted(self.r.randrange(n + 1) for _ in planned)
        pi = 0
        for i in range(n + 1):
            while pi < len(planned) and positions[pi] == i:
                lines += self.fn_def(planned[pi], ind)
                pi += 1
            if i < n:
                lines += self.stmt(ind)
        if new_scope:
            self.scopes.pop()
            self.fscopes.pop()
        return lines

    def plan_fn(self):
        r = self.r
        name = self.fresh("f")
        while name in RESERVED:
            name = self.fresh("f")
        rec = r.random() < self.o.p_recursion
        ptypes = (["dec"] if rec else []) + [r.choice([NUM, NUM, STR, BOOL, ARR]) for _ in range(r.randint(0, 2))]
        rty = r.choice([NUM, NUM, STR, BOOL, NULL, ARR])
        pure = r.random() < 0.5
        f = Fn(name, ptypes, rty, [], pure, relem=NUM)
        f.rec = rec
        self.fscopes[-1].append(f)
        return f

    def fn_def(self, f, ind):
        r = self.r
        self.stat("fn_def")
        params = ["p%d" % i if not self.o.name_pool else r.choice(self.o.name_pool) + "_p%d" % i for i in range(len(f.ptypes))]
        # captures: what is visible now (only for non-pure functions)
        outer_visible = self.visible()
        saved_scopes, saved_loop = self.scopes, self.loop_depth
        if f.pure:
            self.scopes = [[]]
        else:
            self.scopes = list(self.scopes)
        self.loop_depth = 0
        pscope = []
        for p, t in zip(params, f.ptypes):
            if t == ARR:
                pscope.append(Var(p, ARR, elem=NUM, minlen=0))
            else:
                pv = Var(p, NUM if t == "dec" else t)
                pv.protected = (t == "dec")
                pscope.append(pv)
        self.scopes.append(pscope)
        self.scopes.append([])
        self.fscopes.append([])
        self.fn_stack.append((f, params))
        pad = "  " * (ind + 1)
        body = []
        if f.rec:
            self.stat("recursive_fn")
            body.append("%sif to say (%s small pass 1) start return %s end" % (pad, params[0], self.ret_expr(f)))
        n = r.randint(1, 4)
        before = set(id(v) for v in outer_visible)
        for _ in range(n):
            body += self.stmt(ind + 1)
        if f.rec:
            rest = []
            for p, t in list(zip(params, f.ptypes))[1:]:
                rest.append(p)
            rc = "%s(%s)" % (f.name, ", ".join(["%s minus 1" % params[0]] + rest))
            if f.rty == NUM:
                body.append("%sreturn %s add %s" % (pad, self.atom(NUM), rc))
            elif f.rty == STR:
                body.append("%sreturn %s add %s" % (pad, self.atom(STR), rc))
            elif f.rty == NULL:
                body.append("%s%s" % (pad, rc))
            else:
                body.append("%sreturn %s" % (pad, rc))
        elif r.random() < 0.85 and f.rty != NULL:
            body.append("%sreturn %s" % (pad, self.ret_expr(f)))
        self.fn_stack.pop()
        self.fscopes.pop()
        self.scopes.pop()
        self.scopes.pop()
        # captures = outer variables mentioned in the body text (conservative: by name)
        text = "\n".join(body)
        if not f.pure:
            import re
            words = set(re.findall(r"[A-Za-z_][A-Za-z0-9_]*", text))
            f.captures = [v for v in outer_visible if v.name in words]
        self.scopes, self.loop_depth = saved_scopes, saved_loop
        f.defined = True
        return ["%sdo %s(%s) start" % ("  " * ind, f.name, ", ".join(params))] + body + ["%send" % ("  " * ind)]

    def ret_expr(self, f):
        if f.rty == ARR:
            a = [v for v in self.visible(ARR) if v.elem == NUM]
            if a and self.r.random() < 0.6:
                return self.r.choice(a).name
            return "[%s]" % ", ".join(self.expr(NUM, 2) for _ in range(self.r.randint(1, 3)))
        return self.expr(f.rty, 1)

    def declare(self, name, ty, elem=None, minlen=0):
        sc = self.scopes[-1]
        for v in sc:
            if v.name == name:
                # same-block redeclaration rebinds the same variable
                v.ty, v.elem, v.minlen = ty, elem, minlen
                return v
        v = Var(name, ty, elem, minlen, len(self.scopes))
        sc.append(v)
        return v

    def stmt(self, ind):
        r = self.r
        o = self.o
        pad = "  " * ind
        k = r.random()
        depth = len(self.scopes)
        can_nest = depth < o.max_depth + 2 * len(self.fn_stack) + 1
        if k < o.p_if and can_nest:
            self.stat("if")
            lines = ["%sif to say (%s) start" % (pad, self.expr(BOOL))]
            lines += self.block(r.randint(1, 3), ind + 1)
            lines.append("%send" % pad)
            if r.random() < 0.4:
                lines.append("%sif not so start" % pad)
                lines += self.block(r.randint(1, 2), ind + 1)
                lines.append("%send" % pad)
            return lines
        k -= o.p_if
        if k < o.p_loop and can_nest and self.loop_depth < 2:
            self.stat("loop")
            i = self.fresh("v")
            bound = r.randint(1, 4)
            lines = ["%smake %s get 0" % (pad, i)]
            self.declare(i, NUM)
            lines.append("%sjasi (%s small pass %d) start" % (pad, i, bound))
            self.loop_depth += 1
            self.scopes.append([])
            self.fscopes.append([])
            inner = ["%s  %s get %s add 1" % (pad, i, i)]
            hidden = self.hide(i)
            body = []
            nb = r.randint(1, 3)
            ctl_at = r.randrange(nb + 1) if r.random() < 0.35 else -1
            for bi in range(nb + 1):
                if bi == ctl_at:
                    body.append("%s  if to say (%s) start %s end" % (pad, self.expr(BOOL), r.choice(["comot", "next"])))
                    self.stat("loop_ctl")
                if bi < nb:
                    body += self.stmt(ind + 1)
            self.unhide(hidden)
            self.fscopes.pop()
            self.scopes.pop()
            self.loop_depth -= 1
            lines += inner + body + ["%send" % pad]
            return lines
        k -= o.p_loop
        if k < o.p_block and can_nest:
            self.stat("block")
            return ["%sstart" % pad] + self.block(r.randint(1, 3), ind + 1) + ["%send" % pad]
        k -= o.p_block
        if k < 0.22:
            return ["%sshout(%s)" % (pad, self.expr(r.choice([NUM, NUM, STR, STR, BOOL, ARR, NULL])))]
        if k < 0.47:
            ty = r.choice([NUM, NUM, NUM, STR, STR, BOOL, ARR, NULL])
            vis = self.visible()
            vis = [v for v in vis if v.ty != "counter" and not getattr(v, "protected", False)]
            if vis and r.random() < o.p_shadow:
                name = r.choice(vis).name
                self.stat("shadow_or_redeclare")
            else:
                name = self.fresh("v")
            if ty == ARR:
                if o.alias_heavy and self.visible(ARR) and r.random() < 0.6:
                    src = r.choice(self.visible(ARR))
                    self.stat("array_copy")
                    e, elem, n = src.name, src.elem, src.minlen
                else:
                    e, elem, n = self.arr_lit(0)
                line = "%smake %s get %s" % (pad, name, e)
                self.declare(name, ARR, elem, n)
                return [line]
            line = "%smake %s get %s" % (pad, name, self.expr(ty))
            self.declare(name, ty)
            return [line]
        if k < 0.62:
            # assignment to an existing variable (possibly of an enclosing function: capture write)
            cands = [v for v in self.visible() if v.ty in (NUM, STR, BOOL) and not getattr(v, "protected", False)]
            if self.fn_stack and r.random() > o.p_capture_write:
                fdepth = self.fn_depth_floor()
                cands = [v for v in cands if v.depth >= fdepth]
            if cands:
                v = r.choice(cands)
                self.stat("assign")
                return ["%s%s get %s" % (pad, v.name, self.expr(v.ty))]
        if k < 0.74:
            a = self.arr_var()
            if a:
                m = r.random()
                if m < 0.4 and a.elem in (NUM, STR, BOOL):
                    self.stat("push")
                    return ["%s%s.push(%s)" % (pad, a.name, self.expr(a.elem, 1))]
                if m < 0.55:
                    self.stat("pop")
                    return ["%sif to say (%s.len() pass %d) start shout(%s.pop()) end" % (pad, a.name, a.minlen, a.name)]
                if m < 0.65:
                    self.stat("reverse")
                    return ["%s%s.reverse()" % (pad, a.name)]
                if a.minlen > 0 and a.elem in (NUM, STR, BOOL):
                    self.stat("index_assign")
                    return ["%s%s[%d] get %s" % (pad, a.name, r.randrange(a.minlen), self.expr(a.elem, 1))]
                if a.minlen > 0 and a.elem == ARR:
                    self.stat("nested_index_assign")
                    return ["%s%s[%d].push(%s)" % (pad, a.name, r.randrange(a.minlen), self.expr(NUM, 2))]
        if k < 0.82:
            fs = self.callable_fns()
            if fs:
                f = r.choice(fs)
                c = self.call(f, 0)
                if f.rty == NULL or r.random() < 0.3:
                    return ["%s%s" % (pad, c)]
                if r.random() < 0.5:
                    return ["%sshout(%s)" % (pad, c)]
                name = self.fresh("v")
                self.declare(name, f.rty, NUM if f.rty == ARR else None, 0)
                return ["%smake %s get %s" % (pad, name, c)]
        if k < 0.82 + o.p_unused:
            self.stat("unused_decl")
            name = self.fresh("u")
            return ["%smake %s get %s" % (pad, name, self.expr(r.choice([NUM, STR, BOOL])))]
        if k < 0.82 + o.p_unused + o.p_dead:
            if self.fn_stack and r.random() < 0.5:
                self.stat("dead_after_return")
                f = self.fn_stack[-1][0]
                return ["%sif to say (%s) start" % (pad, self.expr(BOOL)),
                        "%s  return %s" % (pad, self.ret_expr(f) if f.rty != NULL else "null"),
                        "%s  shout(%s)" % (pad, self.expr(NUM)), "%send" % pad]
            if self.loop_depth > 0:
                self.stat("dead_after_loopctl")
                return ["%sif to say (%s) start" % (pad, self.expr(BOOL)),
                        "%s  %s" % (pad, r.choice(["comot", "next"])),
                        "%s  shout(%s)" % (pad, self.expr(NUM)), "%send" % pad]
        return ["%sshout(%s)" % (pad, self.expr(r.choice([NUM, STR, BOOL])))]

    def fn_depth_floor(self):
        # scope depth at which the innermost function's own scopes start
        # (params scope index): everything deeper belongs to the function itself
        n = 0
        for sc in self.scopes:
            n += 1
        # fn_def pushed [params, body]; nested blocks follow
        return len(self.scopes) - 1

    def hide(self, name):
        # the loop counter must not be reassigned by the body
        hidden = []
        for sc in self.scopes:
            for v in sc:
                if v.name == name and v.ty == NUM:
                    v.ty = "counter"
                    hidden.append(v)
        return hidden

    def unhide(self, hidden):
        for v in hidden:
            v.ty = NUM

    # ------------------------------------------------------------ entry point
    def program(self):
        n = self.r.randint(3, self.o.max_stmts)
        lines = self.block(n, 0, new_scope=False)
        # make sure something is printed at the end (observability of final state)
        for v in self.visible()[:4]:
            if v.ty in (NUM, STR, BOOL, ARR, NULL):
                lines.append("shout(%s)" % v.name)
        return "\n".join(lines) + "\n"


def generate(rng, opts=None):
    g = Gen(rng, opts)
    src = g.program()
    return src, g.stats
