"""Runs batches of NaijaScript programs through the implementation (`nsverif lang`, with
native-crash attribution) and through the extracted model (`nsmodel lang`), and parses the
canonical records of both sides."""
import os
import struct

import common

SEP = "\x01CASE "
CFGS = ["nn", "pn", "nf", "pf"]


def eps_hex():
    """FLOAT_EQ_EPS as regenerated from the source (GenLang), as a bit pattern."""
    import re
    src = open(os.path.join(common.REPO, "src", "runtime.rs")).read()
    m = re.search(r"const\s+FLOAT_EQ_EPS\s*:\s*f64\s*=\s*([0-9eE.+\-_]+)\s*;", src)
    if not m:
        raise RuntimeError("FLOAT_EQ_EPS not found in runtime.rs")
    return "%016x" % struct.unpack(">Q", struct.pack(">d", float(m.group(1).replace("_", ""))))[0]


def write_cases(path, cases):
    with open(path, "w", encoding="utf-8") as f:
        for cid, src in cases:
            f.write("%s%s\n" % (SEP, cid))
            f.write(src)
            if not src.endswith("\n"):
                f.write("\n")


def parse_records(lines):
    """-> dict id -> record {accepted, parse, diags, ast, plan, runs{cfg: (ending, values)}, complete}"""
    recs = {}
    cur = None
    for l in lines:
        if l.startswith("case "):
            cur = {"id": l[5:], "accepted": None, "parse": None, "diags": [], "ast": None, "plan": None,
                   "runs": {}, "begun": [], "complete": False}
            recs[cur["id"]] = cur
        elif cur is None:
            continue
        elif l.startswith("parse "):
            cur["parse"] = int(l[6:])
        elif l.startswith("diag "):
            cur["diags"].append(l[5:])
        elif l.startswith("accepted "):
            cur["accepted"] = l[9:] == "1"
        elif l.startswith("ast"):
            cur["ast"] = l
        elif l.startswith("plan"):
            cur["plan"] = l
        elif l.startswith("begin "):
            cur["begun"].append(l[6:])
        elif l.startswith("run "):
            _, cfg, rest = l.split(" ", 2)
            ending, _, vals = rest.partition(" |")
            cur["runs"][cfg] = (ending.strip(), vals.strip())
        elif l.startswith("end "):
            cur["complete"] = True
        elif l.startswith("badast"):
            cur["badast"] = l
    return recs


def run_impl(env, name, cases, cfgs=None, release=False, timeout=None):
    """Runs the harness; a native crash (abort/segfault/stack overflow) is attributed to the case
    and configuration announced last, recorded as ending 'crash:<rc>', and the batch resumes
    after that case.  Returns dict id -> record."""
    cfgs = cfgs or CFGS
    if timeout is None:
        # a non-terminating program (possible under a seeded change) must not stall a quick check
        timeout = 150 if getattr(env, "tier", "quick") == "quick" else 600
    remaining = list(cases)
    all_recs = {}
    part = 0
    crashes = 0
    while remaining:
        inp = os.path.join(env.work, "%s.%d.in" % (name, part))
        outp = os.path.join(env.work, "%s.%d.impl" % (name, part))
        write_cases(inp, remaining)
        if os.path.exists(outp):
            os.remove(outp)
        rc, out = common.sh([common.harness_bin(release), "lang", inp, outp, ",".join(cfgs)], timeout=timeout)
        lines = open(outp, encoding="utf-8", errors="replace").read().splitlines() if os.path.exists(outp) else []
        recs = parse_records(lines)
        all_recs.update(recs)
        part += 1
        if rc == 0:
            break
        # find the first case that did not complete
        idx = None
        for i, (cid, _) in enumerate(remaining):
            r = recs.get(cid)
            if r is None or not r["complete"]:
                idx = i
                break
        if idx is None:
            break
        cid = remaining[idx][0]
        r = all_recs.setdefault(cid, {"id": cid, "accepted": None, "parse": None, "diags": [], "ast": None,
                                      "plan": None, "runs": {}, "begun": [], "complete": False})
        where = r["begun"][-1] if r["begun"] and r["begun"][-1] not in r["runs"] else "frontend"
        tag = "timeout" if rc == 124 else "crash:%s" % rc
        r["crash"] = (where, tag, out[-400:])
        if where != "frontend":
            r["runs"][where] = (tag, "")
        crashes += 1
        if where != "frontend":
            rest = cfgs[cfgs.index(where) + 1:] if where in cfgs else []
            if rest:
                sub = run_impl(env, "%s.c%d" % (name, crashes), [remaining[idx]], rest, release, timeout)
                for c2, r2 in sub.get(cid, {"runs": {}})["runs"].items():
                    r["runs"][c2] = r2
        remaining = remaining[idx + 1:]
        if crashes > 200:
            break
    return all_recs


def run_model(env, name, impl_recs, order):
    """Feeds the ast/plan lines printed by the implementation to the extracted model."""
    inp = os.path.join(env.work, name + ".model.in")
    outp = os.path.join(env.work, name + ".model")
    with open(inp, "w") as f:
        for cid in order:
            r = impl_recs.get(cid)
            if not r or not r.get("ast") or not r.get("plan"):
                continue
            f.write("case %s\n%s\n%s\nend %s\n" % (cid, r["ast"], r["plan"], cid))
    rc, out = common.sh([common.NSMODEL, "lang", eps_hex(), inp, outp], timeout=900)
    if rc != 0:
        raise RuntimeError("nsmodel lang failed: %s" % out[-500:])
    return parse_records(open(outp).read().splitlines())


def ending_class(e):
    """Canonical ending for comparison: ok | err:<kind> | panic | crash | fuel | unsupported | timeout"""
    if e.startswith("panic"):
        return "panic"
    if e.startswith("crash"):
        return "crash"
    return e


def panic_text(e):
    if e.startswith("panic:"):
        try:
            return bytes.fromhex(e[6:]).decode("utf-8", "replace")
        except ValueError:
            return e
    return e
