"""C01 — program results equal the documented semantics.

Streams (every random choice from env.rng):
  f64       theories/F64.v (extracted, `nsmodel c01f64`) against rustc's f64 (`nsverif f64`) on bit
            patterns: every hand-written operation the evaluator uses (frem, floor/ceil/round, `as
            isize`/`as usize`, fract()==0, |l-r|<=eps, Display) and the SpecFloat ones (+ - * / sqrt, <).
  pratt     theories/Pratt.v (extracted token-level parser, `nsmodel pratt`) against the real parser:
            tokens from the real lexer's dump (`nsverif frontend`), tree from the real AST dump
            (`nsverif lang`); ORACLE: the real AST equals the tree the generator printed with the
            documented precedence (or < and < comparison < add/minus < times/divide/mod < unary <
            postfix, left associative) and any redundant parentheses.
  template  theories/Template.v (`nsmodel template`) against parse_string_literal /
            parse_template_segments; ORACLE: the segments read as Template.literal_reading (the documented
            `{name}` interpolation with the `{{`/`}}` escapes of the test-suite, in literals that contain `{`).
  programs  generated programs, /repo/examples, the ```naijascript snippets of /repo/docs:
            ORACLE implementation (`nn`) == Spec.run_spec (`run s`); MODEL TIE langcheck.compare
            for nn and pn; documented outputs in snippet comments.
  accept    generated programs that SimpleTypes.simply_typed accepts must be accepted by the
            implementation.
"""
import os
import re
import struct
import subprocess
import time

import common
import langcheck
import langgen
import langrun

TRUSTED_EXTRA = [
    "C01: Spec.v (the formalisation of docs/*.md: lexical scoping by static links, arrays as values, no pruning) and SimpleTypes.v (the documented typing rules) are my reading of the documentation; where the docs are silent the choices are listed in DESIGN.md section 6.C01",
    "C01: F64.v is validated operation by operation against rustc's f64 (stream f64), not proved correct; decimal literal -> f64 is done by Rust's str::parse on both sides (the AST dump carries the parsed bit pattern)",
    "C01: the token-level Pratt model is tied to parser.rs by the generated binding-power table (translator/gen_pratt.py) and by the token/AST differential; statement-level parsing is not modelled (the AST dump is taken from the real parser)",
    "C01: Operators, built-ins and Display are shared by run_impl and run_spec (one table per type in the docs), so the oracle checks evaluation order, scoping, control flow, calls and mutation; the tables themselves are review + differential",
]
ASSUMPTIONS = [
    "programs are valid UTF-8 source text; host/process built-ins, read_line, to_number and non-ASCII case mapping are outside the model (counted as unsupported, never compared)",
    "runs that end in resource exhaustion (native stack budget, model fuel) are not compared",
]
SIDE_OBLIGATIONS = []
COQ_TIMEOUT = 2400
# the full parser model's correspondence (shared with C07/C10) runs inside the quick check; the thorough tier
# has a wall-clock budget of its own and leaves the parser stream's thorough run to C07/C10
import sys as _sys
EXTRA_STREAM_MODULES = ["pipeline"] if ("thorough" in _sys.argv or os.environ.get("VERIF_TIER") == "thorough") else ["parser", "pipeline"]
EXTRA_COQ_TARGETS = ["proofs/F64Proofs.vo", "proofs/PrattProofs.vo", "proofs/TemplateProofs.vo",
                     "theories/SimpleTypes.vo"]

NPROC = 4


# ----------------------------------------------------------------------------------------------
# helpers

def bits(x):
    return struct.unpack(">Q", struct.pack(">d", x))[0]


def unbits(b):
    return struct.unpack(">d", struct.pack(">Q", b))[0]


class Inconclusive(Exception):
    """a model or implementation run hit a timeout / was killed for resources: nothing was decided"""


RESOURCE_RC = (124, 137, -9, -15, 143)
MODEL_PAR = 8            # nsmodel processes at a time
MODEL_CHUNK = 50000      # cases per nsmodel call


def deadline_of(env):
    return getattr(env, "c01_deadline", None)


def out_of_time(env):
    d = deadline_of(env)
    return d is not None and time.time() > d


def merge_extra(res, name, new):
    """adds the statistics of one batch to extra[name] (numbers add up, dicts merge recursively)"""
    def merge(a, b):
        for k, v in b.items():
            if isinstance(v, bool) or isinstance(v, str):
                a[k] = v
            elif isinstance(v, (int, float)):
                a[k] = a.get(k, 0) + v
            elif isinstance(v, dict):
                a[k] = merge(a.get(k, {}), v)
            else:
                a.setdefault(k, v)
        return a
    res["extra"][name] = merge(res["extra"].get(name, {}), new)


def batched(env, res, name, fn, planned, batch):
    """thorough tier: generate and check `planned` cases in batches until the stream's time budget is used"""
    done, first = 0, True
    while done < planned:
        if not first and out_of_time(env):
            break
        k = min(batch, planned - done)
        fn(env, res, None, k, first)
        done += k
        first = False
    merge_extra(res, name, {"generated_planned": planned, "generated_done": done})


def note_inconclusive(res, stream, what, n=1):
    inc = res["extra"].setdefault("inconclusive", {})
    e = inc.setdefault(stream, {"cases": 0, "reasons": []})
    e["cases"] += n
    if len(e["reasons"]) < 10 and what not in e["reasons"]:
        e["reasons"].append(what)


def run_parallel(cmds, timeout):
    """runs the command lines concurrently; returns list of (rc, output)"""
    procs = [subprocess.Popen(c, stdout=subprocess.PIPE, stderr=subprocess.STDOUT) for c in cmds]
    res = []
    t_end = time.time() + timeout
    for p in procs:
        try:
            out, _ = p.communicate(timeout=max(1, t_end - time.time()))
            res.append((p.returncode, out.decode("utf-8", "replace")))
        except subprocess.TimeoutExpired:
            p.kill()
            try:
                p.communicate(timeout=10)
            except Exception:
                pass
            res.append((124, "[timeout]"))
    return res


def model_lines(env, name, mode, lines, timeout=600, nproc=MODEL_PAR, chunk=MODEL_CHUNK):
    """`nsmodel <mode>` over `lines` (one result line per input line) in chunks of at most `chunk`
    cases, `nproc` processes at a time.  A chunk that times out (or is killed) is retried once
    alone; if that fails too its cases are inconclusive: their result is None.  Any other
    failure of the model executable is an error (RuntimeError)."""
    n = len(lines)
    res = [None] * n
    if n == 0:
        return res
    size = min(chunk, max(200, (n + nproc - 1) // nproc))
    spans = [(a, min(n, a + size)) for a in range(0, n, size)]

    def job(k, a, b, tag):
        inp = os.path.join(env.work, "%s.%s%d.min" % (name, tag, k))
        outp = os.path.join(env.work, "%s.%s%d.mout" % (name, tag, k))
        open(inp, "w").write("\n".join(lines[a:b]) + "\n")
        if os.path.exists(outp):
            os.remove(outp)
        return [common.NSMODEL, mode, inp, outp], outp

    def collect(a, b, rc, out, outp):
        if rc in RESOURCE_RC:
            return False
        if rc != 0 or not os.path.exists(outp):
            raise RuntimeError("nsmodel %s failed (rc=%s): %s" % (mode, rc, out[-400:]))
        got = open(outp).read().splitlines()
        if len(got) != b - a:
            raise RuntimeError("nsmodel %s: %d result lines for %d cases" % (mode, len(got), b - a))
        res[a:b] = got
        return True

    retry = []
    for w in range(0, len(spans), nproc):
        wave = spans[w:w + nproc]
        jobs = [job(w + k, a, b, "c") for k, (a, b) in enumerate(wave)]
        rs = run_parallel([jb[0] for jb in jobs], timeout)
        for (a, b), (cmd, outp), (rc, out) in zip(wave, jobs, rs):
            if not collect(a, b, rc, out, outp):
                retry.append((a, b))
    for k, (a, b) in enumerate(retry):
        if out_of_time(env):
            break
        cmd, outp = job(k, a, b, "r")
        (rc, out), = run_parallel([cmd], timeout)
        collect(a, b, rc, out, outp)
    return res


def impl_lines(env, name, mode, lines, timeout=900):
    inp = os.path.join(env.work, name + ".iin")
    outp = os.path.join(env.work, name + ".iout")
    open(inp, "w").write("\n".join(lines) + "\n")
    if os.path.exists(outp):
        os.remove(outp)
    rc, out = common.sh([common.harness_bin(), mode, inp, outp], timeout=timeout)
    if rc in RESOURCE_RC:
        raise Inconclusive("nsverif %s: timeout/killed (rc=%s) on %d cases" % (mode, rc, len(lines)))
    if rc != 0 or not os.path.exists(outp):
        raise RuntimeError("nsverif %s failed (rc=%s): %s" % (mode, rc, out[-400:]))
    return open(outp).read().splitlines()


# ----------------------------------------------------------------------------------------------
# stream f64

DEC_LITERALS = ["0", "1", "2", "3", "7", "10", "12", "100", "255", "1000000", "0.5", "2.25", "1.5", "10.75", "0.1",
                "0.2", "0.3", "3.14159", "9007199254740993", "0.000001", "123456789.125", "4294967296",
                "0.30000000000000004", "99.99", "2.5", "3.5", "2.7", "9.0", "1e21", "0.1e-6", "4.35", "1.005",
                "5e-324", "1.7976931348623157e308", "2.2250738585072014e-308", "123456789012345680000",
                "0.000001", "1e-7", "1e15", "1e16", "1e17", "1e22", "1e23", "8.41e21", "2.0", "25", "18", "48"]


def f64_patterns(env):
    """-> (cheap, moderate) lists of bit patterns: `moderate` have a binary exponent in [-140, 140]
    (Display is cheap for them in the extracted model), `cheap` is everything."""
    r = env.rng
    quick = env.tier == "quick"
    pats = set()
    # every exponent boundary
    step = 1 if not quick else 1
    for e in range(0, 2048, step):
        for m in (0, 1, (1 << 52) - 1):
            pats.add((e << 52) | m)
            pats.add((1 << 63) | (e << 52) | m)
        if not quick:
            for m in (2, (1 << 52) - 2, 1 << 51, (1 << 51) - 1, (1 << 51) + 1):
                pats.add((e << 52) | m)
    # subnormals
    for k in range(52):
        pats.add(1 << k)
        pats.add((1 << k) | 1)
        pats.add((1 << 63) | (1 << k))
    # specials
    for b in (0, 1 << 63, 0x7ff0000000000000, 0xfff0000000000000, 0x7ff8000000000000, 0x7ff0000000000001,
              0xfff8000000000000, 0x7fffffffffffffff):
        pats.add(b)
    # integers around 2^k (k up to 70), around 2^53, 2^63, 2^64, and their float neighbours
    for k in range(0, 71):
        for d in (-3, -2, -1, 0, 1, 2, 3):
            v = 2 ** k + d
            if v >= 0:
                b = bits(float(v))
                for dd in (-1, 0, 1):
                    if 0 <= b + dd < (0x7ff << 52):
                        pats.add(b + dd)
                        pats.add((1 << 63) | (b + dd))
        pats.add(bits(2.0 ** -k))
        pats.add(bits(2.0 ** -k) + 1)
        pats.add(bits(2.0 ** -k) - 1)
    # halves and quarters (ties of round / of Display)
    for k in list(range(0, 40)) + [r.randrange(1 << 30) for _ in range(200)] + \
            [2 ** 51 + r.randrange(1000), 2 ** 52 - 1 - r.randrange(1000), 2 ** 49 + r.randrange(1000), 2 ** 50 + r.randrange(100)]:
        for fr in (0.5, 0.25, 0.75):
            x = k + fr
            pats.add(bits(x))
            pats.add(bits(-x))
    # decimal literals
    for s in DEC_LITERALS:
        pats.add(bits(float(s)))
        pats.add(bits(-float(s)))
    core = set(pats)
    for _ in range(400 if quick else 20000):
        s = "%d.%s" % (r.randrange(100000), "".join(r.choice("0123456789") for _ in range(r.randint(1, 17))))
        pats.add(bits(float(s)))
    for _ in range(200 if quick else 5000):
        pats.add(bits(float("%d" % r.randrange(10 ** r.randint(1, 22)))))
    # random patterns, random moderate patterns
    for _ in range(14000 if quick else 650000):
        pats.add(r.getrandbits(64))
    for _ in range(6000 if quick else 330000):
        e = 1023 + r.randint(-140, 140)
        pats.add((r.getrandbits(1) << 63) | (e << 52) | r.getrandbits(52))
    allp = sorted(pats)
    moderate = [b for b in allp if 1023 - 140 <= ((b >> 52) & 0x7ff) <= 1023 + 140]
    return allp, moderate, core


def stream_f64(env, res):
    r = env.rng
    quick = env.tier == "quick"
    allp, moderate, core = f64_patterns(env)
    eps = langrun.eps_hex()
    lines = []
    for b in allp:
        h = "%016x" % b
        for op in ("floor", "ceil", "round", "isint", "isize", "usize", "bits"):
            lines.append("%s %s" % (op, h))
    for b in allp[::3]:
        h = "%016x" % b
        for op in ("abs", "neg", "isfinite", "sqrt"):
            lines.append("%s %s" % (op, h))
    # Display: all moderate patterns in thorough, a sample in quick; the powers of two and ties always
    fm = set(moderate if not quick else r.sample(moderate, min(len(moderate), 5000)))
    for b in moderate:
        if (b & ((1 << 52) - 1)) in (0, 1, (1 << 52) - 1):
            fm.add(b)
    ext = [b for b in allp if b not in fm]
    fm.update(r.sample(ext, min(len(ext), 250 if quick else 6000)))
    for b in sorted(fm):
        lines.append("fmt %016x" % b)
    # binary operations
    pool = moderate + r.sample(allp, min(len(allp), 4000))
    nbin = 6000 if quick else 300000
    for _ in range(nbin):
        a, b = r.choice(pool), r.choice(pool)
        k = r.random()
        if k < 0.3:
            # near pair: the same binade, a few ulps apart
            b = max(0, min((0x7ff << 52) - 1, (a & ~(1 << 63)) + r.randint(-4, 4))) | (a & (1 << 63))
        op = r.choice(["add", "sub", "mul", "div", "rem", "rem", "lt", "le", "eq"])
        lines.append("%s %016x %016x" % (op, a, b))
    # rem with far-apart exponents (the exact-integer path of frem)
    for _ in range(300 if quick else 5000):
        a, b = r.choice(allp), r.choice(allp)
        lines.append("rem %016x %016x" % (a, b))
    # |l - r| <= FLOAT_EQ_EPS around the threshold
    e0 = unbits(int(eps, 16))
    for _ in range(1500 if quick else 60000):
        base = r.choice([0.0, 1.0, -1.0, 0.5, 3.0, 100.0, 1e6, 123456.789, unbits(r.choice(moderate))])
        d = e0 * r.choice([0.0, 0.5, 0.999, 0.9999999, 1.0, 1.0000001, 1.001, 2.0, -1.0, -0.999, -1.001])
        other = base + d
        if r.random() < 0.3:
            other = unbits(max(0, bits(abs(other)) + r.randint(-3, 3))) * (1 if other >= 0 else -1)
        lines.append("eqeps %s %016x %016x" % (eps, bits(base), bits(other)))
    # integer -> f64
    for k in range(0, 70):
        for d in (-1, 0, 1):
            v = 2 ** k + d
            lines.append("ofz %x" % v)
            lines.append("ofz -%x" % v)
    for _ in range(300 if quick else 20000):
        v = r.randrange(2 ** r.randint(1, 80))
        lines.append("ofz %s%x" % (r.choice(["", "-"]), v))
    # order: the lines about the systematic patterns (boundaries, subnormals, specials, integers, halves,
    # decimal literals) first, the random bulk after; both shuffled (expensive operations cluster
    # otherwise), so that whatever prefix the time budget allows is a fair sample
    import random as _random
    sh = _random.Random(env.seed * 7919 + 1)
    corehex = set("%016x" % b for b in core)
    first = [l for l in lines if all(t in corehex for t in l.split()[1:] if len(t) == 16) or l.startswith(("ofz", "eqeps"))]
    fs = set(first)
    rest = [l for l in lines if l not in fs]
    sh.shuffle(first)
    sh.shuffle(rest)
    lines = first + rest
    planned = len(lines)
    batch = planned if quick else 200000
    hist, done_lines, bad, inconclusive = {}, [], 0, 0
    sample = None
    for s0 in range(0, planned, batch):
        if s0 > 0 and out_of_time(env):
            break
        part = lines[s0:s0 + batch]
        try:
            li = impl_lines(env, "f64", "f64", part)
        except Inconclusive as ex:
            note_inconclusive(res, "f64", str(ex), len(part))
            inconclusive += len(part)
            continue
        lm = model_lines(env, "f64", "c01f64", part, timeout=600 if quick else 420)
        if len(li) != len(part):
            res["disagreements"].append({"stream": "f64", "what": "line count", "impl": len(li), "cases": len(part)})
            continue
        for c, a, b in zip(part, li, lm):
            if b is None:
                inconclusive += 1
                continue
            op = c.split()[0]
            hist[op] = hist.get(op, 0) + 1
            if a != b:
                bad += 1
                if bad <= 20:
                    res["disagreements"].append({"stream": "f64", "case": c, "impl": a, "model": b})
        done_lines.append(len(part))
        sample = sample or {"stream": "f64", "case": part[len(part) // 2], "impl": li[len(part) // 2]}
    done = sum(hist.values())
    if inconclusive:
        note_inconclusive(res, "f64", "model chunk timed out twice / implementation batch timed out", 0)
        res["extra"]["inconclusive"]["f64"]["cases"] = inconclusive
    res["evaluations"] += done
    res["distinct_nontrivial"] += done
    donepats = set(t for l in lines[:sum(done_lines)] for t in l.split()[1:] if len(t) == 16)
    res["extra"]["f64"] = {"planned_cases": planned, "cases": done, "inconclusive_cases": inconclusive,
                           "bit_patterns_planned": len(allp), "bit_patterns_done": len(donepats),
                           "systematic_patterns": len(core), "moderate_exponent_patterns": len(moderate),
                           "fmt_cases": hist.get("fmt", 0), "per_op": hist, "differences": bad, "eps_bits": eps}
    if sample:
        res["samples"].append(sample)


# ----------------------------------------------------------------------------------------------
# reading the harness dumps

def hx(b):
    return b.hex() if b else "-"


def unhx(s):
    return b"" if s == "-" else bytes.fromhex(s)


def frontend_tokens(env, name, sources):
    """real lexer token dump: -> list (per source) of [(kind, start, end, owned, payload bytes)] or None"""
    lines = [hx(s.encode("utf-8")) for s in sources]
    inp = os.path.join(env.work, name + ".fin")
    outp = os.path.join(env.work, name + ".fout")
    open(inp, "w").write("\n".join(lines) + "\n")
    if os.path.exists(outp):
        os.remove(outp)
    rc, out = common.sh([common.harness_bin(), "frontend", inp, outp], timeout=900)
    if rc in RESOURCE_RC:
        raise Inconclusive("nsverif frontend: timeout/killed (rc=%s) on %d sources" % (rc, len(sources)))
    if rc != 0:
        raise RuntimeError("nsverif frontend failed: %s" % out[-400:])
    res = [None] * len(sources)
    cur = None
    for l in open(outp, encoding="utf-8", errors="replace").read().splitlines():
        if l.startswith("CASE "):
            cur = int(l.split()[1])
            res[cur] = {"toks": [], "lexdiags": 0, "complete": False}
        elif cur is None:
            continue
        elif l.startswith("T "):
            t = l.split()
            res[cur]["toks"].append((t[1], int(t[2]), int(t[3]), t[4] == "1", unhx(t[5])))
        elif l.startswith("D "):
            res[cur]["lexdiags"] += 1
        elif l.startswith("END "):
            res[cur]["complete"] = True
    return res


class AstReader:
    """parser for the prefix token stream of harness/src/lang.rs `Dump` (names only)"""

    def __init__(self, line):
        self.t = line.split()[1:]
        self.p = 0

    def nx(self):
        v = self.t[self.p]
        self.p += 1
        return v

    def block(self):
        return [self.stmt() for _ in range(int(self.nx()))]

    def stmt(self):
        k = self.nx()
        if k == "F":
            self.nx()
            name = unhx(self.nx())
            np_ = self.nx()
            ps = [unhx(self.nx()) for _ in range(int(np_))] if np_ != "!" else None
            body = self.block()
            self.nx(); self.nx(); self.nx()
            return ("fun", name, ps, body)
        if k in ("K", "T"):
            self.nx()
            name = unhx(self.nx())
            self.nx()
            return ("make" if k == "K" else "set", name, self.expr())
        if k == "J":
            self.nx()
            return ("setidx", self.expr(), self.expr())
        if k == "IF":
            self.nx()
            c = self.expr()
            t = self.block()
            f = self.block() if self.nx() == "1" else None
            return ("if", c, t, f)
        if k == "W":
            self.nx()
            return ("loop", self.expr(), self.block())
        if k == "BL":
            self.nx()
            return ("block", self.block())
        if k == "R":
            self.nx()
            return ("ret", self.expr() if self.nx() == "1" else None)
        if k in ("BR", "NX"):
            self.nx()
            return ("break",) if k == "BR" else ("next",)
        if k == "EX":
            self.nx()
            return ("expr", self.expr())
        raise ValueError("stmt " + k)

    def expr(self):
        k = self.nx()
        if k == "N":
            return ("lit", "N:" + self.nx())
        if k == "S":
            return ("lit", "S:" + self.nx())
        if k == "I":
            segs = []
            for _ in range(int(self.nx())):
                if self.nx() == "L":
                    segs.append(("L", self.nx()))
                else:
                    segs.append(("V", self.nx()))
                    self.nx()
            return ("interp", segs)
        if k == "B":
            return ("lit", "B:" + self.nx())
        if k == "Z":
            return ("lit", "Z")
        if k == "V":
            n = self.nx()
            self.nx()
            return ("var", n)
        if k == "O":
            op = self.nx()
            return ("bin", op, self.expr(), self.expr())
        if k == "U":
            op = self.nx()
            return ("un", op, self.expr())
        if k == "A":
            return ("arr", [self.expr() for _ in range(int(self.nx()))])
        if k == "X":
            return ("idx", self.expr(), self.expr())
        if k == "M":
            o = self.expr()
            return ("mem", o, self.nx())
        if k == "C":
            c = self.expr()
            args = [self.expr() for _ in range(int(self.nx()))]
            self.nx()
            return ("call", c, args)
        raise ValueError("expr " + k)


def tree_str(e):
    k = e[0]
    if k == "lit":
        return "(lit %s)" % e[1]
    if k == "var":
        return "(var %s)" % e[1]
    if k == "un":
        return "(un %s %s)" % (e[1], tree_str(e[2]))
    if k == "bin":
        return "(bin %s %s %s)" % (e[1], tree_str(e[2]), tree_str(e[3]))
    if k == "arr":
        return "(arr%s)" % "".join(" " + tree_str(x) for x in e[1])
    if k == "idx":
        return "(idx %s %s)" % (tree_str(e[1]), tree_str(e[2]))
    if k == "mem":
        return "(mem %s %s)" % (tree_str(e[1]), e[2])
    if k == "call":
        return "(call %s%s)" % (tree_str(e[1]), "".join(" " + tree_str(x) for x in e[2]))
    if k == "interp":
        return "(interp%s)" % "".join(" %s%s" % s for s in e[1])
    raise ValueError(k)


# ----------------------------------------------------------------------------------------------
# stream pratt

# the documented precedence, loosest first (independent of the numbers in parser.rs)
DOC_LEVEL = {"or": 1, "and": 2, "eq": 3, "gt": 3, "lt": 3, "add": 4, "minus": 4, "times": 5, "divide": 5, "mod": 5}
OP_TEXT = {"or": "or", "and": "and", "eq": "na", "gt": "pass", "lt": "small pass", "add": "add", "minus": "minus",
           "times": "times", "divide": "divide", "mod": "mod"}
UN_TEXT = {"not": "not", "neg": "minus"}
L_UNARY, L_POSTFIX, L_ATOM = 6, 7, 8
IDENTS = ["a", "b", "c", "x1", "foo", "bar_2", "_t", "n", "value", "idx"]
FIELDS = ["len", "abs", "push", "slice", "foo", "trim", "floor", "join"]


class ExprGen:
    def __init__(self, rng, postfix=True, p_paren=0.15):
        self.r = rng
        self.postfix = postfix
        self.p_paren = p_paren
        self.ops = set()

    def leaf(self):
        r = self.r
        k = r.random()
        if k < 0.4:
            n = r.choice(IDENTS)
            return ("var", hx(n.encode()))
        if k < 0.7:
            s = r.choice(["0", "1", "2", "7", "10", "2.5", "0.1", "3.14159", "100", "9007199254740993", "0.000001"])
            return ("lit", "N:%016x" % bits(float(s)), s)
        if k < 0.85:
            raw, val = r.choice([('"s"', b"s"), ('"two words"', b"two words"), ("'q'", b"q"), ('"a\\tb"', b"a\tb"),
                                 ('""', b""), ('"\\"x\\""', b'"x"'), ('"é"', "é".encode())])
            return ("lit", "S:" + hx(val), raw)
        if k < 0.95:
            b = r.choice([True, False])
            return ("lit", "B:%d" % b, "true" if b else "false")
        return ("lit", "Z", "null")

    def gen(self, depth):
        r = self.r
        if depth <= 0 or r.random() < 0.18:
            return self.leaf()
        k = r.random()
        if k < 0.55:
            op = r.choice(list(DOC_LEVEL))
            self.ops.add(op)
            return ("bin", op, self.gen(depth - 1), self.gen(depth - 1))
        if k < 0.70:
            u = r.choice(["not", "neg"])
            self.ops.add(u)
            return ("un", u, self.gen(depth - 1))
        if not self.postfix:
            return self.leaf()
        if k < 0.78:
            self.ops.add("idx")
            return ("idx", self.gen(depth - 1), self.gen(depth - 1))
        if k < 0.86:
            self.ops.add("call")
            return ("call", ("mem", self.gen(depth - 1), hx(r.choice(FIELDS).encode())),
                    [self.gen(depth - 2) for _ in range(r.randint(0, 2))])
        if k < 0.91:
            self.ops.add("call")
            return ("call", ("var", hx(r.choice(["f", "g", "shout", "typeof"]).encode())),
                    [self.gen(depth - 2) for _ in range(r.randint(0, 3))])
        if k < 0.95:
            self.ops.add("arr")
            return ("arr", [self.gen(depth - 2) for _ in range(r.randint(0, 3))])
        if k < 0.97:
            self.ops.add("mem")
            return ("mem", self.gen(depth - 1), hx(r.choice(FIELDS).encode()))
        self.ops.add("call")
        return ("call", self.gen(depth - 1), [self.gen(depth - 2) for _ in range(r.randint(0, 2))])

    @staticmethod
    def level(e):
        k = e[0]
        if k == "bin":
            return DOC_LEVEL[e[1]]
        if k == "un":
            return L_UNARY
        if k in ("idx", "mem", "call"):
            return L_POSTFIX
        return L_ATOM

    def text(self, e, need):
        """source text of e in a context that needs level >= need; extra parentheses at random"""
        r = self.r
        k = e[0]
        if k == "lit":
            s = e[2]
        elif k == "var":
            s = unhx(e[1]).decode()
        elif k == "bin":
            lv = DOC_LEVEL[e[1]]
            s = "%s %s %s" % (self.text(e[2], lv), OP_TEXT[e[1]], self.text(e[3], lv + 1))
        elif k == "un":
            s = "%s %s" % (UN_TEXT[e[1]], self.text(e[2], L_UNARY))
        elif k == "idx":
            s = "%s[%s]" % (self.obj(e[1]), self.text(e[2], 0))
        elif k == "mem":
            s = "%s.%s" % (self.obj(e[1], dot=True), unhx(e[2]).decode())
        elif k == "call":
            s = "%s(%s)" % (self.obj(e[1]), ", ".join(self.text(a, 0) for a in e[2]))
        elif k == "arr":
            s = "[%s]" % ", ".join(self.text(a, 0) for a in e[1])
        else:
            raise ValueError(k)
        if self.level(e) < need:
            s = "(%s)" % s
        while r.random() < self.p_paren:
            s = "(%s)" % s if r.random() < 0.8 else "( %s )" % s
        return s

    def obj(self, o, dot=False):
        s = self.text(o, L_POSTFIX)
        # `1.abs` would lex as a malformed number: an integer literal before `.` gets parentheses
        if dot and o[0] == "lit" and o[1].startswith("N:") and re.fullmatch(r"\d+", s):
            s = "(%s)" % s
        return s


def strip3(e):
    """generator trees carry the source text of literals as a third component"""
    k = e[0]
    if k == "lit":
        return ("lit", e[1])
    if k in ("var",):
        return e
    if k == "un":
        return ("un", e[1], strip3(e[2]))
    if k == "bin":
        return ("bin", e[1], strip3(e[2]), strip3(e[3]))
    if k == "arr":
        return ("arr", [strip3(x) for x in e[1]])
    if k == "idx":
        return ("idx", strip3(e[1]), strip3(e[2]))
    if k == "mem":
        return ("mem", strip3(e[1]), e[2])
    if k == "call":
        return ("call", strip3(e[1]), [strip3(x) for x in e[2]])
    raise ValueError(k)


def model_token(tok):
    kind, _, _, _, payload = tok
    if kind == "Identifier":
        return "I:" + hx(payload)
    if kind == "Number":
        return "L:N:%016x" % bits(float(payload.decode()))
    if kind == "String":
        return "L:S:" + hx(payload)
    if kind == "True":
        return "L:B:1"
    if kind == "False":
        return "L:B:0"
    if kind == "Null":
        return "L:Z"
    return "K:" + kind


def stream_pratt(env, res, only=None, n_override=None, fixed=True):
    if only is None and n_override is None and env.tier != "quick":
        return batched(env, res, "pratt", stream_pratt, 60000, 10000)
    r = env.rng
    quick = env.tier == "quick"
    n = 1500 if n_override is None else n_override
    cases = []
    if only is not None:
        n = 0
        for j, (src, want) in enumerate(only):
            cases.append({"id": "r%d" % j, "src": src, "want": want, "bare": not src.startswith("make v get "), "ops": {"replay"}})
    for i in range(n):
        g = ExprGen(r, postfix=(i % 4 != 0), p_paren=r.choice([0.0, 0.1, 0.25]))
        e = g.gen(r.randint(1, 5))
        txt = g.text(e, 0)
        bare = e[0] != "lit" and re.match(r"[A-Za-z_]", txt) and not re.match(r"(not|minus|true|false|null)\b", txt) \
            and r.random() < 0.3
        src = txt if bare else "make v get " + txt
        cases.append({"id": "p%d" % i, "src": src + "\n", "want": tree_str(strip3(e)), "bare": bool(bare), "ops": g.ops})
    # fixed corpus: the documented examples of precedence-sensitive text
    for j, (src, want) in enumerate(PRATT_CORPUS if (only is None and fixed) else []):
        cases.append({"id": "c%d" % j, "src": src + "\n", "want": want, "bare": False, "ops": {"corpus", "x", "y"}})
    toks = frontend_tokens(env, "pratt", [c["src"] for c in cases])
    recs = langrun.run_impl(env, "pratt", [(c["id"], c["src"]) for c in cases], cfgs=[])
    mlines = []
    for c, tk in zip(cases, toks):
        c["toks"] = None
        if tk is None or not tk["complete"]:
            continue
        ts = tk["toks"] if c["bare"] else tk["toks"][3:]
        c["toks"] = [model_token(t) for t in ts]
        mlines.append("case %s" % c["id"])
        mlines.append("toks " + " ".join(c["toks"]))
    mout = {}
    if mlines:
        inp = os.path.join(env.work, "pratt.min")
        outp = os.path.join(env.work, "pratt.mout")
        open(inp, "w").write("\n".join(mlines) + "\n")
        rc, out = common.sh([common.NSMODEL, "pratt", inp, outp], timeout=900)
        if rc in RESOURCE_RC:
            raise Inconclusive("nsmodel pratt: timeout/killed (rc=%s) on %d cases" % (rc, len(cases)))
        if rc != 0:
            raise RuntimeError("nsmodel pratt failed: %s" % out[-400:])
        cur = None
        for l in open(outp).read().splitlines():
            if l.startswith("case "):
                cur = l[5:]
                mout[cur] = {}
            elif l.startswith("tree "):
                mout[cur]["tree"] = l[5:]
            elif l in ("err", "oof"):
                mout[cur]["tree"] = l
    nontrivial = set()
    for c in cases:
        rec = recs.get(c["id"])
        res["evaluations"] += 1
        if rec is None or rec.get("parse") is None:
            res["disagreements"].append({"stream": "pratt", "case": c["src"], "what": "no implementation record"})
            continue
        got = None
        if rec["parse"] == 0 and rec.get("ast"):
            st = AstReader(rec["ast"]).block()
            if len(st) == 1 and st[0][0] in ("make", "expr"):
                got = tree_str(st[0][-1])
            else:
                got = "stmts:%d" % len(st)
        else:
            got = "parse-error"
        if got != c["want"]:
            res["failures"].append({"key": "precedence:" + common.chash(c["src"]), "stream": "pratt", "case": c["src"],
                                    "observed": got, "expected": c["want"]})
        m = mout.get(c["id"], {}).get("tree")
        if m is None or m != got:
            if not (m == "err" and got == "parse-error"):
                res["disagreements"].append({"stream": "pratt", "case": c["src"], "tokens": c["toks"], "impl": got, "model": m})
        if len(c["ops"]) >= 3:
            nontrivial.add(common.chash(c["want"]))
    res["distinct_nontrivial"] += len(nontrivial)
    merge_extra(res, "pratt", {"cases": len(cases), "distinct_trees_with_3_or_more_operator_kinds": len(nontrivial),
                               "bare_identifier_statements": sum(1 for c in cases if c["bare"])})
    if cases:
        res["samples"].append({"stream": "pratt", "case": cases[0]["src"], "tree": cases[0]["want"]})


def _v(n):
    return "(var %s)" % hx(n.encode())


PRATT_CORPUS = [
    ("make v get a or b and c", "(bin or %s (bin and %s %s))" % (_v("a"), _v("b"), _v("c"))),
    ("make v get a and b or c", "(bin or (bin and %s %s) %s)" % (_v("a"), _v("b"), _v("c"))),
    ("make v get a add b times c", "(bin add %s (bin times %s %s))" % (_v("a"), _v("b"), _v("c"))),
    ("make v get a minus b minus c", "(bin minus (bin minus %s %s) %s)" % (_v("a"), _v("b"), _v("c"))),
    ("make v get a divide b divide c", "(bin divide (bin divide %s %s) %s)" % (_v("a"), _v("b"), _v("c"))),
    ("make v get a add b na c times a", "(bin eq (bin add %s %s) (bin times %s %s))" % (_v("a"), _v("b"), _v("c"), _v("a"))),
    ("make v get not a and b", "(bin and (un not %s) %s)" % (_v("a"), _v("b"))),
    ("make v get minus a add b", "(bin add (un neg %s) %s)" % (_v("a"), _v("b"))),
    ("make v get minus a.abs()", "(un neg (call (mem %s %s)))" % (_v("a"), hx(b"abs"))),
    ("make v get (minus a).abs()", "(call (mem (un neg %s) %s))" % (_v("a"), hx(b"abs"))),
    ("make v get a small pass b or a pass b", "(bin or (bin lt %s %s) (bin gt %s %s))" % (_v("a"), _v("b"), _v("a"), _v("b"))),
    ("make v get a mod b na c", "(bin eq (bin mod %s %s) %s)" % (_v("a"), _v("b"), _v("c"))),
    ("make v get a[b add c][a]", "(idx (idx %s (bin add %s %s)) %s)" % (_v("a"), _v("b"), _v("c"), _v("a"))),
    ("make v get a times (b add c)", "(bin times %s (bin add %s %s))" % (_v("a"), _v("b"), _v("c"))),
    ("make v get a minus (b minus c)", "(bin minus %s (bin minus %s %s))" % (_v("a"), _v("b"), _v("c"))),
]


# ----------------------------------------------------------------------------------------------
# stream template

TPL_PIECES = ["a", "b c", " ", "é", "{x}", "{ y }", "{x", "}", "{", "{{", "}}", "{}", "{1a}", "{a b}", "{_u1}",
              "{{x}}", "{\tx }", "{name}", "$", "{x}{y}", "}}}", "{{{", "{ }", "{x }", "{y", "x}", ":", "{xé}", "{x{y}}"]
TPL_ESCAPES = ["\\t", "\\n", "\\\\"]
TPL_CORPUS = ['a\\t{x}', '}}', '{{}}', 'a}}b', '{x}a}}b', '{{x', 'Use {{x}} for literal braces', '{', '{}', '{a{b}c}',
              'Hello { x }', 'Price: ${x}', '{x}{y}', '\\\\{x}', '{x}\\n', 'q\\"{y}\\"']


def items_of_parts(e):
    """flat reading of the implementation's StringParts: consecutive literal bytes merged"""
    out = []
    run = ""
    segs = [("L", e[1][2:])] if e[0] == "lit" else e[1]
    for k, h in segs:
        if k == "L":
            run += "" if h == "-" else h
        else:
            if run:
                out.append("L" + run)
                run = ""
            out.append("V" + h)
    if run:
        out.append("L" + run)
    return " ".join(out)


def template_key(owned, content):
    if owned and b"{" in content:
        return "escaped-string-not-interpolated"
    return "template-reading:" + common.chash(content.hex())


def stream_template(env, res, only=None, n_override=None, fixed=True):
    if only is None and n_override is None and env.tier != "quick":
        return batched(env, res, "template", stream_template, 40000, 8000)
    r = env.rng
    quick = env.tier == "quick"
    n = 1200 if n_override is None else n_override
    lits = []
    if only is not None:
        n = 0
    for raw in (TPL_CORPUS if (only is None and fixed) else []):
        lits.append(('"', raw))
    for i in range(n):
        q = '"' if r.random() < 0.8 else "'"
        k = r.randint(1, 6)
        parts = []
        for _ in range(k):
            x = r.random()
            if x < 0.75:
                parts.append(r.choice(TPL_PIECES))
            elif x < 0.9:
                parts.append(r.choice(TPL_ESCAPES))
            else:
                parts.append("\\" + q)
        lits.append((q, "".join(parts)))
    cases = []
    for i, (q, raw) in enumerate(lits):
        src = 'make x get 1\nmake y get "s"\nmake _u1 get true\nshout(%s%s%s)\n' % (q, raw, q)
        cases.append({"id": "t%d" % i, "src": src, "raw": raw})
    for j, src in enumerate(only or []):
        cases.append({"id": "r%d" % j, "src": src, "raw": src})
    toks = frontend_tokens(env, "tpl", [c["src"] for c in cases])
    recs = langrun.run_impl(env, "tpl", [(c["id"], c["src"]) for c in cases], cfgs=[])
    mlines, idx = [], []
    for c, tk in zip(cases, toks):
        c["tok"] = None
        if tk is None or not tk["complete"] or tk["lexdiags"]:
            continue
        strs = [t for t in tk["toks"] if t[0] == "String"]
        if len(strs) != 2:
            continue
        c["tok"] = (strs[1][3], strs[1][4])
        mlines.append("%d %s" % (1 if strs[1][3] else 0, hx(strs[1][4])))
        idx.append(c)
    mout = model_lines(env, "tpl", "template", mlines)
    lost = sum(1 for x in mout if x is None)
    if lost:
        note_inconclusive(res, "template", "model chunk timed out twice", lost)
        keep = [(c, ml) for c, ml in zip(idx, mout) if ml is not None]
        idx, mout = [c for c, _ in keep], [ml for _, ml in keep]
    if len(mout) != len(idx):
        res["disagreements"].append({"stream": "template", "what": "line count", "model": len(mout), "cases": len(idx)})
        return
    nontrivial = set()
    stats = {"static": 0, "interpolated": 0, "owned": 0, "oracle_failures": 0}
    for c, ml in zip(idx, mout):
        res["evaluations"] += 1
        dump, items, reading = [x.strip() for x in ml.split("|")]
        rec = recs.get(c["id"])
        owned, content = c["tok"]
        stats["owned"] += int(owned)
        if rec is None or rec.get("parse") != 0 or not rec.get("ast"):
            res["disagreements"].append({"stream": "template", "case": c["src"], "what": "implementation did not parse"})
            continue
        st = AstReader(rec["ast"]).block()
        arg = st[-1][1][2][0]
        if arg[0] == "lit":
            impl_dump = "S " + arg[1][2:]
            stats["static"] += 1
        else:
            impl_dump = "I %d" % len(arg[1]) + "".join(" %s %s" % s for s in arg[1])
            stats["interpolated"] += 1
        if impl_dump != dump:
            res["disagreements"].append({"stream": "template", "case": c["raw"], "owned": owned, "content": hx(content),
                                         "impl": impl_dump, "model": dump})
        got = items_of_parts(arg)
        if b"{" not in content:
            # a literal without `{` is plain text (Template.literal_reading): `}}` stays `}}` there; the
            # documentation does not mention `{{` / `}}` at all, so this is as coded, not a deviation
            reading = ("L" + content.hex()) if content else ""
        if got != reading:
            stats["oracle_failures"] += 1
            res["failures"].append({"key": template_key(owned, content), "stream": "template",
                                    "case": c["src"], "observed": got, "expected": reading})
        if b"{" in content or b"}" in content:
            nontrivial.add(common.chash(hx(content) + str(owned)))
    res["distinct_nontrivial"] += len(nontrivial)
    merge_extra(res, "template", dict(stats, cases=len(idx), distinct_literals_with_braces=len(nontrivial)))
    if idx:
        res["samples"].append({"stream": "template", "case": idx[0]["src"], "model": mout[0]})


# ----------------------------------------------------------------------------------------------
# stream programs

VALS = {
    "num": ["0", "1", "2", "7", "2.5", "0.1", "(minus 3)", "(minus 0.5)", "100", "1000000000000000000000", "0.000001",
            "9007199254740993", "0.30000000000000004", "(0 minus 0)", "12.75", "562949953421312.25", "0.00000005960464477539063"],
    "str": ['"a"', '"b"', '"ab"', '""', '"10"', '"é"', '"Hello"', '" pad "', '"a,b,c"'],
    "bool": ["true", "false"],
    "null": ["null"],
    "arr": ["[1, 2, 3]", "[]", '["x", "y"]', "[[1], [2, 3]]", "[true, null, 1.5, \"s\"]"],
}
BINOPS = ["add", "minus", "times", "divide", "mod", "and", "or", "na", "pass", "small pass"]
NEAR = ["1 na 1.000000000001", "1 na 1.0000000000009", "1 na 1.0000000000011", "1 na 0.999999999999",
        "0 na 0.000000000001", "0 na 0.0000000000011", "100 na 100.000000000001", "100 na 100.00000000000099",
        "1000000 na 1000000.000000000001", "0.1 add 0.2 na 0.3", "0.1 add 0.2 pass 0.3", "1 divide 3 times 3 na 1",
        "9007199254740993 na 9007199254740992", "(0 minus 0) na 0", "1 divide 0.000000000001 na 1000000000000",
        "2.5 na 2.5000000000005", "(minus 1) na (minus 1.0000000000005)", "123456789.125 na 123456789.12500000001"]
METHOD_CALLS = [
    '"hello world".slice(0, 5)', '"hello".slice(minus 3, 100)', '"héllo".slice(1, 2)', '"hello".slice(0.9, 2.5)',
    '"hello".slice(3, 1)', '"hello".slice(minus 100, minus 1)', '"abc".slice(1000000000000000000000, 2)',
    '"abc".slice(0 divide 1, 0 minus 1000000000000000000000)', '"a-b-c".split("-")', '"abc".split("")', '"".split("x")',
    '"aXbXc".replace("X", "--")', '"aaa".replace("aa", "b")', '"abc".replace("", "-")', '"hello".find("l")',
    '"hello".find("z")', '"héllo".find("l")', '"hello".find("")', '"  x  ".trim()', '"\\t x \\n".trim()',
    '"héllo".len()', '"".len()', '"MiXed 12".to_uppercase()', '"MiXed 12".to_lowercase()', '"abc".to_uppercase().to_lowercase()',
    '2.5.round()', '(minus 2.5).round()', '0.5.round()', '1.5.round()', '(minus 0.5).round()', '2.7.floor()', '(minus 2.7).floor()',
    '2.1.ceil()', '(minus 2.1).ceil()', '(minus 0.5).ceil()', '9.0.sqrt()', '2.0.sqrt()', '(minus 4).sqrt()', '(minus 3.5).abs()',
    '(0 minus 0).abs()', '4503599627370497.5.round()', '9007199254740993.floor()', '0.49999999999999994.round()',
    '[1, 2, 3].len()', '[].len()', '[1, "a", true, null, [2]].join(", ")', '[[1, 2], ["x"]].join("-")', '[].join("x")',
    '"a,b".split(",").join(";")', '"a,b".split(",").len()', 'typeof(1)', 'typeof("s")', 'typeof(true)', 'typeof(null)', 'typeof([1])',
    'to_string(1.5)', 'to_string([1, "a"])', 'to_string(null)', 'to_string(true)', 'to_string("s")', 'to_string(0 minus 0)',
    'to_string(1 divide 3)', 'to_string(1000000000000000000000)', 'to_string(0.000001)', 'to_string(123456789.125)',
]


def matrix_programs(env):
    r = env.rng
    progs = []
    # every binary operator x operand type pair, through variables and through parameters (dyn)
    types = ["num", "str", "bool", "null", "arr"]
    for op in BINOPS:
        for tl in types:
            for tr in types:
                a, b = r.choice(VALS[tl]), r.choice(VALS[tr])
                progs.append(("m-%s-%s-%s-lit" % (op.replace(" ", ""), tl, tr), "shout(%s %s %s)\n" % (a, op, b)))
                progs.append(("m-%s-%s-%s-var" % (op.replace(" ", ""), tl, tr),
                              "make l get %s\nmake r get %s\nshout(l %s r)\nshout(\"{l}|{r}\")\n" % (a, b, op)))
                progs.append(("m-%s-%s-%s-dyn" % (op.replace(" ", ""), tl, tr),
                              "do f(l, r) start\n  return l %s r\nend\nshout(f(%s, %s))\nshout(typeof(f(%s, %s)))\n" % (op, a, b, a, b)))
    for u in ("not", "minus"):
        for t in types:
            a = r.choice(VALS[t])
            progs.append(("u-%s-%s-lit" % (u, t), "shout(%s %s)\n" % (u, a)))
            progs.append(("u-%s-%s-dyn" % (u, t), "do f(p) start\n  return %s p\nend\nshout(f(%s))\n" % (u, a)))
    for t in types:
        a = r.choice(VALS[t])
        progs.append(("c-if-%s" % t, "do f(c) start\n  if to say (c) start\n    return \"yes\"\n  end\n  return \"no\"\nend\nshout(f(%s))\n" % a))
        progs.append(("c-loop-%s" % t, "do f(c) start\n  make n get 0\n  jasi (c) start\n    n get n add 1\n    if to say (n pass 2) start comot end\n  end\n  return n\nend\nshout(f(%s))\n" % a))
        progs.append(("c-and-%s" % t, "do f(c) start\n  return c and true\nend\nshout(f(%s))\ndo g(c) start\n  return true and c\nend\nshout(g(%s))\n" % (a, a)))
        progs.append(("c-or-%s" % t, "do f(c) start\n  return c or false\nend\nshout(f(%s))\ndo g(c) start\n  return false or c\nend\nshout(g(%s))\n" % (a, a)))
        progs.append(("c-idx-%s" % t, "do f(c) start\n  return [10, 20, 30][c]\nend\nshout(f(%s))\ndo g(c) start\n  return c[0]\nend\nshout(g(%s))\n" % (a, a)))
    # short circuit: the right operand must not run
    progs.append(("sc-and", "do t() start shout(\"t\") return true end\ndo f() start shout(\"f\") return false end\nshout(f() and t())\nshout(t() and f())\nshout(f() or t())\nshout(t() or f())\nshout(null and t())\nshout(null or t())\n"))
    # evaluation order
    progs.append(("order-args", "do p(x) start shout(x) return x end\ndo f(a, b, c) start return a add b add c end\nshout(f(p(1), p(2), p(3)))\nshout([p(4), p(5)][p(0)])\nshout(p(6) minus p(7) times p(8))\nshout(\"s\".replace(p(\"s\"), p(\"t\")))\n"))
    for i, e in enumerate(NEAR):
        progs.append(("near-%d" % i, "shout(%s)\ndo f(a, b) start return a na b end\nshout(f(%s))\n" % (e, e.replace(" na ", ", ") if " na " in e and " add " not in e and " divide " not in e else "1, 1")))
    for i, e in enumerate(METHOD_CALLS):
        progs.append(("meth-%d" % i, "shout(%s)\nmake v get %s\nshout(\"<{v}>\")\n" % (e, e)))
    # methods on dyn receivers and wrong receivers
    for i, (m, args) in enumerate([("len", ""), ("abs", ""), ("trim", ""), ("push", "1"), ("pop", ""), ("join", '","'),
                                   ("slice", "0, 1"), ("find", '"a"'), ("reverse", ""), ("floor", ""), ("split", '"a"')]):
        for t in types:
            a = r.choice(VALS[t])
            progs.append(("dynm-%s-%s" % (m, t), "do f(p) start\n  return p.%s(%s)\nend\nshout(f(%s))\n" % (m, args, a)))
    # runtime errors of each kind and what was printed before them
    progs += [
        ("err-div", "shout(1)\nshout(1 divide 0)\nshout(2)\n"),
        ("err-mod", "shout(1)\nmake z get 0\nshout(5 mod z)\n"),
        ("err-negzero", "shout(1 divide (0 minus 0))\n"),
        ("err-oob", "make a get [1, 2]\nshout(a[1])\nshout(a[2])\n"),
        ("err-neg-idx", "make a get [1, 2]\nshout(a[minus 1])\n"),
        ("err-frac-idx", "make a get [1, 2]\nshout(a[0.5])\n"),
        ("err-nan-idx", "make a get [1, 2]\nmake z get 0\nshout(a[(z divide 1) times 1000000000000000000000 times 1000000000000000000000])\n"),
        ("err-str-idx", "do f(i) start return [1, 2][i] end\nshout(f(\"0\"))\n"),
        ("err-assign-oob", "make a get [1]\na[1] get 2\nshout(a)\n"),
        ("err-assign-nested", "make a get [[1], 2]\na[1][0] get 5\nshout(a)\n"),
        ("err-in-fn", "do f(n) start\n  shout(n)\n  return 10 divide n\nend\nshout(f(2))\nshout(f(0))\nshout(f(1))\n"),
        ("err-in-loop", "make i get 3\njasi (i pass (minus 2)) start\n  shout(6 divide i)\n  i get i minus 1\nend\n"),
        ("err-in-interp-arg", "make a get []\nshout(\"x\" add a[0])\n"),
    ]
    # control flow: comot / next / return in nested positions
    progs += [
        ("cf-1", "make i get 0\njasi (i small pass 10) start\n  i get i add 1\n  if to say (i mod 2 na 0) start next end\n  if to say (i pass 7) start comot end\n  shout(i)\nend\nshout(i)\n"),
        ("cf-2", "do f() start\n  make i get 0\n  jasi (true) start\n    i get i add 1\n    make j get 0\n    jasi (true) start\n      j get j add 1\n      if to say (j pass 2) start comot end\n      if to say (i pass 2) start return i times 10 add j end\n    end\n    shout(j)\n  end\nend\nshout(f())\n"),
        ("cf-3", "do f(n) start\n  if to say (n small pass 1) start return end\n  shout(n)\n  f(n minus 1)\nend\nshout(f(3))\n"),
        ("cf-4", "do f() start\n  start\n    start\n      return 1\n    end\n    shout(\"no\")\n  end\n  shout(\"no\")\nend\nshout(f())\n"),
        ("cf-5", "do even(n) start if to say (n na 0) start return true end return odd(n minus 1) end\ndo odd(n) start if to say (n na 0) start return false end return even(n minus 1) end\nshout(even(10))\nshout(odd(7))\n"),
        ("cf-6", "shout(g(3))\ndo g(n) start\n  do h(m) start return m times 2 end\n  return h(n) add 1\nend\n"),
    ]
    return progs


def docs_snippets():
    """-> list of (id, source, expected) from the ```naijascript blocks of docs/*.md; `expected` is a list
    of displayed outputs when the snippet's comments document them in a machine-readable way, else None"""
    out = []
    ddir = os.path.join(common.REPO, "docs")
    for fn in sorted(os.listdir(ddir)):
        if not fn.endswith(".md"):
            continue
        text = open(os.path.join(ddir, fn), encoding="utf-8").read()
        for i, m in enumerate(re.finditer(r"```naijascript\n(.*?)```", text, re.S)):
            src = m.group(1)
            sid = "doc-%s-%d" % (fn[:-3].lower(), i)
            if re.search(r"\b(read_line|command)\s*\(", src):
                out.append((sid, None, None))
                continue
            expected = None
            lines = src.split("\n")
            new = []
            exp = []
            ok = True
            for ln in lines:
                new.append(ln)
                code, _, com = ln.partition("#")
                com = com.strip()
                top = not ln.startswith((" ", "\t"))
                mm = re.match(r"\s*shout\((.*)\)\s*$", code)
                if mm and re.match(r"prints\s+(.*)$", com):
                    v = re.match(r"prints\s+(.*)$", com).group(1).strip()
                    exp.append(("shout", v.strip('"')))
                    continue
                m2 = re.match(r"make\s+(\w+)\s+get\s+.*$", code.strip())
                if top and m2 and re.fullmatch(r'"[^"]*"|-?\d+(\.\d+)?', com):
                    new.append("shout(%s)" % m2.group(1))
                    exp.append(("val", com.strip('"')))
                    continue
                m3 = re.match(r"(\w+)\s+becomes\s+(\[.*\])$", com)
                if top and m3:
                    new.append("shout(%s)" % m3.group(1))
                    exp.append(("val", m3.group(2)))
                    continue
                m4 = re.match(r"Prints:\s*(.*)$", com)
                if m4 and not code.strip():
                    exp = [("all", [x.strip() for x in m4.group(1).split(",")])]
                    continue
                if mm:
                    exp.append(("shout", None))
            if any(e[0] == "all" for e in exp):
                expected = exp[-1][1]
            elif exp and any(e[1] is not None for e in exp):
                expected = [e[1] for e in exp]
            out.append((sid, "\n".join(new) + "\n", expected))
    return out


def fmt_float(x):
    import math
    if math.isnan(x):
        return "NaN"
    if math.isinf(x):
        return "inf" if x > 0 else "-inf"
    if x == int(x) and abs(x) < 1e16:
        return ("-" if (x < 0 or (x == 0 and math.copysign(1, x) < 0)) else "") + str(abs(int(x)))
    s = repr(x)
    return s if "e" not in s else None


def display_value(v, top=True):
    """Display of one canonical value (n:<bits> s:<hex> b:0|1 z a[..]) as the interpreter prints it;
    None when this helper cannot format it (then the documented output is not compared)"""
    if v.startswith("n:"):
        return "NaN" if v == "n:nan" else fmt_float(unbits(int(v[2:], 16)))
    if v.startswith("s:"):
        s = unhx(v[2:]).decode("utf-8", "replace")
        return s if top else '"%s"' % s
    if v.startswith("b:"):
        return "true" if v == "b:1" else "false"
    if v == "z":
        return "null"
    if v.startswith("a["):
        items, depth, cur = [], 0, ""
        for ch in v[2:-1]:
            if ch == "," and depth == 0:
                items.append(cur)
                cur = ""
                continue
            depth += ch == "["
            depth -= ch == "]"
            cur += ch
        if cur:
            items.append(cur)
        ds = [display_value(i, False) for i in items]
        return None if any(d is None for d in ds) else "[%s]" % ", ".join(ds)
    return None


def split_values(vals):
    out, depth, cur = [], 0, ""
    for ch in vals:
        if ch == " " and depth == 0:
            if cur:
                out.append(cur)
            cur = ""
            continue
        depth += ch == "["
        depth -= ch == "]"
        cur += ch
    if cur:
        out.append(cur)
    return out


def constructs(ast_line):
    """distinct construct kinds in a dumped AST (for the non-triviality rule)"""
    ks = set()
    for t in ast_line.split()[1:]:
        if t in ("F", "K", "T", "J", "IF", "W", "BL", "R", "BR", "NX", "O", "U", "A", "X", "M", "C", "I"):
            ks.add(t)
    return ks


def run_model_safe(env, name, impl_recs, order, chunk=200, timeout=None):
    """langrun.run_model with a large native stack for the extracted evaluator (deep recursion of a
    program under test must end in the model's `fuel`, not in an OCaml stack overflow), NPROC chunks
    at a time; a chunk that dies or times out is bisected and the offending case is left without a
    model record (inconclusive)."""
    out = {}
    counter = [0]

    def launch(ids):
        counter[0] += 1
        tag = "c%d" % counter[0]
        inp = os.path.join(env.work, "%s.%s.model.in" % (name, tag))
        outp = os.path.join(env.work, "%s.%s.model" % (name, tag))
        with open(inp, "w") as f:
            for cid in ids:
                r = impl_recs.get(cid)
                if not r or not r.get("ast") or not r.get("plan"):
                    continue
                f.write("case %s\n%s\n%s\nend %s\n" % (cid, r["ast"], r["plan"], cid))
        if os.path.exists(outp):
            os.remove(outp)
        cmd = "ulimit -s unlimited 2>/dev/null || ulimit -s 1000000; ulimit -v 6000000; exec %s lang %s %s %s" % (
            common.NSMODEL, langrun.eps_hex(), inp, outp)
        return ["bash", "-c", cmd], outp

    todo = [order[i:i + chunk] for i in range(0, len(order), chunk)]
    while todo:
        batch = [todo.pop() for _ in range(min(MODEL_PAR, len(todo)))]
        jobs = [launch(ids) for ids in batch]
        limit = timeout or (60 + max(len(ids) for ids in batch))
        rs = run_parallel([j[0] for j in jobs], limit)
        for ids, (cmdline, outp), (rc, _) in zip(batch, jobs, rs):
            if rc == 0 and os.path.exists(outp):
                out.update(langrun.parse_records(open(outp).read().splitlines()))
            elif len(ids) > 1 and not out_of_time(env):
                todo.append(ids[:len(ids) // 2])
                todo.append(ids[len(ids) // 2:])
    return out


def stream_programs(env, res, only=None, n_override=None, fixed=True):
    if only is None and n_override is None and env.tier != "quick":
        return batched(env, res, "programs_stream", stream_programs, 20000, 2000)
    r = env.rng
    quick = env.tier == "quick"
    cases = []
    # generated programs: broad mix, then biased mixes
    n = 500 if n_override is None else n_override
    if only is not None:
        n = 0
        cases = [("r%d" % j, src, None) for j, src in enumerate(only)]
    mixes = [langgen.Opts(), langgen.Opts(p_trap=0.12, p_fn=0.3), langgen.Opts(max_stmts=22, p_loop=0.2),
             langgen.Opts(p_fn=0.35, p_recursion=0.6, p_forward_call=0.5), langgen.Opts(alias_heavy=True, p_shadow=0.4)]
    for i in range(n):
        src, stats = langgen.generate(r, mixes[i % len(mixes)])
        cases.append(("g%d" % i, src, None))
    for cid, src in (matrix_programs(env) if (only is None and fixed) else []):
        cases.append((cid, src, None))
    ex = os.path.join(common.REPO, "examples")
    for fn in (sorted(os.listdir(ex)) if (only is None and fixed) else []):
        if fn.endswith(".ns"):
            cases.append(("ex-" + fn[:-3], open(os.path.join(ex, fn), encoding="utf-8").read(), None))
    skipped_docs = 0
    for sid, src, expected in (docs_snippets() if (only is None and fixed) else []):
        if src is None:
            skipped_docs += 1
            continue
        cases.append((sid, src, expected))
    t0 = time.time()
    recs = langrun.run_impl(env, "prog", [(c[0], c[1]) for c in cases], cfgs=["nn", "pn"], timeout=1200)
    # documentation fragments that only miss the declaration of a variable (`foo pass 10` with foo
    # from the surrounding prose) are completed with a declaration and run as well
    completed = []
    doc_rejected = {}
    for cid, src, expected in cases:
        rec = recs.get(cid)
        if not cid.startswith("doc-") or rec is None or rec.get("accepted") or rec.get("parse"):
            if cid.startswith("doc-") and rec is not None and not rec.get("accepted"):
                doc_rejected[cid] = error_signature(rec["diags"])[:3]
            continue
        names = []
        only_undeclared = True
        raw = src.encode("utf-8")
        for d in rec["diags"]:
            t = d.split()
            if t[1] != "error":
                continue
            msg = bytes.fromhex(t[3]).decode("utf-8", "replace")
            if msg in ("Undeclared identifier", "Assignment to undeclared variable"):
                nm = raw[int(t[4]):int(t[5])].decode("utf-8", "replace")
                if re.fullmatch(r"[A-Za-z_]\w*", nm) and nm not in names:
                    names.append(nm)
            elif msg != "Type mismatch":
                only_undeclared = False
        if names and only_undeclared:
            pre = "".join("make %s get %s\n" % (n, "false" if n == "condition" else "12") for n in names)
            completed.append((cid + "-completed", pre + src, None))
        else:
            doc_rejected[cid] = error_signature(rec["diags"])[:3]
    if completed:
        recs.update(langrun.run_impl(env, "prog2", [(c[0], c[1]) for c in completed], cfgs=["nn", "pn"], timeout=600))
        cases += completed
        for cid, src, _ in completed:
            if not recs.get(cid, {}).get("accepted"):
                doc_rejected[cid] = error_signature(recs.get(cid, {}).get("diags", []))[:3]
    order = [c[0] for c in cases]
    t1 = time.time()
    # a run that exhausted the native stack budget is never compared; do not make the model recurse as deep
    order = [cid for cid in order
             if not any(e.startswith("err:Stack_overflow") for e, _ in recs.get(cid, {}).get("runs", {}).values())]
    mrecs = run_model_safe(env, "prog", recs, order)
    env.log("programs: %d cases, implementation %.1fs, model %.1fs" % (len(cases), t1 - t0, time.time() - t1))
    nontrivial = set()
    st = {"accepted": 0, "rejected": 0, "parse_errors": 0, "spec_compared": 0, "spec_stuck": 0, "spec_fuel": 0,
          "spec_unsupported": 0, "impl_stack_overflow": 0, "doc_outputs_checked": 0, "docs_snippets": 0,
          "docs_skipped_io": skipped_docs, "endings": {}, "model_inconclusive": 0}
    for cid, src, expected in cases:
        rec = recs.get(cid)
        res["evaluations"] += 1
        if cid.startswith("doc-"):
            st["docs_snippets"] += 1
        if rec is None:
            res["disagreements"].append({"stream": "programs", "case": src, "what": "no implementation record"})
            continue
        if rec.get("parse"):
            st["parse_errors"] += 1
        if not rec.get("accepted"):
            st["rejected"] += 1
            if cid.startswith("ex-") and cid not in ("ex-errors",):
                res["failures"].append({"key": "example-rejected:" + cid, "stream": "programs", "case": src,
                                        "observed": rec["diags"][:3]})
            continue
        st["accepted"] += 1
        if "crash" in rec and rec["crash"][0] == "frontend":
            res["failures"].append({"key": "frontend-crash:" + common.chash(src), "stream": "programs", "case": src,
                                    "observed": rec["crash"][1]})
            continue
        m = mrecs.get(cid)
        status, detail = langcheck.compare(rec, m, cfgs=("nn", "pn"))
        if status == "disagree":
            res["disagreements"].append({"stream": "programs", "case": src, "detail": detail})
        elif status == "inconclusive":
            st["model_inconclusive"] += 1
        if any(e.startswith("err:Stack_overflow") for e, _ in rec["runs"].values()):
            st["impl_stack_overflow"] += 1
            continue
        if "nn" not in rec["runs"] or m is None or "s" not in m["runs"]:
            continue
        ei, vi = rec["runs"]["nn"]
        es, vs = m["runs"]["s"]
        ci = langrun.ending_class(ei)
        st["endings"][ci] = st["endings"].get(ci, 0) + 1
        if es in ("stuck", "fuel", "unsupported"):
            st["spec_" + es] += 1
        elif ci in ("err:Stack_overflow", "timeout"):
            st["impl_stack_overflow"] += 1
        else:
            st["spec_compared"] += 1
            if (ci, vi) != (es, vs):
                res["failures"].append({"key": "spec-mismatch:" + common.chash(src), "stream": "programs", "case": src,
                                        "observed": [langrun.panic_text(ei)[:200], vi[:300]], "expected": [es, vs[:300]]})
            if vi and len(constructs(rec["ast"])) >= 3:
                nontrivial.add(common.chash(src))
        if expected is not None and ci == "ok":
            shown = [display_value(v) for v in split_values(vi)]
            want = list(expected)
            if len(shown) == len(want):
                pairs = [(s.replace(" ", ""), w.replace(" ", "")) for s, w in zip(shown, want) if w is not None and s is not None]
                st["doc_outputs_checked"] += len(pairs)
                bad = [(s, w) for s, w in pairs if s != w]
                if bad:
                    res["failures"].append({"key": "documented-output:" + cid, "stream": "programs", "case": src,
                                            "observed": shown, "expected": want})
            else:
                res["failures"].append({"key": "documented-output:" + cid, "stream": "programs", "case": src,
                                        "observed": shown, "expected": want})
    res["distinct_nontrivial"] += len(nontrivial)
    merge_extra(res, "programs_stream", dict(st, cases=len(cases), nontrivial=len(nontrivial),
                                      docs_snippets_rejected=doc_rejected, docs_fragments_completed=len(completed)))
    if cases:
        res["samples"].append({"stream": "programs", "case": cases[0][1][:400], "impl": recs.get(cases[0][0], {}).get("runs", {}).get("nn")})


# ----------------------------------------------------------------------------------------------
# stream accept

class TGen:
    """well-typed programs (every value is used at its run-time type) that lean on what the checker
    only knows dynamically: parameters, function results, array elements, pop(), and names that are
    reused for variables of different types in different scopes"""

    NAMES = ["a", "b", "n", "s", "t", "x", "y", "v", "w", "acc", "item", "res"]

    def __init__(self, rng):
        self.r = rng
        self.scopes = [[]]        # (name, type, elem type for arrays)
        self.fns = []             # (name, [param types], return type)
        self.k = 0
        self.lines = []

    def fresh(self, reuse=0.5):
        r = self.r
        if r.random() < reuse:
            return r.choice(self.NAMES)
        self.k += 1
        return "z%d" % self.k

    def vars(self, ty):
        seen, out = set(), []
        for sc in reversed(self.scopes):
            for v in reversed(sc):
                if v[0] in seen:
                    continue
                seen.add(v[0])
                if v[1] == ty:
                    out.append(v)
        return out

    def lit(self, ty):
        r = self.r
        if ty == "num":
            return r.choice(["0", "1", "2", "3", "10", "2.5", "0.5", "100"])
        if ty == "str":
            return r.choice(['"a"', '"bc"', '""', '"Hello"', '"x y"'])
        if ty == "bool":
            return r.choice(["true", "false"])
        if ty == "null":
            return "null"
        if ty == "arrnum":
            return "[%s]" % ", ".join(self.lit("num") for _ in range(r.randint(1, 3)))
        if ty == "arrstr":
            return "[%s]" % ", ".join(self.lit("str") for _ in range(r.randint(1, 3)))
        raise ValueError(ty)

    def atom(self, ty):
        r = self.r
        vs = self.vars(ty)
        if vs and r.random() < 0.7:
            return r.choice(vs)[0]
        if ty in ("num", "str") and r.random() < 0.3:
            arrs = self.vars("arr" + ty)
            if arrs:
                return "%s[0]" % r.choice(arrs)[0]
        if r.random() < 0.25:
            fs = [f for f in self.fns if f[2] == ty]
            if fs:
                f = r.choice(fs)
                return "%s(%s)" % (f[0], ", ".join(self.expr(t, 0) for t in f[1]))
        return self.lit(ty)

    def expr(self, ty, d):
        r = self.r
        if d <= 0 or r.random() < 0.25:
            return self.atom(ty)
        k = r.random()
        if ty == "num":
            if k < 0.45:
                return "%s %s %s" % (self.expr("num", d - 1), r.choice(["add", "minus", "times"]), self.expr("num", d - 1))
            if k < 0.55:
                return "%s %s %s" % (self.expr("num", d - 1), r.choice(["divide", "mod"]), r.choice(["2", "3", "0.5"]))
            if k < 0.65:
                return "minus %s" % self.opnd("num", d - 1)
            if k < 0.72:
                return "(%s)" % self.expr("num", d - 1)
            if k < 0.80:
                return "%s.%s()" % (self.recv("num", d - 1), r.choice(["abs", "floor", "ceil", "round", "sqrt"]))
            if k < 0.88:
                return "%s.len()" % self.recv(r.choice(["str", "arrnum", "arrstr"]), d - 1)
            if k < 0.94:
                return "%s.find(%s)" % (self.recv("str", d - 1), self.expr("str", d - 1))
            return self.atom("num")
        if ty == "str":
            if k < 0.3:
                a, b = self.opnd("str", d - 1), self.opnd(r.choice(["str", "num"]), d - 1)
                if r.random() < 0.4:
                    a, b = b, a
                return "%s add %s" % (a, b)
            if k < 0.5:
                m = r.choice(["trim", "to_uppercase", "to_lowercase"])
                return "%s.%s()" % (self.recv("str", d - 1), m)
            if k < 0.6:
                return "%s.slice(%s, %s)" % (self.recv("str", d - 1), self.expr("num", d - 1), self.expr("num", d - 1))
            if k < 0.68:
                return "%s.replace(%s, %s)" % (self.recv("str", d - 1), self.expr("str", d - 1), self.expr("str", d - 1))
            if k < 0.76:
                return "to_string(%s)" % self.expr(r.choice(["num", "str", "bool", "null"]), d - 1)
            if k < 0.82:
                return "typeof(%s)" % self.expr(r.choice(["num", "str", "bool", "null", "arrnum"]), d - 1)
            if k < 0.9:
                return "%s.join(%s)" % (self.recv(r.choice(["arrnum", "arrstr"]), d - 1), self.expr("str", d - 1))
            vs = self.vars("num") + self.vars("str") + self.vars("bool") + self.vars("null")
            if vs:
                return '"<{%s}>"' % r.choice(vs)[0]
            return self.atom("str")
        if ty == "bool":
            if k < 0.4:
                t = r.choice(["num", "num", "str", "bool"])
                return "%s %s %s" % (self.opnd(t, d - 1), r.choice(["na", "pass", "small pass"]), self.opnd(t, d - 1))
            if k < 0.55:
                return "%s na null" % self.opnd(r.choice(["num", "str", "bool", "null"]), d - 1)
            if k < 0.62:
                return "null na %s" % self.opnd(r.choice(["num", "str", "bool"]), d - 1)
            if k < 0.8:
                return "%s %s %s" % (self.opnd("bool", d - 1), r.choice(["and", "or"]), self.opnd("bool", d - 1))
            if k < 0.9:
                return "not %s" % self.opnd("bool", d - 1)
            return self.atom("bool")
        if ty == "null":
            return "null"
        return self.atom(ty)

    def opnd(self, ty, d):
        e = self.expr(ty, d)
        return "(%s)" % e if " " in re.sub(r'"[^"]*"', '""', e) else e

    def recv(self, ty, d):
        e = self.expr(ty, d)
        if re.fullmatch(r"[A-Za-z_]\w*(\[\d+\])*", e) or re.fullmatch(r'"[^"]*"', e) or re.fullmatch(r"\d+\.\d+", e):
            return e
        return "(%s)" % e

    def declare(self, name, ty):
        sc = self.scopes[-1]
        for i, v in enumerate(sc):
            if v[0] == name:
                sc[i] = (name, ty)
                return
        sc.append((name, ty))

    def stmts(self, n, ind, in_fn=None, in_loop=False):
        r = self.r
        pad = "  " * ind
        out = []
        for _ in range(n):
            k = r.random()
            ty = r.choice(["num", "num", "str", "bool", "arrnum", "arrstr", "null"])
            if k < 0.3:
                name = self.fresh()
                while any(f[0] == name for f in self.fns):
                    name = self.fresh(0)
                e = self.expr(ty, 2)
                out.append("%smake %s get %s" % (pad, name, e))
                self.declare(name, ty)
            elif k < 0.42:
                cands = [v for t in ("num", "str", "bool") for v in self.vars(t) if not v[0].startswith("i_")]
                if cands:
                    v = r.choice(cands)
                    out.append("%s%s get %s" % (pad, v[0], self.expr(v[1], 2)))
            elif k < 0.55:
                out.append("%sshout(%s)" % (pad, self.expr(ty if ty != "null" else "str", 2)))
            elif k < 0.63:
                arrs = self.vars("arrnum") + self.vars("arrstr")
                if arrs:
                    a = r.choice(arrs)
                    el = a[1][3:]
                    out.append(r.choice([
                        "%s%s.push(%s)" % (pad, a[0], self.expr(el, 1)),
                        "%s%s[0] get %s" % (pad, a[0], self.expr(el, 1)),
                        "%s%s.reverse()" % (pad, a[0]),
                        "%sshout(%s.pop())" % (pad, a[0]),
                        "%sshout(%s[%s.len() minus 1] %s)" % (pad, a[0], a[0], "add 1" if el == "num" else 'add "!"'),
                    ]))
            elif k < 0.75 and ind < 3:
                out.append("%sif to say (%s) start" % (pad, self.expr(r.choice(["bool", "bool", "null"]), 2)))
                self.scopes.append([])
                out += self.stmts(r.randint(1, 3), ind + 1, in_fn, in_loop)
                self.scopes.pop()
                out.append("%send" % pad)
                if r.random() < 0.4:
                    out.append("%sif not so start" % pad)
                    self.scopes.append([])
                    out += self.stmts(r.randint(1, 2), ind + 1, in_fn, in_loop)
                    self.scopes.pop()
                    out.append("%send" % pad)
            elif k < 0.84 and ind < 3:
                self.k += 1
                i = "i_%d" % self.k
                out.append("%smake %s get 0" % (pad, i))
                self.declare(i, "num")
                out.append("%sjasi (%s small pass %d) start" % (pad, i, r.randint(1, 3)))
                out.append("%s  %s get %s add 1" % (pad, i, i))
                self.scopes.append([])
                if r.random() < 0.5:
                    out.append("%s  if to say (%s) start %s end" % (pad, self.expr("bool", 1), r.choice(["comot", "next"])))
                out += self.stmts(r.randint(1, 3), ind + 1, in_fn, True)
                self.scopes.pop()
                out.append("%send" % pad)
            elif k < 0.9 and in_fn is not None:
                rty = in_fn
                out.append("%sif to say (%s) start return %s end" % (pad, self.expr("bool", 1),
                                                                   self.expr(rty, 2) if rty != "none" else ""))
            elif k < 0.95 and in_loop:
                out.append("%sif to say (%s) start %s end" % (pad, self.expr("bool", 1), r.choice(["comot", "next"])))
            else:
                out.append("%sshout(%s)" % (pad, self.expr("str", 2)))
        return out

    def function(self, ind):
        r = self.r
        pad = "  " * ind
        name = "f%d" % (len(self.fns) + 1)
        ptys = [r.choice(["num", "num", "str", "bool", "arrnum"]) for _ in range(r.randint(0, 3))]
        rty = r.choice(["num", "num", "str", "bool", "arrnum", "none"])
        # parameter names are often names of outer variables of another type
        params = []
        for t in ptys:
            p = self.fresh(0.7)
            while p in params:
                p = self.fresh(0)
            params.append(p)
        saved = self.scopes
        outer = [v for sc in saved for v in sc]
        self.scopes = [list(outer)] if r.random() < 0.6 else [[]]
        self.scopes.append([(p, t) for p, t in zip(params, ptys)])
        self.scopes.append([])
        body = self.stmts(r.randint(1, 4), ind + 1, in_fn=rty)
        if rty != "none":
            # often return a bare local or parameter (the shape whose type the checker must not guess)
            cands = [v for v in self.scopes[-1] + self.scopes[-2] if v[1] == rty]
            if cands and r.random() < 0.7:
                body.append("%s  return %s" % (pad, r.choice(cands)[0]))
            else:
                body.append("%s  return %s" % (pad, self.expr(rty, 2)))
        self.scopes = saved
        self.fns.append((name, ptys, rty))
        return ["%sdo %s(%s) start" % (pad, name, ", ".join(params))] + body + ["%send" % pad]

    def program(self):
        r = self.r
        lines = self.stmts(r.randint(1, 4), 0)
        nested = r.random() < 0.5
        if nested:
            lines.append("if to say (true) start")
            self.scopes.append([])
        ind = 1 if nested else 0
        for _ in range(r.randint(1, 3)):
            lines += self.function(ind)
            lines += self.stmts(r.randint(1, 3), ind)
            f = self.fns[-1]
            call = "%s(%s)" % (f[0], ", ".join(self.expr(t, 1) for t in f[1]))
            pad = "  " * ind
            use = {"num": "shout(%s minus 1)", "str": "shout(%s.len())", "bool": "shout(not %s)",
                   "arrnum": "shout(%s.len())", "none": "%s"}[f[2]]
            lines.append(pad + use % call)
            if f[2] == "num":
                lines.append(pad + "shout(%s times 2 add %s)" % (call, self.expr("num", 1)))
            if f[2] == "str":
                lines.append(pad + "shout(%s add \"!\")" % call)
            if f[2] == "bool":
                lines.append(pad + "if to say (%s) start shout(1) end" % call)
        if nested:
            self.scopes.pop()
            lines.append("end")
        return "\n".join(lines) + "\n"


ACCEPT_CORPUS = [
    ("return-type-inferred-from-enclosing-scope",
     'make s get "a"\nif to say (true) start\n  do f() start\n    make s get 1\n    return s\n  end\n  shout(f() minus 1)\nend\n'),
    ("return-type-inferred-from-enclosing-scope",
     'make p get "x"\nstart\n  do g(p) start\n    return p\n  end\n  shout(g(2) times 3)\nend\n'),
    ("return-type-inferred-from-enclosing-scope",
     'do g() start\n  return "s"\nend\ndo f() start\n  do g() start\n    return 1\n  end\n  return g()\nend\nshout(f() minus 1)\nshout(g())\n'),
    ("return-type-inferred-from-enclosing-scope",
     'make v get true\nstart\n  make v get 2\n  do f() start\n    return v\n  end\n  shout(f() minus 1)\nend\nshout(v)\n'),
    ("add-of-two-dynamic-operands", 'do h(p) start\n  return p add p minus 1\nend\nshout(h(2))\n'),
    ("unary-on-dynamic-rejected", 'do f(p) start\n  return minus p add 1\nend\nshout(f(1))\n'),
    ("null-comparison", 'make foo get null\nshout(foo na 0)\nshout(foo na "")\nshout(foo na false)\nif to say (not foo) start shout("x") end\n'),
    ("forward-reference", 'shout(double(21))\ndo double(n) start\n  return n times 2\nend\n'),
    ("method-on-parameter", 'do f(s, a) start\n  a.push(s.len())\n  return a.join(s.trim())\nend\nshout(f(" x ", [1]))\n'),
]


def rename_function_locals(src):
    """appends a suffix to every parameter and every `make` name that occurs inside a `do ... end`
    body, consistently inside that function text (used only to classify a rejection)"""
    lines = src.split("\n")
    out, depth, fn_depth, names = [], 0, None, set()
    for ln in lines:
        code = ln
        m = re.match(r"\s*do\s+\w+\s*\(([^)]*)\)\s*start", code)
        if m and fn_depth is None:
            fn_depth = depth
            names = set(x.strip() for x in m.group(1).split(",") if x.strip())
        if fn_depth is not None:
            for mm in re.finditer(r"\bmake\s+([A-Za-z_]\w*)", code):
                names.add(mm.group(1))
        opens = len(re.findall(r"\bstart\b", code))
        closes = len(re.findall(r"\bend\b", code))
        if fn_depth is not None:
            def sub(mo):
                w = mo.group(0)
                return w + "_q" if w in names else w
            parts = re.split(r'("(?:[^"\\]|\\.)*")', code)
            for i in range(0, len(parts), 2):
                parts[i] = re.sub(r"[A-Za-z_]\w*", sub, parts[i])
            for i in range(1, len(parts), 2):
                parts[i] = re.sub(r"\{\s*([A-Za-z_]\w*)\s*\}", lambda mo: "{%s}" % (mo.group(1) + "_q" if mo.group(1) in names else mo.group(1)), parts[i])
            code = "".join(parts)
        depth += opens - closes
        if fn_depth is not None and depth <= fn_depth:
            fn_depth, names = None, set()
        out.append(code)
    return "\n".join(out)


def accept_eval(env, name, items, spec=False, timeout=None):
    """items: [(id, src)] -> dict id -> (parse_errors, accepted, simply_typed, diags, spec_ending)
    spec_ending: how Spec.run_spec ends on the dumped AST (names only; computed for every program
    that parses when spec=True, also for the rejected ones)"""
    recs = langrun.run_impl(env, name, items, cfgs=[])
    mlines = []
    for cid, _ in items:
        rec = recs.get(cid)
        if rec and rec.get("ast"):
            mlines += ["case %s" % cid, rec["ast"]]
    st = {}
    if mlines:
        inp = os.path.join(env.work, name + ".st.in")
        outp = os.path.join(env.work, name + ".st.out")
        open(inp, "w").write("\n".join(mlines) + "\n")
        rc, out = common.sh([common.NSMODEL, "simpletypes", inp, outp], timeout=900)
        if rc in RESOURCE_RC:
            raise Inconclusive("nsmodel simpletypes: timeout/killed (rc=%s) on %d cases" % (rc, len(items)))
        if rc != 0:
            raise RuntimeError("nsmodel simpletypes failed: %s" % out[-400:])
        for l in open(outp).read().splitlines():
            t = l.split()
            st[t[1]] = t[2]
    ends = {}
    if spec:
        fake = {}
        for cid, _ in items:
            rec = recs.get(cid)
            if rec and rec.get("ast"):
                fake[cid] = dict(rec, plan="plan none")
        m = run_model_safe(env, name + ".sp", fake, [cid for cid, _ in items if cid in fake], timeout=timeout)
        for cid, mr in m.items():
            if "s" in mr["runs"]:
                ends[cid] = mr["runs"]["s"][0]
    out = {}
    for cid, _ in items:
        rec = recs.get(cid) or {}
        out[cid] = (rec.get("parse"), rec.get("accepted"), st.get(cid), rec.get("diags", []), ends.get(cid))
    return out


def spec_valid(ending):
    """the documented semantics runs the program without a type error (and without getting stuck)"""
    return ending is not None and (ending == "ok" or (ending.startswith("err:") and ending != "err:Type_mismatch"))


def error_signature(diags):
    sig = []
    for d in diags:
        t = d.split()
        if len(t) >= 4 and t[1] == "error":
            try:
                sig.append(bytes.fromhex(t[3]).decode("utf-8", "replace"))
            except ValueError:
                sig.append(t[3])
    return sig


def stream_accept(env, res, only=None, n_override=None, fixed=True):
    if only is None and n_override is None and env.tier != "quick":
        return batched(env, res, "accept", stream_accept, 40000, 4000)
    r = env.rng
    quick = env.tier == "quick"
    items = []
    for j, (key, src) in enumerate(ACCEPT_CORPUS if (only is None and fixed) else []):
        items.append(("k%d" % j, src))
    n = 700 if n_override is None else (n_override * 3) // 4
    m = 300 if n_override is None else n_override - n
    if only is not None:
        n = m = 0
        items = [("a%d" % j, src) for j, src in enumerate(only)]
    for i in range(n):
        items.append(("a%d" % i, TGen(r).program()))
    for i in range(m):
        src, _ = langgen.generate(r, langgen.Opts(p_trap=0.0, p_dead=0.0))
        items.append(("l%d" % i, src))
    if only is None and fixed:
        # the documentation's own snippets and the examples: what they show must be accepted
        for sid, src, _ in docs_snippets():
            if src is not None:
                items.append(("d" + sid, src))
        exd = os.path.join(common.REPO, "examples")
        for fn in sorted(os.listdir(exd)):
            if fn.endswith(".ns"):
                items.append(("dex-" + fn[:-3], open(os.path.join(exd, fn), encoding="utf-8").read()))
    ev = accept_eval(env, "acc", items)
    st = {"cases": len(items), "simply_typed": 0, "not_simply_typed": 0, "accepted_and_typed": 0, "rejected_but_typed": 0,
          "rejected_typed_and_runs_under_spec": 0, "parse_errors": 0,
          "typed_by_generator": {"corpus": 0, "tgen": 0, "langgen": 0, "docs": 0}}
    nontrivial = set()
    cand = []
    for cid, src in items:
        pe, acc, sty, diags, _ = ev[cid]
        res["evaluations"] += 1
        if pe:
            st["parse_errors"] += 1
            if cid[0] in "ka":
                res["failures"].append({"key": "generated-program-does-not-parse:" + common.chash(src), "stream": "accept",
                                        "case": src, "observed": error_signature(diags)[:3]})
            continue
        if sty != "1":
            st["not_simply_typed"] += 1
            continue
        st["simply_typed"] += 1
        st["typed_by_generator"][{"k": "corpus", "a": "tgen", "l": "langgen", "d": "docs"}[cid[0]]] += 1
        if acc:
            st["accepted_and_typed"] += 1
            if "do " in src:
                nontrivial.add(common.chash(src))
        else:
            st["rejected_but_typed"] += 1
            cand.append((cid, src))
    # a rejection counts when the program also runs under the documented semantics without a type error
    bad = []
    if cand:
        ev2 = accept_eval(env, "acc2", cand, spec=True)
        for cid, src in cand:
            if spec_valid(ev2[cid][4]):
                st["rejected_typed_and_runs_under_spec"] += 1
                bad.append((cid, src, error_signature(ev2[cid][3])))
    # classify and shrink the rejections (a few per signature)
    seen = {}
    shrunk = 0
    for cid, src, sig in bad:
        if cid.startswith("k"):
            res["failures"].append({"key": ACCEPT_CORPUS[int(cid[1:])][0], "stream": "accept", "case": src, "observed": sig[:3]})
            continue
        k0 = "|".join(sig[:1])
        seen[k0] = seen.get(k0, 0) + 1
        # is the rejection caused by a name of the function body that also exists outside it?
        e = accept_eval(env, "ren", [("s", rename_function_locals(src))])["s"]
        capture = e[0] == 0 and e[1] is True
        small_src = src
        if seen[k0] <= 2 and shrunk < (3 if quick else 12):
            shrunk += 1
            lines = src.rstrip("\n").split("\n")

            def still(cand_lines):
                ev3 = accept_eval(env, "shr", [("s", "\n".join(cand_lines) + "\n")], spec=True, timeout=6)["s"]
                return ev3[0] == 0 and ev3[1] is False and ev3[2] == "1" and spec_valid(ev3[4])
            if len(lines) <= 45 and still(lines):
                small_src = "\n".join(common.ddmin_lines(lines, still, keep_head=0)) + "\n"
        key = "return-type-inferred-from-enclosing-scope" if capture else "valid-program-rejected:" + common.chash(small_src)
        res["failures"].append({"key": key, "stream": "accept", "case": small_src, "observed": sig[:3],
                                "original": src if len(src) < 1500 else src[:1500]})
    res["distinct_nontrivial"] += len(nontrivial)
    merge_extra(res, "accept", dict(st, rejection_signatures=seen, distinct_typed_programs_with_functions=len(nontrivial)))
    if only is None:
        if fixed and len(items) > len(ACCEPT_CORPUS):
            res["samples"].append({"stream": "accept", "case": items[len(ACCEPT_CORPUS)][1][:600]})


# ----------------------------------------------------------------------------------------------
# entry points

RULE = ("distinct non-trivial = f64: distinct (operation, bit patterns) lines; pratt: distinct expression trees using >= 3 "
        "operator kinds; template: distinct (token content, owned) with a brace; programs: distinct accepted programs that "
        "print >= 1 value, use >= 3 construct kinds and were compared with Spec.run_spec; accept: distinct simply-typed "
        "programs that define a function")

STREAMS = [("f64", stream_f64), ("pratt", stream_pratt), ("template", stream_template),
           ("programs", stream_programs), ("accept", stream_accept)]


def new_result():
    return {"evaluations": 0, "distinct_nontrivial": 0, "rule": RULE, "samples": [], "failures": [],
            "disagreements": [], "extra": {}}


# keys moved from `failures` to extra["observations"] (behaviour the documentation is silent about and the
# coordinator decided not to count as a defect); empty: everything the oracles flag is a failure
OBSERVATION_KEYS = set()


def dedupe_failures(failures):
    """one witness per key (the shortest), with the number of inputs that hit it"""
    by = {}
    for f in failures:
        k = f["key"]
        if k not in by:
            by[k] = dict(f, count=1)
        else:
            n = by[k]["count"] + 1
            if len(f.get("case", "")) < len(by[k].get("case", "")):
                by[k] = dict(f)
            by[k]["count"] = n
    return list(by.values())


# thorough tier: wall-clock budget of the five streams together (seconds) and each stream's share; a
# stream stops generating when its share (plus what earlier streams left over) is used
THOROUGH_BUDGET = 1500
SHARES = {"f64": 0.40, "pratt": 0.05, "template": 0.08, "programs": 0.32, "accept": 0.15}


def correspond(env, searching=False, model=True):
    res = new_result()
    times = {}
    t_start = time.time()
    left = 1.0
    for name, fn in STREAMS:
        t0 = time.time()
        if env.tier == "quick":
            env.c01_deadline = None
        else:
            remaining = max(60.0, THOROUGH_BUDGET - (t0 - t_start))
            env.c01_deadline = t0 + remaining * SHARES[name] / left
            left = max(1e-9, left - SHARES[name])
        try:
            fn(env, res)
        except Inconclusive as ex:       # timeout / killed: nothing decided, never a disagreement
            env.log("C01 stream %s inconclusive: %s" % (name, ex))
            note_inconclusive(res, name, str(ex)[:300], 0)
        except Exception as ex:          # a stream that cannot run is a tie that no longer checks
            import traceback
            env.log(traceback.format_exc())
            res["disagreements"].append({"stream": name, "what": "stream crashed: %s" % str(ex)[:300]})
        times[name] = round(time.time() - t0, 1)
        env.log("C01 stream %s: %.1fs, %d failures, %d disagreements so far" % (
            name, times[name], len(res["failures"]), len(res["disagreements"])))
    env.c01_deadline = None
    allf = dedupe_failures(res["failures"])
    res["failures"] = [f for f in allf if f["key"] not in OBSERVATION_KEYS]
    res["extra"]["observations"] = [f for f in allf if f["key"] in OBSERVATION_KEYS]
    res["extra"]["stream_seconds"] = times
    res["extra"]["thorough_budget_seconds"] = THOROUGH_BUDGET if env.tier != "quick" else None
    res["disagreements"] = res["disagreements"][:40]
    return res


def replay(env, payload):
    """0 = the recorded input passes now, 1 = still failing"""
    case = payload.get("case") or {}
    res = new_result()
    if payload.get("kind") == "failing-input" and case.get("stream"):
        st = case["stream"]
        src = case.get("case", "")
        if st == "template":
            stream_template(env, res, only=[src])
        elif st == "pratt":
            stream_pratt(env, res, only=[(src, case.get("expected", ""))])
        elif st == "programs":
            stream_programs(env, res, only=[src])
        elif st == "accept":
            stream_accept(env, res, only=[src])
        print("replay %s: %d failures, %d disagreements" % (st, len(res["failures"]), len(res["disagreements"])))
        for f in res["failures"][:3]:
            print("  still failing:", f["key"], f.get("observed"))
        return 1 if res["failures"] else 0
    res = correspond(env)
    print("replay (all streams): %d failures, %d disagreements" % (len(res["failures"]), len(res["disagreements"])))
    return 1 if (res["failures"] or res["disagreements"]) else 0
