"""C02 — memory reclamation is invisible.

ORACLE (on the implementation, independent of any model): every generated program is run in the four
configurations of `nsverif lang`; `nf` must behave exactly like `nn` and `pf` like `pn` (same printed
values, same ending).  The debug build poisons reset frames and freed pool slots with 0xDD and keeps the
UB precondition checks, so a stale read shows up as different bytes, a panic or a native crash; a
panic/crash that exists only with the frame arena is a failure.  Thorough repeats it in release.

MODEL TIE: (a) the framed configurations must agree with the extracted `Lang.run_impl` (which has no
reclamation at all); (b) `nsverif mem` (harness/src/mem.rs, counters behind cfg(naijascript_verif) in
src/runtime.rs) reports per program how many frame resets, pool returns and promotions the `nf` run
performed — a program counts as non-trivial only when it did >= 1 frame reset and >= 1 pool return;
(c) the extracted storage model `Mem.run` (theories/Mem.v) is replayed on op sequences (`nsmodel mem`)
and must report neither a fault nor a root that erases to a different value than the reclamation-free
machine, while the shipped-variant configurations must fault on the recorded witnesses; (d) round 4: the
extracted INSTRUMENTED EVALUATOR `MemEval.eval_ops` (theories/MemEval.v; proved: the ops it issues for any
program are accepted by the machine and the machine with reclamation prints run_impl's values) is run on
every generated program, corpus program and shape (`nsmodel memeval`): the values read back from the
machine's heap, the reclamation-free machine's values and the evaluator's own output must equal the
implementation's `nf` / `pf` output and ending, and the NUMBER of frame resets / pool returns / copying
promotions the issued ops imply must equal the numbers the real runtime counted (exactly on runs that
end ok; on runs ending in a runtime error the real run_inner pops one more scope, so its pool returns may
exceed the model's).

HOST STREAM (strengthening round): host values are boxed records whose strings must be persistent because
HostHandle::promote looks at the handle's address only.  `gen_host` builds programs in which a process builder is
configured with COMPUTED strings (arg, cwd, env key and value, stdin_text, program) at top level, inside helper
functions mutating an outer builder, on a builder passed in and handed back, inside loops, loops inside helpers,
nested helpers and conditionals; frame churn follows; run() happens at top level, inside helpers returning the
result directly / after binding / as derived text / inside arrays, inside loops collecting results; churn again;
then the child's view (pwd, NS_* environment, arguments, stdin via /bin/sh) and the script's view (stdout, stderr,
exit code, success) are printed.  The oracle is the same nf==nn / pf==pn differential (spawning is allowed by the
default native host policy of `nsverif lang`)."""
import os
import re

import common
import langgen
import langrun
import langcheck
from langgen import NUM, STR, BOOL, ARR, Var, Fn

TRUSTED_EXTRA = [
    "C02: theories/Mem.v is a hand transcription of Value::clone_into/promote/return_to_pool, ArenaCow::promote, "
    "overwrite_slot, define/assign/assign_index/push/pop, pop_scope, parameter binding, relocate_return_value and the "
    "loop/call frame resets at object granularity (one address per allocation)",
    "C02: theories/MemEval.v — WHICH storage operation eval_expr/exec_stmt/eval_function_call performs at which point — is a "
    "reading of src/runtime.rs written as a Coq evaluator over the Lang AST (the table in its header); it is tied to the code by "
    "outputs, endings and the three reclamation counters per program, not proved against the Rust text",
    "C02: the guarded counters in src/runtime.rs (frame resets / pool returns / promotions) are evidence only",
]
ASSUMPTIONS = [
    "host/process values are not values of the storage model (theories/Mem.v): their discipline (every string a builder stores and every captured "
    "stream is built in the persistent arena; promotion looks at the handle only) is checked by the regenerated flag src_host_discipline and by the "
    "host stream of the frame-vs-no-frame oracle, which spawns /bin/sh children",
    "read_line and the backing stores of the scope vectors (Vec<LocalSlot> in the frame arena) are not in the storage model",
    "in-place growth of a Vec that is the last allocation of its arena is modelled as a reallocation",
    "runs ending in Stack overflow or a timeout are not compared",
]
CAN_RUN_WITHOUT_MODEL = True

SIZES = [1, 2, 7, 8, 9, 15, 16, 17, 23, 24, 25, 31, 32, 33, 63, 64, 65, 119, 120, 121, 127, 128, 129, 130,
         159, 160, 161, 191, 192, 193, 223, 224, 225, 255, 256, 257, 258, 300]
UNITS = ["a", "xy", "abc", "0123456789", "Zq", "é", "-"]


def sized(r, n=None):
    """text of exactly n bytes (n from the class boundaries when not given)"""
    n = n if n is not None else r.choice(SIZES)
    u = r.choice(UNITS)
    ub = u.encode("utf-8")
    k = n // len(ub)
    s = u * k
    s += "." * (n - len(s.encode("utf-8")))
    return s


class C02Gen(langgen.Gen):
    """Bias of DESIGN.md §6 C02 on top of the shared generator."""

    P_TEMPLATE = 0.5

    def __init__(self, rng, opts=None):
        super().__init__(rng, opts)
        self.tstats = {}

    def t(self, k):
        self.tstats[k] = self.tstats.get(k, 0) + 1

    # ---- strings crossing every pool class boundary
    def str_lit(self, interp=True):
        r = self.r
        if r.random() < 0.35:
            return '"%s"' % sized(r)
        return super().str_lit(interp)

    def dyn(self, n=None):
        """an expression that builds an owned string of a boundary size at run time"""
        r = self.r
        n = n if n is not None else r.choice(SIZES)
        if n < 2:
            return '("%s" add "")' % sized(r, n)
        k = r.randint(1, n - 1)
        return '("%s" add "%s")' % (sized(r, k), sized(r, n - k))

    def sx(self):
        """some string expression"""
        r = self.r
        k = r.random()
        vs = self.strvars()
        if vs and k < 0.45:
            return r.choice(vs).name
        if k < 0.7:
            return self.dyn()
        if k < 0.8:
            return '"%s"' % sized(r)
        return self.par(self.expr(STR, 2))

    def strvars(self, assignable=False):
        vs = [v for v in self.visible(STR) if not getattr(v, "protected", False)]
        return vs

    def a_strvar(self, pad, lines):
        """an assignable string variable (declares one when none is visible)"""
        vs = self.strvars()
        if vs and self.r.random() < 0.7:
            return self.r.choice(vs)
        name = self.fresh("s")
        lines.append("%smake %s get %s" % (pad, name, self.dyn()))
        return self.declare(name, STR)

    def can_define_fn(self):
        return len(self.fn_stack) < 2

    def reg_fn(self, name, ptypes, rty, captures=(), relem=None):
        f = Fn(name, list(ptypes), rty, list(captures), not captures, relem=relem)
        f.rec = False
        f.defined = True
        self.fscopes[-1].append(f)
        return f

    # ---- statement level: a template or the shared generator
    def stmt(self, ind):
        r = self.r
        if r.random() < self.P_TEMPLATE:
            tpl = r.choice(self.TEMPLATES)
            out = getattr(self, "t_" + tpl)(ind)
            if out:
                self.t(tpl)
                return out
        return super().stmt(ind)

    TEMPLATES = ["self_assign", "call_reassign", "returns", "nested_store", "pop_reuse", "index_overwrite",
                 "interp", "deep_rec", "churn", "param_array", "many_locals", "param_string", "shout_recycle",
                 "returns", "call_reassign", "churn", "fn_array_result", "host", "empty_rows", "empty_rows", "arg_reassign", "arg_reassign"]

    def t_self_assign(self, ind):
        pad = "  " * ind
        lines = []
        x = self.a_strvar(pad, lines)
        n = x.name
        forms = ["%s get %s" % (n, n), "%s get %s add %s" % (n, n, n), "%s get %s.slice(0, %d)" % (n, n, self.r.choice([3, 8, 9, 130])),
                 '%s get "{%s}"' % (n, n), "%s get %s add %s" % (n, n, self.sx()), "%s get (%s add \"\").trim()" % (n, n)]
        for _ in range(self.r.randint(1, 3)):
            lines.append(pad + self.r.choice(forms))
        lines.append("%s%s get %s.slice(0, 300)" % (pad, n, n))      # keep repeated doubling bounded
        lines.append("%sshout(%s)" % (pad, n))
        return lines

    def t_call_reassign(self, ind):
        if not self.can_define_fn():
            return None
        pad = "  " * ind
        lines = []
        x = self.a_strvar(pad, lines)
        f = self.fresh("f")
        ret = self.r.choice(['"!"', x.name, '%s add "r"' % x.name, self.dyn(), '"%s"' % sized(self.r)])
        lines += ["%sdo %s() start" % (pad, f),
                  "%s  %s get %s" % (pad, x.name, self.r.choice([self.dyn(), '%s add "%s"' % (x.name, sized(self.r, 3)), '"%s"' % sized(self.r)])),
                  "%s  return %s" % (pad, ret),
                  "%send" % pad]
        self.reg_fn(f, [], STR, captures=[x])
        uses = ["shout(%s add %s())" % (x.name, f), "shout(%s() add %s)" % (f, x.name),
                "make %s get %s add %s() add %s" % (self.fresh("v"), x.name, f, x.name),
                "%s get %s add %s()" % (x.name, x.name, f), "shout([%s, %s(), %s])" % (x.name, f, x.name),
                'shout("{%s}" add %s())' % (x.name, f)]
        for _ in range(self.r.randint(1, 3)):
            u = self.r.choice(uses)
            if u.startswith("make "):
                self.declare(u.split()[1], STR)
            lines.append(pad + u)
        lines.append("%s%s get %s.slice(0, 300)" % (pad, x.name, x.name))
        lines.append("%sshout(%s)" % (pad, x.name))
        return lines

    def t_returns(self, ind):
        if not self.can_define_fn():
            return None
        r = self.r
        pad = "  " * ind
        lines = []
        k = r.randrange(9)
        f = self.fresh("f")
        lit = sized(r)
        if k == 0:
            lines += ["%sdo %s(p) start return p end" % (pad, f)]
            self.reg_fn(f, [STR], STR)
            call = lambda a: "%s(%s)" % (f, a)
        elif k == 1:
            lines += ["%sdo %s(p) start" % (pad, f), '%s  make s get p add "%s"' % (pad, lit), "%s  return s" % pad, "%send" % pad]
            self.reg_fn(f, [STR], STR)
            call = lambda a: "%s(%s)" % (f, a)
        elif k == 2:
            lines += ["%sdo %s(a) start return a[0] end" % (pad, f)]
            call = lambda a: '%s([%s, "%s"])' % (f, a, lit)
        elif k == 3:
            lines += ["%sdo %s(p, q) start return p add q end" % (pad, f)]
            self.reg_fn(f, [STR, STR], STR)
            call = lambda a: "%s(%s, %s)" % (f, a, self.sx())
        elif k == 4:
            lines += ['%sdo %s(p) start return [p, p add "x", [p]] end' % (pad, f)]
            call = lambda a: "%s(%s)%s" % (f, a, r.choice(["", "[0]", "[1]", "[2][0]", "[2]"]))
        elif k == 5:
            lines += ['%sdo %s() start return "%s" end' % (pad, f, lit)]
            self.reg_fn(f, [], STR)
            call = lambda a: "%s()" % f
        elif k == 6:
            lines += ["%sdo %s(p) start" % (pad, f), "%s  if to say (p.len() pass %d) start return p end" % (pad, r.choice([3, 8, 128])),
                      '%s  return p add "%s"' % (pad, lit), "%send" % pad]
            self.reg_fn(f, [STR], STR)
            call = lambda a: "%s(%s)" % (f, a)
        elif k == 7:
            lines += ["%sdo %s(p) start" % (pad, f), "%s  make i get 0" % pad, "%s  jasi (i small pass 5) start" % pad,
                      "%s    make t get p add to_string(i)" % pad, "%s    if to say (i na %d) start return t end" % (pad, r.randint(0, 5)),
                      "%s    i get i add 1" % pad, "%s  end" % pad, "%s  return p" % pad, "%send" % pad]
            self.reg_fn(f, [STR], STR)
            call = lambda a: "%s(%s)" % (f, a)
        else:
            lines += ["%sdo %s(p) start" % (pad, f), "%s  make a get [p, p add p]" % pad, "%s  make b get a.pop()" % pad,
                      "%s  a.push(b add \"%s\")" % (pad, lit), "%s  return %s" % (pad, r.choice(["a.pop()", "a[1]", "b", "a[0] add b"])), "%send" % pad]
            self.reg_fn(f, [STR], STR)
            call = lambda a: "%s(%s)" % (f, a)
        for _ in range(r.randint(1, 3)):
            m = r.random()
            c = call(self.sx())
            if m < 0.4:
                lines.append("%sshout(%s)" % (pad, c))
            elif m < 0.6 and self.strvars() and k not in (4,):
                lines.append("%s%s get %s" % (pad, r.choice(self.strvars()).name, c))
            elif m < 0.8 and k not in (4,):
                v = self.fresh("v")
                lines.append("%smake %s get %s" % (pad, v, c))
                self.declare(v, STR)
            else:
                lines.append("%sshout(%s add %s)" % (pad, self.sx(), c) if k != 4 else "%sshout(%s)" % (pad, c))
        return lines

    def t_nested_store(self, ind):
        if self.loop_depth >= 2:
            return None
        r = self.r
        pad = "  " * ind
        lines = []
        x = self.a_strvar(pad, lines)
        st, i = self.fresh("st"), self.fresh("i")
        k = r.randint(2, 6)
        lines += ["%smake %s get []" % (pad, st), "%smake %s get 0" % (pad, i), "%sjasi (%s small pass %d) start" % (pad, i, k),
                  '%s  %s.push([%s add to_string(%s), [%s, "%s"]])' % (pad, st, x.name, i, x.name, sized(r)),
                  "%s  %s get %s" % (pad, x.name, r.choice([self.dyn(), '%s add "%s"' % (x.name, sized(r, 2)), "%s.slice(1, 200)" % x.name])),
                  "%s  %s get %s add 1" % (pad, i, i), "%send" % pad,
                  "%sshout(%s)" % (pad, st), "%sshout(%s[%d][1][0])" % (pad, st, k - 1),
                  '%s%s[0][1][0] get %s[%d][0] add "!"' % (pad, st, st, k - 1),
                  "%s%s[1][1].push(%s)" % (pad, st, x.name), "%sshout(%s[0])" % (pad, st), "%sshout(%s[1])" % (pad, st)]
        self.declare(i, NUM)
        self.declare(st, ARR, elem=None, minlen=0)
        return lines

    def t_pop_reuse(self, ind):
        r = self.r
        pad = "  " * ind
        lines = []
        x = self.a_strvar(pad, lines)
        q, t = self.fresh("q"), self.fresh("t")
        lines += ["%smake %s get [%s, %s, %s]" % (pad, q, self.sx(), self.sx(), x.name),
                  "%smake %s get %s.pop()" % (pad, t, q), '%s%s.push(%s add "%s")' % (pad, q, t, sized(r, 2)),
                  "%s%s get %s.pop()" % (pad, x.name, q), "%s%s[0] get %s" % (pad, q, t), "%s%s.push(%s.pop() add %s.pop())" % (pad, q, q, q),
                  "%sshout(%s)" % (pad, q), "%sshout(%s)" % (pad, t), "%sshout(%s)" % (pad, x.name)]
        self.declare(t, STR)
        self.declare(q, ARR, elem=STR, minlen=1)
        return lines

    def t_index_overwrite(self, ind):
        if self.loop_depth >= 2:
            return None
        r = self.r
        pad = "  " * ind
        lines = []
        x = self.a_strvar(pad, lines)
        a, i = self.fresh("a"), self.fresh("i")
        k = r.randint(2, 12)
        lines += ['%smake %s get [%s, "%s", %s add "y"]' % (pad, a, x.name, sized(r), x.name),
                  "%smake %s get 0" % (pad, i), "%sjasi (%s small pass %d) start" % (pad, i, k),
                  "%s  %s[%s mod 3] get %s[(%s add 1) mod 3] add to_string(%s)" % (pad, a, i, a, i, i),
                  "%s  %s get %s add 1" % (pad, i, i), "%send" % pad, "%sshout(%s)" % (pad, a)]
        self.declare(i, NUM)
        self.declare(a, ARR, elem=STR, minlen=3)
        return lines

    def t_interp(self, ind):
        pad = "  " * ind
        lines = []
        x = self.a_strvar(pad, lines)
        y = self.fresh("y")
        lines += ["%s%s get %s" % (pad, x.name, self.sx()), '%sshout("<{%s}>")' % (pad, x.name),
                  '%smake %s get "{%s}{%s}"' % (pad, y, x.name, x.name), '%s%s get "{%s}-{%s}"' % (pad, x.name, y, x.name),
                  "%s%s get %s.slice(0, 300)" % (pad, x.name, x.name), "%sshout(%s)" % (pad, x.name)]
        self.declare(y, STR)
        return lines

    def t_deep_rec(self, ind):
        if not self.can_define_fn():
            return None
        r = self.r
        pad = "  " * ind
        f = self.fresh("f")
        u = sized(r, r.choice([1, 2, 5, 9]))
        d = r.choice([3, 8, 20, 45, 60])
        form = r.randrange(3)
        lines = ["%sdo %s(n, acc) start" % (pad, f), "%s  if to say (n small pass 1) start return acc end" % pad]
        if form == 0:
            lines += ['%s  return "%s" add %s(n minus 1, acc)' % (pad, u, f)]
        elif form == 1:
            lines += ['%s  make t get acc add "%s"' % (pad, u), "%s  return %s(n minus 1, t)" % (pad, f)]
        else:
            lines += ['%s  make t get %s(n minus 1, acc add "%s")' % (pad, f, u), "%s  return t.slice(0, 250) add to_string(n)" % pad]
        lines += ["%send" % pad, "%sshout(%s(%d, %s))" % (pad, f, d, self.sx())]
        return lines

    def t_churn(self, ind):
        if self.loop_depth >= 1:
            return None
        r = self.r
        pad = "  " * ind
        i, s, keep = self.fresh("i"), self.fresh("s"), self.fresh("k")
        n = r.choice(SIZES)
        k = r.choice([5, 10, 40, 150])
        lines = ["%smake %s get 0" % (pad, i), '%smake %s get ""' % (pad, s), "%smake %s get []" % (pad, keep),
                 "%sjasi (%s small pass %d) start" % (pad, i, k),
                 '%s  make t get "%s" add to_string(%s)' % (pad, sized(r, n), i),
                 "%s  %s get t.slice(0, %d)" % (pad, s, n + r.choice([0, 1, 2])),
                 "%s  if to say (%s mod 7 na 0) start %s.push(%s) end" % (pad, i, keep, s),
                 "%s  %s get %s add 1" % (pad, i, i), "%send" % pad, "%sshout(%s)" % (pad, s), "%sshout(%s)" % (pad, keep)]
        self.declare(i, NUM)
        self.declare(s, STR)
        self.declare(keep, ARR, elem=STR, minlen=1)
        return lines

    def t_param_array(self, ind):
        """array parameters grown / overwritten inside loops and nested calls of the callee"""
        if not self.can_define_fn():
            return None
        r = self.r
        pad = "  " * ind
        f = self.fresh("f")
        k = r.randrange(5)
        ret = r.choice(["p", "p.len()", "p[0]"])
        if k == 0:
            body = ["make i get 0", "jasi (i small pass n) start", '  p.push("e" add to_string(i))', "  i get i add 1", "end"]
        elif k == 1:
            body = ["do g() start", '  p.push("%s" add "g")' % sized(r), "end", "g()", "g()"]
        elif k == 2:
            body = ["make i get 0", "jasi (i small pass n) start", '  p[0] get p[0] add "%s"' % sized(r, 3), "  i get i add 1", "end"]
        elif k == 3:
            body = ['p.push("%s" add "y")' % sized(r), "p.push(p[0])", "make q get p.pop()", 'p[0] get q add "z"']
        else:
            body = ["make i get 0", "jasi (i small pass n) start", "  if to say (i mod 2 na 0) start p.push([to_string(i)]) end",
                    "  i get i add 1", "end"]
            ret = r.choice(["p", "p.len()"])
        lines = ["%sdo %s(p, n) start" % (pad, f)] + [pad + "  " + b for b in body] + ["%s  return %s" % (pad, ret), "%send" % pad]
        arg = r.choice(["[%s]" % self.sx(), '["%s", %s]' % (sized(r), self.sx())])
        arrs = [v for v in self.visible(ARR) if v.elem == STR and v.minlen > 0]
        if arrs and r.random() < 0.5 and k != 4:
            arg = r.choice(arrs).name
        lines.append("%sshout(%s(%s, %d))" % (pad, f, arg, r.randint(1, 6)))
        return lines

    def t_many_locals(self, ind):
        if self.loop_depth >= 2 or not self.can_define_fn():
            return None
        r = self.r
        pad = "  " * ind
        f = self.fresh("f")
        n = r.randint(5, 11)
        lines = ["%sdo %s(a) start" % (pad, f)]
        for j in range(3):
            lines.append('%s  make l%d get a add "%d"' % (pad, j, j))
        lines += ["%s  make j get 0" % pad, "%s  jasi (j small pass %d) start" % (pad, r.randint(1, 4))]
        prev = "l0"
        for j in range(n):
            lines.append("%s    make m%d get %s%s" % (pad, j, prev, r.choice(["", " add l1", ' add "%s"' % sized(r, 2)])))
            prev = "m%d" % j
        lines += ["%s    l1 get %s.slice(0, %d)" % (pad, prev, r.choice([4, 9, 130])), "%s    j get j add 1" % pad, "%s  end" % pad]
        for j in range(3, 8):
            lines.append("%s  make l%d get l%d add l1" % (pad, j, j - 1))
        lines += ["%s  return l7 add l2" % pad, "%send" % pad, "%sshout(%s(%s))" % (pad, f, self.sx())]
        self.reg_fn(f, [STR], STR)
        return lines

    def t_param_string(self, ind):
        if not self.can_define_fn():
            return None
        r = self.r
        pad = "  " * ind
        f = self.fresh("f")
        lines = ["%sdo %s(p, q) start" % (pad, f), "%s  make i get 0" % pad, "%s  jasi (i small pass %d) start" % (pad, r.randint(1, 5)),
                 "%s    p get q add p" % pad, "%s    q get p.slice(0, %d)" % (pad, r.choice([2, 8, 9, 129])), "%s    i get i add 1" % pad,
                 "%s  end" % pad, "%s  return %s" % (pad, r.choice(["p", "q", "p add q", '"{p}/{q}"'])), "%send" % pad]
        self.reg_fn(f, [STR, STR], STR)
        a = self.sx()
        b = r.choice([a, self.sx(), '"%s"' % sized(r)])
        lines.append("%sshout(%s(%s, %s))" % (pad, f, a, b))
        return lines

    def t_shout_recycle(self, ind):
        pad = "  " * ind
        lines = []
        x = self.a_strvar(pad, lines)
        for _ in range(self.r.randint(2, 4)):
            lines.append("%sshout(%s)" % (pad, self.r.choice([x.name, "[%s, %s]" % (x.name, x.name), '%s add ""' % x.name])))
            lines.append("%s%s get %s" % (pad, x.name, self.sx()))
        return lines

    def t_host(self, ind):
        """host values (process commands) are heap-backed too: returned, stored, passed and mutated.
        Only their printed form is observed (`to_string`); nothing is spawned."""
        if not self.can_define_fn() or self.loop_depth >= 1:
            return None
        r = self.r
        pad = "  " * ind
        mk, use, h, i = self.fresh("f"), self.fresh("f"), self.fresh("h"), self.fresh("i")
        lines = ["%sdo %s(p) start" % (pad, mk), "%s  make c get command(p)" % pad, '%s  c.arg("a" add p)' % pad,
                 "%s  return c" % pad, "%send" % pad,
                 "%sdo %s(q) start" % (pad, use), '%s  q.arg("%s")' % (pad, sized(r, 9)), "%s  return to_string(q)" % pad, "%send" % pad,
                 "%smake %s get %s(%s)" % (pad, h, mk, self.dyn(r.choice([3, 8, 9, 130]))),
                 "%s%s.arg(%s)" % (pad, h, self.sx()),
                 "%smake %s get 0" % (pad, i), "%sjasi (%s small pass %d) start" % (pad, i, r.randint(1, 4)),
                 '%s  %s.arg("k" add to_string(%s))' % (pad, h, i), "%s  %s get %s add 1" % (pad, i, i), "%send" % pad,
                 "%sshout(to_string(%s))" % (pad, h),
                 "%sshout(to_string([%s(%s), %s][0]))" % (pad, mk, self.dyn(4), h),
                 "%sshout(%s(%s))" % (pad, use, h), "%sshout(to_string(%s))" % (pad, h),
                 "%sshout(to_string(%s(%s)))" % (pad, mk, self.dyn(9))]
        self.declare(i, NUM)
        return lines

    def t_empty_rows(self, ind):
        """empty nested arrays (no buffer yet, but an allocator) that are grown later through an index
        receiver inside loops, callees and recursion; rows emptied by pop() and refilled; returned / passed"""
        if not self.can_define_fn() or self.loop_depth >= 1:
            return None
        r = self.r
        pad = "  " * ind
        b, i, f, g, mk = self.fresh("b"), self.fresh("i"), self.fresh("f"), self.fresh("f"), self.fresh("f")
        k = r.randint(1, 4)
        form = r.randrange(6)
        lines = []
        if form == 0:
            lines.append("%smake %s get [%s]" % (pad, b, ", ".join("[]" for _ in range(k))))
        elif form == 1:
            rows = ["[]" if r.random() < 0.6 else "[%s]" % self.sx() for _ in range(k)]
            rows[r.randrange(k)] = "[]"
            lines.append("%smake %s get [%s]" % (pad, b, ", ".join(rows)))
        elif form == 2:
            lines.append("%smake %s get []" % (pad, b))
            lines += ["%s%s.push([])" % (pad, b) for _ in range(k)]
        elif form == 3:
            lines.append("%smake %s get [%s]" % (pad, b, ", ".join("[%s]" % self.sx() for _ in range(k))))
            lines += ["%sshout(%s[%d].pop())" % (pad, b, j) for j in range(k)]
        elif form == 4:
            lines += ["%sdo %s() start return [%s] end" % (pad, mk, ", ".join("[]" for _ in range(k))),
                      "%smake %s get %s()" % (pad, b, mk)]
        else:
            lines.append("%smake %s get [[%s]]" % (pad, b, ", ".join("[]" for _ in range(k))))   # one level deeper
        deep = form == 5
        row = (lambda e: "%s[0][%s]" % (b, e)) if deep else (lambda e: "%s[%s]" % (b, e))
        item = r.choice(['"item_{%s}"' % i, '"%s" add to_string(%s)' % (sized(r), i), "%s" % i, "[to_string(%s)]" % i])
        n = r.randint(2, 9)
        route = r.randrange(5)
        if route == 0:      # loop body
            lines += ["%smake %s get 0" % (pad, i), "%sjasi (%s small pass %d) start" % (pad, i, n),
                      "%s  %s.push(%s)" % (pad, row("%s mod %d" % (i, k)), item),
                      "%s  make t get [%s, %s, %s, %s]" % (pad, i, i, i, i),
                      "%s  %s get %s add 1" % (pad, i, i), "%send" % pad]
        elif route == 1:    # callee capturing the table
            lines += ["%sdo %s(s) start" % (pad, f)] + \
                     ["%s  %s.push(s add \"-%d\")" % (pad, row(str(j)), j) for j in range(k)] + ["%send" % pad] + \
                     ["%s%s(%s)" % (pad, f, self.sx()) for _ in range(r.randint(1, 3))]
        elif route == 2:    # passed as a parameter, filled in the callee's loop, returned
            lines += ["%sdo %s(t, s) start" % (pad, f), "%s  make %s get 0" % (pad, i),
                      "%s  jasi (%s small pass %d) start" % (pad, i, n),
                      "%s    t%s.push(s add to_string(%s))" % (pad, ("[0][%s mod %d]" if deep else "[%s mod %d]") % (i, k), i),
                      "%s    %s get %s add 1" % (pad, i, i), "%s  end" % pad, "%s  return t" % pad, "%send" % pad,
                      "%s%s get %s(%s, %s)" % (pad, b, f, b, self.sx())]
        elif route == 3:    # recursion
            lines += ["%sdo %s(n) start" % (pad, f), "%s  if to say (n small pass 1) start return 0 end" % pad,
                      "%s  %s.push(\"r\" add to_string(n))" % (pad, row("n mod %d" % k)),
                      "%s  return %s(n minus 1)" % (pad, f), "%send" % pad, "%sshout(%s(%d))" % (pad, f, n)]
        else:               # loop inside a callee, plus a new empty row appended and grown
            lines += ["%sdo %s(s) start" % (pad, g), "%s  make %s get 0" % (pad, i),
                      "%s  jasi (%s small pass %d) start" % (pad, i, n),
                      "%s    %s.push(s add to_string(%s))" % (pad, row("%s mod %d" % (i, k)), i),
                      "%s    %s get %s add 1" % (pad, i, i), "%s  end" % pad, "%s  return s" % pad, "%send" % pad,
                      "%sshout(%s(%s))" % (pad, g, self.sx())]
            if not deep:
                lines += ["%s%s.push([])" % (pad, b), "%sshout(%s(%s))" % (pad, g, self.sx())]
        lines += ["%sshout(%s.len())" % (pad, row("0")), "%sshout(%s)" % (pad, b)]
        if route == 0:
            self.declare(i, NUM)
        return lines

    def t_arg_reassign(self, ind):
        """an operand / argument read first, then a LATER operand, argument, index or method argument whose
        evaluation reassigns (or pushes to / index-assigns) the same variable, before anything is bound"""
        if not self.can_define_fn():
            return None
        r = self.r
        pad = "  " * ind
        x, a = self.fresh("s"), self.fresh("a")
        gs, gn, ga, gi, f2, f2n, f3, fa = [self.fresh("f") for _ in range(8)]
        n1, n2 = r.choice([(9, 9), (16, 10), (8, 9), (9, 8), (128, 129), (129, 128), (256, 257), (257, 256), (300, 5),
                           (5, 300), (24, 24), (160, 161), (3, 3), (64, 200)])
        lines = ["%smake %s get %s" % (pad, x, self.dyn(n1)),
                 '%smake %s get [%s, "%s", %s add "y"]' % (pad, a, x, sized(r), x),
                 "%sdo %s() start" % (pad, gs), "%s  %s get %s" % (pad, x, self.dyn(n2)), '%s  return "%s"' % (pad, sized(r, 2)), "%send" % pad,
                 "%sdo %s() start" % (pad, gn), "%s  %s get %s" % (pad, x, self.dyn(n2)), "%s  return %d" % (pad, r.randint(0, 2)), "%send" % pad,
                 "%sdo %s() start" % (pad, ga), "%s  %s.push(%s)" % (pad, a, self.dyn(n2)), "%s  %s[0] get %s" % (pad, a, self.dyn(n2)),
                 "%s  return %d" % (pad, r.randint(0, 2)), "%send" % pad,
                 "%sdo %s() start" % (pad, gi), "%s  %s get [%s, %s, %s, %s]" % (pad, a, self.dyn(n2), self.dyn(n1), self.dyn(3), self.dyn(n2)),
                 "%s  return 1" % pad, "%send" % pad,
                 '%sdo %s(p, q) start return p add "#" add q end' % (pad, f2),
                 '%sdo %s(p, n) start return p add "#" add to_string(n) end' % (pad, f2n),
                 '%sdo %s(p, q, w) start return p add q add w end' % (pad, f3),
                 "%sdo %s(p, n) start return p end" % (pad, fa)]
        uses = ["shout(%s(%s, %s()))" % (f2, x, gs), "shout(%s(%s, %s()))" % (f2n, x, gn),
                "shout(%s(%s, %s(%s, %s())))" % (f2, x, f2, x, gs), "shout(%s(%s, %s(), %s))" % (f3, x, gs, x),
                'shout(%s.replace("%s", %s()))' % (x, sized(r, 1), gs), "shout(%s.slice(%s(), 300))" % (x, gn),
                "shout(%s.find(%s()))" % (x, gs), "shout(%s add %s())" % (x, gs), 'shout("{%s}" add %s())' % (x, gs),
                "shout([%s, %s(), %s])" % (x, gs, x), "shout(%s add to_string(%s()))" % (x, gn),
                "shout(%s(%s, %s()))" % (fa, a, ga), "shout(%s(%s, %s()))" % (fa, a, gi), "shout(%s[%s()])" % (a, ga),
                "shout(%s[%s()])" % (a, gi), "%s[%s()] get %s" % (a, ga, x), "%s.push(%s add to_string(%s()))" % (a, x, ga),
                "shout(%s.join(%s()))" % (a, gs), "shout(%s(%s[0], %s()))" % (f2n, a, ga),
                "make %s get %s(%s, %s())" % (self.fresh("v"), f2, x, gs)]
        for _ in range(r.randint(2, 5)):
            u = r.choice(uses)
            lines.append(pad + u)
            if r.random() < 0.5:
                lines.append("%s%s get %s" % (pad, x, self.dyn(n1)))
        lines += ["%sshout(%s)" % (pad, x), "%sshout(%s)" % (pad, a)]
        self.declare(x, STR)
        self.declare(a, ARR, elem=STR, minlen=3)
        return lines

    def t_fn_array_result(self, ind):
        if not self.can_define_fn():
            return None
        r = self.r
        pad = "  " * ind
        f, q = self.fresh("f"), self.fresh("q")
        lines = ["%sdo %s(n, s) start" % (pad, f), "%s  make out get []" % pad, "%s  make i get 0" % pad,
                 "%s  jasi (i small pass n) start" % pad, "%s    out.push(s add to_string(i))" % pad,
                 "%s    out.push([s, \"%s\"])" % (pad, sized(r)), "%s    i get i add 1" % pad, "%s  end" % pad, "%s  return out" % pad, "%send" % pad,
                 "%smake %s get %s(%d, %s)" % (pad, q, f, r.randint(1, 4), self.sx()),
                 "%sshout(%s)" % (pad, q), "%sshout(%s(2, %s)[1][0])" % (pad, f, self.sx()), "%s%s[0] get %s(1, %s)[0]" % (pad, q, f, self.sx()),
                 "%sshout(%s[0])" % (pad, q)]
        self.declare(q, ARR, elem=None, minlen=0)
        return lines


def gen_program(rng, tier):
    opts = langgen.Opts(str_long=0.3, p_loop=0.16, p_fn=0.22, p_trap=0.02, p_unused=0.05, p_dead=0.04,
                        max_stmts=10 if tier == "quick" else 16)
    g = C02Gen(rng, opts)
    src = g.program()
    return src, g.stats, g.tstats


# ---- host family: process builders configured with computed strings inside functions / loops, results of
# run() crossing call / loop boundaries, frame churn, then observation through the child (cwd, env, args,
# stdin) and through the script (stdout, stderr, exit code)
HOST_DIRS = ["usr", "etc", "tmp", "bin", "var"]
HOST_SCRIPT = "pwd; echo $NS_A:$NS_B:$NS_C; echo $@; cat; echo e:$NS_B:$1 >&2; exit 3"


class HostGen:
    def __init__(self, r):
        self.r = r
        self.n = 0
        self.lines = []
        self.results = []      # expressions denoting a process_result

    def fresh(self, p):
        self.n += 1
        return "%s%d" % (p, self.n)

    def word(self):
        """text without shell-active characters, of a pool-class boundary size now and then"""
        r = self.r
        n = r.choice([1, 2, 3, 7, 8, 9, 15, 16, 17, 31, 33, 64, 120, 129, 257])
        return sized(r, n).replace("é", "e")

    def computed(self, base=None):
        """an expression building an owned (frame) string at run time; `base` = an in-scope string expression"""
        r = self.r
        w = self.word()
        k = r.randrange(6)
        if base is None:
            base = '"%s"' % self.word()
        if k == 0:
            return '("%s" add %s)' % (w, base)
        if k == 1:
            return '(%s add "%s")' % (base, w)
        if k == 2:
            return '("%s" add to_string(%d))' % (w, r.randint(0, 99))
        if k == 3:
            return '(%s add "").to_uppercase()' % base
        if k == 4:
            return '("%s" add %s).slice(0, %d)' % (w, base, r.choice([3, 9, 17, 130]))
        return '("  %s " add %s).trim()' % (w, base)

    def text(self, base=None, lit_ok=True):
        r = self.r
        if lit_ok and r.random() < 0.2:
            return '"%s"' % self.word()
        if base is not None and r.random() < 0.3:
            return base                                    # a bare variable / parameter
        if base is not None and r.random() < 0.25:
            return '"%s{%s}"' % (self.word()[:4], base) if base.isidentifier() else self.computed(base)
        return self.computed(base)

    def dir_expr(self, base=None):
        """an expression evaluating to an existing directory; base = in-scope expression holding a HOST_DIRS name"""
        r = self.r
        if base is None:
            d = r.choice(HOST_DIRS)
            return r.choice(['("/" add "%s")' % d, '("/%s" add "")' % d, '"/%s"' % d, '("/usr/" add "bin")', '("/" add "%s").trim()' % d])
        return r.choice(['("/" add %s)' % base, '"/{%s}"' % base if base.isidentifier() else '("/" add %s)' % base,
                         '("/" add %s add "/")' % base])

    def key_expr(self, base=None):
        r = self.r
        if base is None:
            k = r.choice("ABC")
            return r.choice(['("NS_" add "%s")' % k, '"NS_%s"' % k, '("ns_%s" add "").to_uppercase()' % k.lower()])
        return r.choice(['("NS_" add %s)' % base, '"NS_{%s}"' % base if base.isidentifier() else '("NS_" add %s)' % base])

    def step(self, b, sbase=None, dbase=None, kbase=None):
        """one configuration statement on builder expression b"""
        r = self.r
        k = r.randrange(10)
        if k < 3:
            return "%s.arg(%s)" % (b, self.text(sbase))
        if k < 5:
            return "%s.cwd(%s)" % (b, self.dir_expr(dbase))
        if k < 8:
            return "%s.env(%s, %s)" % (b, self.key_expr(kbase), self.text(sbase))
        form = r.randrange(4)
        if form == 0:
            return "%s.stdin_text(%s)" % (b, self.text(sbase))
        if form == 1:
            return '%s.stdin_text([%s, %d])' % (b, self.text(sbase), r.randint(0, 9))
        if form == 2:
            return '%s.stdin_text("%s\\n%s\\n")' % (b, self.word(), self.word())
        return "%s.stdin_text(%s add %s)" % (b, self.text(sbase, lit_ok=False), self.text(sbase))

    def churn(self, pad=""):
        """allocations that land where a dead frame string was"""
        r = self.r
        out = []
        k = r.randrange(4)
        if k == 0:
            f = self.fresh("ch")
            out += ["%sdo %s(t) start" % (pad, f), '%s  make l get "/" add t' % pad, "%s  return l add l" % pad, "%send" % pad,
                    "%sshout(%s(%s).len())" % (pad, f, self.r.choice(['"etc"', '"tmp"', self.text()]))]
        elif k == 1:
            i, s = self.fresh("i"), self.fresh("s")
            out += ['%smake %s get ""' % (pad, s), "%smake %s get 0" % (pad, i), "%sjasi (%s small pass %d) start" % (pad, i, r.randint(1, 6)),
                    "%s  %s get %s add %s" % (pad, s, s, self.text()), "%s  %s get %s add 1" % (pad, i, i), "%send" % pad,
                    "%sshout(%s.len())" % (pad, s)]
        elif k == 2:
            out += ["%smake %s get [%s, %s, %s]" % (pad, self.fresh("t"), self.text(), self.text(), self.text())]
        else:
            out += ["%sshout((%s add %s).len())" % (pad, self.computed(), self.computed())]
        return out

    def configure(self, b):
        """a block of configuration steps on the top-level builder variable b, in a random context"""
        r = self.r
        L = self.lines
        ctx = r.randrange(7)
        nsteps = r.randint(1, 3)
        if ctx == 0:                                   # top level
            L += [self.step(b) for _ in range(nsteps)]
        elif ctx == 1:                                 # helper function mutating the OUTER builder
            f = self.fresh("f")
            L += ["do %s(p, d, k) start" % f] + ["  " + self.step(b, "p", "d", "k") for _ in range(nsteps)] + ["end",
                  "%s(%s, %s, %s)" % (f, self.text(), r.choice(['"%s"' % x for x in HOST_DIRS] + ['("u" add "sr")']), r.choice(['"A"', '"B"', '("C" add "")']))]
        elif ctx == 2:                                 # builder passed in and handed back
            f = self.fresh("f")
            L += ["do %s(c, p, d) start" % f] + ["  " + self.step("c", "p", "d") for _ in range(nsteps)] + ["  return c", "end",
                  "%s get %s(%s, %s, %s)" % (b, f, b, self.text(), r.choice(['"%s"' % x for x in HOST_DIRS]))]
        elif ctx == 3:                                 # loop body
            i, names, dirs = self.fresh("i"), self.fresh("ks"), self.fresh("ds")
            n = r.randint(1, 3)
            L += ['make %s get ["A", "B", "C"]' % names, 'make %s get ["usr", "etc", "tmp"]' % dirs, "make %s get 0" % i,
                  "jasi (%s small pass %d) start" % (i, n)]
            L += ["  " + self.step(b, r.choice(["to_string(%s)" % i, "%s[%s]" % (names, i)]), "%s[%s]" % (dirs, i), "%s[%s]" % (names, i))
                  for _ in range(nsteps)]
            L += ["  %s get %s add 1" % (i, i), "end"]
        elif ctx == 4:                                 # loop inside a helper on the outer builder
            f, i = self.fresh("f"), self.fresh("i")
            L += ["do %s(p, n) start" % f, '  make ks get ["A", "B", "C"]', '  make ds get ["usr", "etc", "tmp"]', "  make %s get 0" % i,
                  "  jasi (%s small pass n) start" % i]
            L += ["    " + self.step(b, r.choice(["p", "p add to_string(%s)" % i]), "ds[%s]" % i, "ks[%s]" % i) for _ in range(nsteps)]
            L += ["    %s get %s add 1" % (i, i), "  end", "end", "%s(%s, %d)" % (f, self.text(), r.randint(1, 3))]
        elif ctx == 5:                                 # nested helpers
            f, g = self.fresh("f"), self.fresh("g")
            L += ["do %s(p, d) start" % g] + ["  " + self.step(b, "p", "d") for _ in range(nsteps)] + ["end",
                  "do %s(q) start" % f, "  %s(q add %s, %s)" % (g, self.text(), r.choice(['"usr"', '"etc"'])),
                  "  make w get %s" % self.computed("q"), "  return w.len()", "end", "shout(%s(%s))" % (f, self.text())]
        else:                                          # conditional inside a helper
            f = self.fresh("f")
            L += ["do %s(p, d, on) start" % f, "  if to say (on) start"] + ["    " + self.step(b, "p", "d") for _ in range(nsteps)] + [
                  "  end", "  return p", "end", "shout(%s(%s, %s, true).len())" % (f, self.text(), r.choice(['"%s"' % x for x in HOST_DIRS]))]

    def new_builder(self):
        r = self.r
        L = self.lines
        b = self.fresh("cmd")
        prog = r.choice(['"/bin/sh"', '("/bin/" add "sh")', '"sh"', '("s" add "h")'])
        base = ['%s.arg("-c")', '%s.arg("' + HOST_SCRIPT + '")', '%s.arg("ns")', "%s.stdout_capture()", "%s.stderr_capture()", "%s.stdin_null()"]
        if r.random() < 0.35:                          # built by a function and returned (relocated as a host value)
            mk = self.fresh("mk")
            L += ["do %s(p) start" % mk, "  make c get command(p)"] + ["  " + (x % "c") for x in base]
            L += ["  return c", "end", "make %s get %s(%s)" % (b, mk, prog)]
        else:
            L += ["make %s get command(%s)" % (b, prog)] + [x % b for x in base]
        return b

    def run_site(self, b):
        """runs the builder; registers expressions that denote the result"""
        r = self.r
        L = self.lines
        k = r.randrange(7)
        if k == 0:
            v = self.fresh("res")
            L += ["make %s get %s.run()" % (v, b)]
            self.results.append(v)
        elif k == 1:                                   # run inside a helper, result returned directly
            f, v = self.fresh("rf"), self.fresh("res")
            L += ["do %s(tag) start" % f, '  make label get "/" add tag', "  return %s.run()" % b, "end",
                  "make %s get %s(%s)" % (v, f, r.choice(['"etc"', '"usr"', self.text()]))]
            self.results.append(v)
        elif k == 2:                                   # bound in the helper, then returned
            f, v = self.fresh("rf"), self.fresh("res")
            L += ["do %s(tag) start" % f, '  make label get "/" add tag', "  make res get %s.run()" % b,
                  "  shout(label.len())", "  return res", "end", "make %s get %s(%s)" % (v, f, self.text())]
            self.results.append(v)
        elif k == 3:                                   # the helper returns text derived from the result
            f = self.fresh("rf")
            L += ["do %s(tag) start" % f, '  make label get "/" add tag', "  make res get %s.run()" % b,
                  '  return label add " -> " add res.stdout() add res.stderr()', "end", "shout(%s(%s))" % (f, r.choice(['"etc"', '"usr"', self.text()]))]
        elif k == 4:                                   # results collected in a loop
            acc, i = self.fresh("acc"), self.fresh("i")
            n = r.randint(1, 3)
            L += ["make %s get []" % acc, "make %s get 0" % i, "jasi (%s small pass %d) start" % (i, n),
                  "  %s.push(%s.run())" % (acc, b), "  %s.env(%s, %s)" % (b, self.key_expr(), self.text("to_string(%s)" % i)),
                  "  %s get %s add 1" % (i, i), "end"]
            self.results += ["%s[%d]" % (acc, j) for j in range(n)]
        elif k == 5:                                   # helper returns an array holding results
            f, v = self.fresh("rf"), self.fresh("rs")
            L += ["do %s() start" % f, "  make a get %s.run()" % b, "  return [a, %s.run()]" % b, "end", "make %s get %s()" % (v, f)]
            self.results += ["%s[0]" % v, "%s[1]" % v]
        else:                                          # assigned to an outer variable from inside a loop body
            v, i = self.fresh("last"), self.fresh("i")
            L += ["make %s get %s.run()" % (v, b), "make %s get 0" % i, "jasi (%s small pass %d) start" % (i, r.randint(1, 2)),
                  "  %s get %s.run()" % (v, b), "  %s get %s add 1" % (i, i), "end"]
            self.results.append(v)

    def observe(self):
        r = self.r
        for e in self.results:
            obs = ["shout(%s.stdout())" % e, "shout(%s.stderr())" % e, "shout(%s.exit_code())" % e, "shout(%s.success())" % e]
            r.shuffle(obs)
            self.lines += obs[:r.randint(2, 4)]
            if "shout(%s.stdout())" % e not in self.lines[-4:]:
                self.lines.append("shout(%s.stdout())" % e)
        self.results = []

    def program(self):
        r = self.r
        b = self.new_builder()
        for _ in range(r.randint(1, 3)):
            self.configure(b)
            if r.random() < 0.4:
                self.lines += self.churn()
        for _ in range(r.randint(1, 2)):
            self.lines += self.churn()
        self.run_site(b)
        for _ in range(r.randint(1, 3)):
            self.lines += self.churn()
        if r.random() < 0.4:                           # reconfigure and run again
            self.configure(b)
            self.lines += self.churn()
            self.run_site(b)
            self.lines += self.churn()
        self.observe()
        return "\n".join(self.lines) + "\n"


def gen_host(r):
    return HostGen(r).program()


# fixed host programs: the shapes of the seeded changes that the first three rounds of this check missed
# (C02-c2 eval_required_string keeps the frame copy; C15-c1 stdin text formatted into the frame; C16-c1 captured
# text allocated in the frame) and their neighbours
HOST_PRELUDE = ('make cmd get command("/bin/sh")\ncmd.arg("-c")\ncmd.arg("%s")\ncmd.arg("ns")\ncmd.stdout_capture()\n'
                'cmd.stderr_capture()\ncmd.stdin_null()\n' % HOST_SCRIPT)
HOST_CORPUS = [
    HOST_PRELUDE + 'do enter(dir) start\n  cmd.cwd("/" add dir)\nend\ndo run_labelled(tag) start\n  make label get "/" add tag\n'
    '  make res get cmd.run()\n  return label add " -> " add res.stdout()\nend\nenter("usr")\nshout(run_labelled("etc"))\n',
    HOST_PRELUDE + 'make names get ["A", "B"]\nmake i get 0\njasi (i small pass names.len()) start\n'
    '  cmd.env("NS_" add names[i], "value" add to_string(i))\n  i get i add 1\nend\nmake res get cmd.run()\nshout(res.stdout())\nshout(res.stderr())\n',
    HOST_PRELUDE + 'do feed(text) start\n  cmd.stdin_text(text)\nend\nfeed("line one\\nline two\\n")\nmake n get 7\n'
    'make note get "%s report {n}"\nmake res get cmd.run()\nshout(res.success())\nshout(res.stdout())\nshout(note.len())\n' % ("=" * 300),
    'do capture(script) start\n  make c get command("/bin/sh")\n  c.arg("-c")\n  c.arg(script)\n  c.stdout_capture()\n  c.stderr_capture()\n'
    '  c.stdin_null()\n  return c.run()\nend\ndo pad(n) start\n  make s get ""\n  make i get 0\n  jasi (i small pass n) start\n    s get s add "x"\n'
    '    i get i add 1\n  end\n  return s\nend\nmake res get capture("printf hello_from_the_child; printf and_from_stderr >&2; exit 3")\n'
    'make filler get pad(40)\nshout(res.stdout())\nshout(res.stderr())\nshout(res.exit_code())\nshout(filler)\n',
    HOST_PRELUDE + 'do conf(a, k) start\n  cmd.arg(a add "-" add k)\n  cmd.env("NS_" add k, a)\n  cmd.stdin_text([a, k])\nend\n'
    'conf("one" add "two", "A")\nconf("three" add "four", "B")\nmake t get ["x" add "y", "z" add "w", "q" add "r"]\n'
    'make res get cmd.run()\nshout(res.stdout())\nshout(res.stderr())\n',
    HOST_PRELUDE + 'do runs(n) start\n  make out get []\n  make i get 0\n  jasi (i small pass n) start\n    cmd.env("NS_C", "it" add to_string(i))\n'
    '    out.push(cmd.run())\n    i get i add 1\n  end\n  return out\nend\nmake rs get runs(3)\nmake churn get ("ab" add "cd") add ("ef" add "gh")\n'
    'shout(rs[0].stdout())\nshout(rs[2].stdout())\nshout(rs[1].stderr())\nshout(rs[2].exit_code())\n',
    'do mk(p) start\n  make c get command("/bin/" add p)\n  c.arg("-c")\n  c.arg("%s")\n  c.arg("ns")\n  c.stdout_capture()\n  c.stderr_capture()\n'
    '  c.stdin_text("in-" add p)\n  c.cwd("/" add "tmp")\n  return c\nend\nmake a get mk("sh")\nmake b get mk("sh")\nb.cwd("/" add "usr")\n'
    'make filler get ("/" add "etc") add ("/" add "var")\nmake ra get a.run()\nmake rb get b.run()\nshout(ra.stdout())\nshout(rb.stdout())\n' % HOST_SCRIPT,
]


# =====================================================================================
# Shapes: tiny structured programs that are compiled BOTH to NaijaScript source and to the
# op sequence the evaluator induces on the storage model (loops unrolled, calls inlined; all
# control flow is static), so `nsverif lang` (implementation) and `nsmodel mem` (Mem.run /
# Mem.arun) can be compared value by value.

def f64_bits(x):
    import struct
    return "%016x" % struct.unpack(">Q", struct.pack(">d", float(x)))[0]


def hx(b):
    return b.hex() if b else "-"


class Shape:
    """Compiles a statement list (nested tuples, see `gen_shape`) to source text and ops."""

    def __init__(self):
        self.ids = {}
        self.ops = []
        self.fns = {}          # name -> (params, body)
        self.env = {}          # loop counters: name -> int (static values)

    def vid(self, name):
        return self.ids.setdefault(name, len(self.ids))

    # ---------------- source text
    def src_expr(self, e):
        k = e[0]
        if k == "lit":
            return '"%s"' % e[1]
        if k == "num":
            return str(e[1])
        if k == "var":
            return e[1]
        if k == "cat":
            return "(%s add %s)" % (self.src_expr(e[1]), self.src_expr(e[2]))
        if k == "str":            # to_string(counter)
            return "to_string(%s)" % e[1]
        if k == "interp":
            return '"{%s}"' % e[1]
        if k == "arr":
            return "[%s]" % ", ".join(self.src_expr(x) for x in e[1])
        if k == "idx":
            return "%s[%d]" % (self.src_expr(e[1]), e[2])
        if k == "call":
            return "%s(%s)" % (e[1], ", ".join(self.src_expr(x) for x in e[2]))
        if k == "pop":
            return "%s%s.pop()" % (e[1], "".join("[%d]" % i for i in e[2]))
        raise ValueError(k)

    def src_stmts(self, stmts, ind=0):
        pad = "  " * ind
        out = []
        for s in stmts:
            k = s[0]
            if k == "make":
                out.append("%smake %s get %s" % (pad, s[1], self.src_expr(s[2])))
            elif k == "set":
                out.append("%s%s get %s" % (pad, s[1], self.src_expr(s[2])))
            elif k == "setidx":
                out.append("%s%s%s get %s" % (pad, s[1], "".join("[%d]" % i for i in s[2]), self.src_expr(s[3])))
            elif k == "push":
                out.append("%s%s%s.push(%s)" % (pad, s[1], "".join("[%d]" % i for i in s[2]), self.src_expr(s[3])))
            elif k == "shout":
                out.append("%sshout(%s)" % (pad, self.src_expr(s[1])))
            elif k == "expr":
                out.append("%s%s" % (pad, self.src_expr(s[1])))
            elif k == "block":
                out += ["%sstart" % pad] + self.src_stmts(s[1], ind + 1) + ["%send" % pad]
            elif k == "loop":
                i, n = s[1], s[2]
                out += ["%smake %s get 0" % (pad, i), "%sjasi (%s small pass %d) start" % (pad, i, n)]
                out += self.src_stmts(s[3], ind + 1)
                out += ["%s  %s get %s add 1" % (pad, i, i), "%send" % pad]
            elif k == "ifeq":      # if to say (i na k) start ... end
                out += ["%sif to say (%s na %d) start" % (pad, s[1], s[2])] + self.src_stmts(s[3], ind + 1) + ["%send" % pad]
            elif k == "return":
                out.append("%sreturn %s" % (pad, self.src_expr(s[1])))
            elif k == "fn":
                out += ["%sdo %s(%s) start" % (pad, s[1], ", ".join(s[2]))] + self.src_stmts(s[3], ind + 1) + ["%send" % pad]
            else:
                raise ValueError(k)
        return out

    # ---------------- op trace
    def emit(self, *ws):
        self.ops.append(" ".join(str(w) for w in ws))

    def scalar_read(self, name):
        """reading a counter: a copy of a number (no storage), dropped by its consumer"""
        self.emit("read", self.vid(name))

    def ops_expr(self, e):
        k = e[0]
        if k == "lit":
            self.emit("lit", hx(e[1].encode()))
        elif k == "num":
            self.emit("num", f64_bits(e[1]))
        elif k == "var":
            self.emit("read", self.vid(e[1]))
        elif k == "cat":
            self.ops_expr(e[1])
            self.ops_expr(e[2])
            self.emit("concat")
        elif k == "str":
            # to_string(i): the counter is read (a number), then a fresh frame string is built
            self.scalar_read(e[1])
            self.emit("drop")
            self.emit("lit", hx(str(self.env[e[1]]).encode()))
            self.emit("lit", "-")
            self.emit("concat")
        elif k == "interp":
            self.emit("interp", self.vid(e[1]))
        elif k == "arr":
            for x in e[1]:
                self.ops_expr(x)
            self.emit("mkarr", len(e[1]))
        elif k == "idx":
            self.ops_expr(e[1])
            self.emit("num", f64_bits(e[2]))
            self.emit("drop")
            self.emit("index", e[2])
        elif k == "pop":
            for i in e[2]:
                self.emit("num", f64_bits(i))
                self.emit("drop")
            self.emit("pop", self.vid(e[1]), *e[2])
        elif k == "call":
            params, body = self.fns[e[1]]
            self.emit("callbegin")
            for x in e[2]:
                self.ops_expr(x)
            self.emit("callbind", *[self.vid(p) for p in params])
            self.emit("pushscope")
            ret = self.ops_stmts(body, depth=[("fn",)])
            if ret is None:
                self.emit("popscope")
            self.emit("callend")
        else:
            raise ValueError(k)

    def ops_stmts(self, stmts, depth):
        """returns 'ret' when a return was executed (the unwinding ops are already emitted)"""
        for s in stmts:
            k = s[0]
            if k == "make":
                self.ops_expr(s[2])
                self.emit("make", self.vid(s[1]))
            elif k == "set":
                self.ops_expr(s[2])
                self.emit("assign", self.vid(s[1]))
            elif k == "setidx":
                self.ops_expr(s[3])
                for i in s[2]:
                    self.emit("num", f64_bits(i))
                    self.emit("drop")
                self.emit("storeidx", self.vid(s[1]), s[2][-1], *s[2][:-1])
            elif k == "push":
                self.ops_expr(s[3])
                self.emit("promote")
                for i in s[2]:
                    self.emit("num", f64_bits(i))
                    self.emit("drop")
                self.emit("push", self.vid(s[1]), *s[2])
            elif k == "shout":
                self.ops_expr(s[1])
                self.emit("shout")
            elif k == "expr":
                self.ops_expr(s[1])
                self.emit("drop")
            elif k == "block":
                self.emit("pushscope")
                r = self.ops_stmts(s[1], depth + [("block",)])
                if r:
                    return r
                self.emit("popscope")
            elif k == "loop":
                i, n = s[1], s[2]
                self.emit("num", f64_bits(0))
                self.emit("make", self.vid(i))
                self.env[i] = 0
                while True:
                    # condition: i small pass n
                    self.scalar_read(i)
                    self.emit("num", f64_bits(n))
                    self.emit("drop")
                    self.emit("drop")
                    if not self.env[i] < n:
                        break
                    self.emit("loopiter")
                    self.emit("pushscope")
                    r = self.ops_stmts(s[3], depth + [("loop",), ("block",)])
                    if r:
                        return r
                    # i get i add 1
                    self.scalar_read(i)
                    self.emit("num", f64_bits(1))
                    self.emit("drop")
                    self.emit("drop")
                    self.env[i] += 1
                    self.emit("num", f64_bits(self.env[i]))
                    self.emit("assign", self.vid(i))
                    self.emit("popscope")
                    self.emit("loopiterend")
            elif k == "ifeq":
                self.scalar_read(s[1])
                self.emit("num", f64_bits(s[2]))
                self.emit("drop")
                self.emit("drop")
                if self.env[s[1]] == s[2]:
                    self.emit("pushscope")
                    r = self.ops_stmts(s[3], depth + [("block",)])
                    if r:
                        return r
                    self.emit("popscope")
            elif k == "return":
                self.ops_expr(s[1])
                # unwind to the function body: blocks pop their scope, loops are left without a reset
                for d in reversed(depth):
                    if d[0] == "block":
                        self.emit("popscope")
                    elif d[0] == "loop":
                        self.emit("loopexit")
                    elif d[0] == "fn":
                        self.emit("popscope")
                        break
                return "ret"
            elif k == "fn":
                self.fns[s[1]] = (s[2], s[3])
            else:
                raise ValueError(k)
        return None

    def compile(self, stmts):
        # functions are hoisted per block: register the top-level ones first
        for s in stmts:
            if s[0] == "fn":
                self.fns[s[1]] = (s[2], s[3])
        src = "\n".join(self.src_stmts(stmts)) + "\n"
        # run_inner pushes the root scope, exec_block_with_flow(root) another one
        self.emit("pushscope")
        self.ops_stmts(stmts, depth=[("block",)])
        self.emit("popscope")
        return src, list(self.ops)


def gen_shape(r):
    """A random statically-controlled program over strings and arrays of strings."""
    n = [0]

    def fresh(p):
        n[0] += 1
        return "%s%d" % (p, n[0])

    svars, avars = [], []        # visible string variables / arrays (name, depth, minlen)
    counters = []
    fns = []                     # (name, kind)
    stmts = []

    def text():
        return sized(r, r.choice([1, 2, 3, 7, 8, 9, 16, 17, 128, 129, 256, 257])).replace("é", "e")

    def sexpr(d=0, allow_call=True):
        k = r.random()
        if svars and k < 0.35:
            return ("var", r.choice(svars))
        if k < 0.5 or d > 2:
            return ("lit", text())
        if k < 0.75:
            return ("cat", sexpr(d + 1, allow_call), sexpr(d + 1, allow_call))
        if counters and k < 0.82:
            return ("cat", ("lit", text()), ("str", r.choice(counters)))
        if svars and k < 0.87:
            return ("interp", r.choice(svars))
        cands = [a for a in avars if a[1] == 1 and a[2] > 0]
        if cands and k < 0.93:
            a = r.choice(cands)
            return ("idx", ("var", a[0]), r.randrange(a[2]))
        sf = [f for f in fns if f[1] in ("id", "loc", "cat2", "lit", "looped", "elem")]
        if allow_call and sf:
            f = r.choice(sf)
            if f[1] in ("id", "loc", "looped"):
                return ("call", f[0], [sexpr(d + 1, False)])
            if f[1] == "cat2":
                return ("call", f[0], [sexpr(d + 1, False), sexpr(d + 1, False)])
            if f[1] == "elem":
                return ("call", f[0], [("arr", [sexpr(d + 1, False), ("lit", text())])])
            return ("call", f[0], [])
        return ("lit", text())

    def def_fn():
        kind = r.choice(["id", "loc", "cat2", "lit", "looped", "elem", "grow", "reassign"])
        f = fresh("f")
        if kind == "id":
            stmts.append(("fn", f, ["p"], [("return", ("var", "p"))]))
        elif kind == "loc":
            stmts.append(("fn", f, ["p"], [("make", "s", ("cat", ("var", "p"), ("lit", text()))), ("return", ("var", "s"))]))
        elif kind == "cat2":
            stmts.append(("fn", f, ["p", "q"], [("set", "p", ("cat", ("var", "q"), ("var", "p"))), ("return", ("cat", ("var", "p"), ("var", "q")))]))
        elif kind == "lit":
            stmts.append(("fn", f, [], [("return", ("lit", text()))]))
        elif kind == "looped":
            c = fresh("j")
            stmts.append(("fn", f, ["p"], [("loop", c, r.randint(1, 3), [
                ("set", "p", ("cat", ("var", "p"), ("str", c))),
                ("ifeq", c, r.randint(0, 2), [("return", ("cat", ("var", "p"), ("lit", "!")))])]),
                ("return", ("var", "p"))]))
        elif kind == "elem":
            stmts.append(("fn", f, ["a"], [("return", ("idx", ("var", "a"), 0))]))
        elif kind == "grow":
            c = fresh("j")
            stmts.append(("fn", f, ["a"], [("loop", c, r.randint(1, 4), [("push", "a", [], ("cat", ("lit", text()), ("str", c)))]),
                                            ("return", ("var", "a"))]))
        else:
            if not svars:
                return
            x = r.choice(svars)
            stmts.append(("fn", f, [], [("set", x, ("cat", ("lit", text()), ("lit", text()))), ("return", ("lit", "!"))]))
            fns.append((f, "reassign", x))
            return
        fns.append((f, kind))

    def stmt(depth, inloop):
        k = r.random()
        tables = [v for v in avars if v[1] == 2]
        if k < 0.05 and not inloop:
            # a table of (mostly empty) rows; rows are grown later through an index receiver
            a = fresh("t")
            m = r.randint(1, 3)
            rows = [("arr", []) if r.random() < 0.7 else ("arr", [sexpr(2)]) for _ in range(m)]
            avars.append((a, 2, m))
            return [("make", a, ("arr", rows))]
        if k < 0.16 and tables:
            t = r.choice(tables)
            how = r.random()
            if how < 0.6 or inloop or depth > 0:
                return [("push", t[0], [r.randrange(t[2])], sexpr(1))]
            f = fresh("f")
            body = [("push", t[0], [j], ("cat", ("var", "s"), ("lit", "-%d" % j))) for j in range(t[2])]
            stmts.append(("fn", f, ["s"], body))
            return [("expr", ("call", f, [sexpr(1, False)])), ("expr", ("call", f, [sexpr(1, False)]))]
        if k < 0.18:
            x = fresh("s")
            e = sexpr()
            svars.append(x)
            return [("make", x, e)]
        if k < 0.34 and svars:
            x = r.choice(svars)
            return [("set", x, r.choice([("var", x), ("cat", ("var", x), sexpr(1)), sexpr()]))]
        if k < 0.44:
            a = fresh("a")
            m = r.randint(1, 3)
            els = [sexpr(1) for _ in range(m)]
            avars.append((a, 1, m))
            return [("make", a, ("arr", els))]
        if k < 0.52 and [v for v in avars if v[1] == 1]:
            a = r.choice([v for v in avars if v[1] == 1])
            e = sexpr(1)
            i = avars.index(a)
            avars[i] = (a[0], 1, a[2] + (0 if inloop else 1))
            return [("push", a[0], [], e)]
        if k < 0.58 and [v for v in avars if v[1] == 1 and v[2] > 0]:
            a = r.choice([v for v in avars if v[1] == 1 and v[2] > 0])
            return [("setidx", a[0], [r.randrange(a[2])], sexpr(1))]
        if k < 0.63 and [v for v in avars if v[1] == 1 and v[2] > 1] and not inloop:
            a = r.choice([v for v in avars if v[1] == 1 and v[2] > 1])
            i = avars.index(a)
            avars[i] = (a[0], 1, a[2] - 1)
            x = fresh("s")
            svars.append(x)
            return [("make", x, ("pop", a[0], []))]
        if k < 0.75:
            return [("shout", r.choice([sexpr()] + ([("var", r.choice(avars)[0])] if avars else [])))]
        if k < 0.83 and depth < 2 and not inloop:
            c = fresh("i")
            counters.append(c)
            mark_s, mark_a = len(svars), len(avars)
            body = []
            for _ in range(r.randint(1, 3)):
                body += stmt(depth + 1, True)
            del svars[mark_s:]
            # arrays declared in the body go out of scope; pushes inside a loop change lengths: keep the
            # static bookkeeping conservative (no index reads into arrays grown in the loop are generated)
            del avars[mark_a:]
            counters.remove(c)
            return [("loop", c, r.randint(1, 4), body)]
        if k < 0.88 and depth < 2:
            mark_s, mark_a = len(svars), len(avars)
            body = []
            for _ in range(r.randint(1, 3)):
                body += stmt(depth + 1, inloop)
            del svars[mark_s:]
            del avars[mark_a:]
            return [("block", body)]
        gf = [f for f in fns if f[1] == "grow"]
        if k < 0.93 and gf:
            f = r.choice(gf)
            return [("shout", ("call", f[0], [("arr", [sexpr(1)])]))]
        rf = [f for f in fns if f[1] == "reassign" and f[2] in svars]
        c2 = [f for f in fns if f[1] == "cat2"]
        if rf and c2 and r.random() < 0.6:
            f, g = r.choice(rf), r.choice(c2)
            inner = ("call", g[0], [("var", f[2]), ("call", f[0], [])])
            return [("shout", r.choice([inner, ("call", g[0], [("var", f[2]), inner])]))]
        if rf:
            f = r.choice(rf)
            return [("shout", ("cat", ("var", f[2]), ("call", f[0], [])))]
        return [("shout", sexpr())]

    for _ in range(r.randint(1, 3)):
        def_fn()
    for _ in range(r.randint(3, 9)):
        if r.random() < 0.15:
            def_fn()
        stmts += stmt(0, False)
    for x in svars[:3]:
        stmts.append(("shout", ("var", x)))
    for a in avars[:2]:
        stmts.append(("shout", ("var", a[0])))
    return stmts


# hand-written witnesses (the defect classes of DESIGN.md §7 rows 2-5 and 26ade90): the model's variant
# configurations must see them, the repaired configuration and the implementation must not
WITNESS_SHAPES = {
    "selfassign": ([("make", "x", ("cat", ("lit", "aa"), ("lit", "bb"))), ("set", "x", ("var", "x")), ("shout", ("var", "x"))], "alias"),
    "stale_operand": ([("make", "x", ("cat", ("lit", "aa"), ("lit", "bb"))),
                       ("fn", "f", [], [("set", "x", ("cat", ("lit", "cc"), ("lit", "dd"))), ("return", ("lit", "!"))]),
                       ("shout", ("cat", ("var", "x"), ("call", "f", [])))], "alias"),
    "returned_local": ([("fn", "g", [], [("make", "s", ("cat", ("lit", "he"), ("lit", "llo"))), ("return", ("var", "s"))]),
                        ("shout", ("call", "g", []))], "alias"),
    "returned_param": ([("fn", "f", ["p"], [("return", ("var", "p"))]), ("make", "s", ("cat", ("lit", "ab"), ("lit", "cd"))),
                        ("shout", ("call", "f", [("var", "s")])), ("shout", ("var", "s"))], "alias"),
    "param_array_loop": ([("fn", "f", ["p"], [("loop", "i", 3, [("push", "p", [], ("cat", ("lit", "e"), ("str", "i")))]), ("return", ("var", "p"))]),
                          ("shout", ("call", "f", [("arr", [("lit", "q")])]))], "noparam"),
    "arg_then_reassign": ([("make", "s", ("cat", ("lit", "aa"), ("lit", "bb"))),
                           ("fn", "g", [], [("set", "s", ("cat", ("lit", "cc"), ("lit", "dd"))), ("return", ("lit", "!"))]),
                           ("fn", "f", ["p", "q"], [("return", ("cat", ("var", "p"), ("var", "q")))]),
                           ("shout", ("call", "f", [("var", "s"), ("call", "g", [])])), ("shout", ("var", "s"))], "alias"),
    "empty_rows_loop": ([("make", "b", ("arr", [("arr", []), ("arr", [])])),
                         ("loop", "i", 4, [("push", "b", [0], ("cat", ("lit", "item_"), ("str", "i"))),
                                           ("push", "b", [1], ("cat", ("lit", "x"), ("str", "i")))]),
                         ("shout", ("var", "b"))], None),
    "no_staging": ([("fn", "g", [], [("return", ("cat", ("lit", "he"), ("lit", "llo")))]), ("shout", ("call", "g", []))], "nostage"),
}


def run_mem_model(env, name, cases):
    """cases: [(id, ops)] -> {id: {"mem": {cfg: (verdict, values)}, "ref": (verdict, values)}}"""
    inp = os.path.join(env.work, name + ".mem.in")
    outp = os.path.join(env.work, name + ".mem.out")
    with open(inp, "w") as f:
        for cid, ops in cases:
            f.write("case %s\n%s\nend\n" % (cid, "\n".join(ops)))
    if os.path.exists(outp):
        os.remove(outp)
    rc, out = common.sh([common.NSMODEL, "mem", inp, outp], timeout=900)
    if rc != 0:
        raise RuntimeError("nsmodel mem failed: %s" % out[-500:])
    res = {}
    cur = None
    for l in open(outp).read().splitlines():
        if l.startswith("case "):
            cur = {"mem": {}, "ref": None}
            res[l[5:]] = cur
        elif l.startswith("mem "):
            _, cfg, rest = l.split(" ", 2)
            v, _, vals = rest.partition(" |")
            cur["mem"][cfg] = (v.strip(), vals.strip())
        elif l.startswith("ref "):
            v, _, vals = l[4:].partition(" |")
            cur["ref"] = (v.strip(), vals.strip())
    return res


def run_lang_model(env, name, impl_recs, order, stats, chunk=100):
    """`langrun.run_model` in chunks, with a large native stack for the extracted evaluator (its recursion
    depth follows loop iterations and call depth).  A chunk on which the model executable dies or is too
    slow (the extracted string search is slow on kilobyte strings) is re-run case by case; the cases that
    still fail are left inconclusive (counted)."""
    def run(tag, ids, timeout):
        inp = os.path.join(env.work, "%s.%s.model.in" % (name, tag))
        outp = os.path.join(env.work, "%s.%s.model" % (name, tag))
        with open(inp, "w") as f:
            for cid in ids:
                r = impl_recs.get(cid)
                if r and r.get("ast") and r.get("plan"):
                    f.write("case %s\n%s\n%s\nend %s\n" % (cid, r["ast"], r["plan"], cid))
        if os.path.exists(outp):
            os.remove(outp)
        cmd = "ulimit -s unlimited 2>/dev/null || ulimit -s 1000000 2>/dev/null; exec %s lang %s %s %s" % (
            common.NSMODEL, langrun.eps_hex(), inp, outp)
        rc, out = common.sh(["bash", "-c", cmd], timeout=timeout)
        if rc != 0 or not os.path.exists(outp):
            return None
        return langrun.parse_records(open(outp).read().splitlines())

    res = {}
    for k in range(0, len(order), chunk):
        ids = order[k:k + chunk]
        recs = run("c%d" % k, ids, 90)
        if recs is not None:
            res.update(recs)
            continue
        for cid in ids:
            one = run("one", [cid], 10)
            if one is None:
                stats["model_inconclusive"] = stats.get("model_inconclusive", 0) + 1
            else:
                res.update(one)
    return res


def run_memeval(env, name, impl_recs, order, fuel=60000, jobs=4):
    """`nsmodel memeval` on the ast/plan lines of the implementation records, in `jobs` parallel processes.
    -> {id: {"n"|"p": {"ops": int, "ctr": (resets, returns, promotions), "mem": (verdict, values),
                        "twin": (verdict, values), "out": (ending, values)}}}; cases whose process died or
    timed out are missing (the caller counts them as inconclusive)."""
    import subprocess
    ids = [c for c in order if impl_recs.get(c) and impl_recs[c].get("ast") and impl_recs[c].get("plan")]
    if not ids:
        return {}
    jobs = max(1, min(jobs, (len(ids) + 49) // 50))
    procs = []
    for j in range(jobs):
        part = ids[j::jobs]
        inp = os.path.join(env.work, "%s.me%d.in" % (name, j))
        outp = os.path.join(env.work, "%s.me%d.out" % (name, j))
        with open(inp, "w") as f:
            for cid in part:
                r = impl_recs[cid]
                f.write("case %s\n%s\n%s\nend %s\n" % (cid, r["ast"], r["plan"], cid))
        if os.path.exists(outp):
            os.remove(outp)
        cmd = "ulimit -s unlimited 2>/dev/null || ulimit -s 1000000 2>/dev/null; exec %s memeval %s %d %s %s" % (
            common.NSMODEL, langrun.eps_hex(), fuel, inp, outp)
        procs.append((subprocess.Popen(["bash", "-c", cmd], stdout=subprocess.DEVNULL, stderr=subprocess.DEVNULL), outp))
    res = {}
    import time
    deadline = time.time() + (150 if env.tier == "quick" else 1500)
    for pr, outp in procs:
        try:
            pr.wait(timeout=max(1, deadline - time.time()))
        except subprocess.TimeoutExpired:
            pr.kill()
        if not os.path.exists(outp):
            continue
        cur, tag, done = None, None, None
        for l in open(outp, encoding="utf-8", errors="replace").read().splitlines():
            w = l.split()
            if l.startswith("case "):
                cur = {}
                done = w[1]
                tag = None
            elif l.startswith("me ") and cur is not None:
                tag = w[1]
                cur[tag] = {"ops": int(w[3]), "ctr": (int(w[5]), int(w[6]), int(w[7]))}
            elif cur is not None and tag and w and w[0] in ("mem", "twin", "out"):
                v, _, vals = l[len(w[0]) + 1:].partition(" |")
                cur[tag][w[0]] = (v.strip(), vals.strip())
            elif l.startswith("end ") and cur is not None:
                if all(k in t for t in cur.values() for k in ("mem", "twin", "out")) and "n" in cur:
                    res[w[1]] = cur
                cur = None
    return res


def memeval_compare(rec, me, ctr, stats):
    """One program: the instrumented evaluator's machine run vs the implementation (nf with tag n, pf with tag p).
    -> list of (stream, detail) disagreements."""
    bad = []
    for tag, cfg in (("n", "nf"), ("p", "pf")):
        m = me.get(tag) or me.get("n")
        run = rec["runs"].get(cfg)
        if not m or not run:
            continue
        e_impl = langrun.ending_class(run[0])
        e_me = m["out"][0]
        e_me = "panic" if e_me.startswith("panic") else e_me
        if e_me in ("fuel", "unsupported") or e_impl in ("timeout", "crash", "err:Stack_overflow"):
            stats["not_compared"] = stats.get("not_compared", 0) + 1
            continue
        stats["runs"] = stats.get("runs", 0) + 1
        stats["ops"] = stats.get("ops", 0) + m["ops"]
        same = (m["mem"][0] == "ok" and m["twin"][0] == "ok"
                and m["mem"][1] == m["twin"][1] == m["out"][1] == run[1] and e_me == e_impl)
        if not same:
            bad.append(("memeval-vs-framed", {"cfg": cfg, "impl": [run[0][:80], run[1][:300]],
                                             "mem": m["mem"], "twin": m["twin"], "out": m["out"]}))
            continue
        stats["agree"] = stats.get("agree", 0) + 1
        c = (ctr or {}).get(cfg)
        if not c:
            continue
        stats["counter_runs"] = stats.get("counter_runs", 0) + 1
        exp = m["ctr"]
        if e_impl == "ok":
            good = (c[0], c[1], c[2]) == exp
        else:
            good = c[0] == exp[0] and c[2] == exp[2] and c[1] >= exp[1]
        if good:
            stats["counter_agree"] = stats.get("counter_agree", 0) + 1
            for k, v in zip(("resets", "returns", "promotions"), exp):
                stats[k] = stats.get(k, 0) + v
        else:
            bad.append(("memeval-counters", {"cfg": cfg, "ending": e_impl, "impl_resets_returns_promotions": list(c[:3]),
                                            "issued_ops_imply": list(exp)}))
    return bad


def run_counters(env, name, cases, cfgs=("nf",)):
    """-> {id: {cfg: (resets, returns, promotions, ending, values)}} (programs must not crash natively)"""
    inp = os.path.join(env.work, name + ".ctr.in")
    outp = os.path.join(env.work, name + ".ctr.out")
    langrun.write_cases(inp, cases)
    if os.path.exists(outp):
        os.remove(outp)
    rc, out = common.sh([common.harness_bin(False), "mem", inp, outp, ",".join(cfgs)], timeout=900)
    res = {}
    if os.path.exists(outp):
        for l in open(outp, encoding="utf-8", errors="replace").read().splitlines():
            if l.startswith("ctr "):
                head, _, vals = l.partition(" |")
                w = head.split()
                res.setdefault(w[1], {})[w[2]] = (int(w[3]), int(w[4]), int(w[5]), w[6], vals.strip())
    return res, rc


# ---- fixed corpus: every defect class seen so far (all repaired in /repo; they stay here so that a
# regression is reported again under the same key) plus the hand probes of the review
CORPUS = [
    ("owned-string-alias", 'make x get "a" add "b"\nx get x\nshout(x)\n'),
    ("owned-string-alias", 'do g() start make s get "he" add "llo" return s end\nshout(g())\n'),
    ("owned-string-alias", 'make x get "aa" add "bb"\ndo f() start x get "cc" add "dd" return "!" end\nshout(x add f())\nshout(x)\n'),
    ("owned-string-alias", 'do f(p) start return p end\nmake s get "ab" add "cd"\nshout(f(s))\nshout(f("lit"))\nshout(s)\n'),
    ("param-array-in-frame", 'do f(p) start\n  make i get 0\n  jasi (i small pass 3) start\n    p.push(i)\n    i get i add 1\n  end\n  return p\nend\nshout(f([7]))\n'),
    ("param-array-in-frame", 'do f(a) start make i get 0 jasi (i small pass 9) start i get i add 1 a.push(i) make t get [i, i, i, i, i, i, i, i] end shout(a) return 0 end shout(f([1]))\n'),
    ("param-array-in-frame", 'do f(a) start make i get 0 jasi (i small pass 40) start i get i add 1 a.push("s{i}") make t get "x" add "yyyyyyyyyyyyyyyyyyyyyyyyyyyyyy" end return a end shout(f([1]))\n'),
    ("param-array-in-frame", 'do f(p) start\n  do g() start\n    p.push("x" add "y")\n  end\n  g()\n  g()\n  return p\nend\nshout(f(["q"]))\n'),
    ("param-array-in-frame", 'do f(p) start\n  make i get 0\n  jasi (i small pass 2) start\n    p[0].push(i)\n    i get i add 1\n  end\n  return p\nend\nshout(f([[1]]))\n'),
    ("param-array-in-frame", 'do f(a, n) start\n  make i get 0\n  jasi (i small pass 3) start\n    a.push(to_string(n) add "-" add to_string(i))\n    i get i add 1\n  end\n  if to say (n small pass 1) start return a end\n  return f(a, n minus 1)\nend\nshout(f(["r"], 4))\n'),
    ("param-array-in-frame", 'do f(a) start\n  make i get 0\n  jasi (i small pass 3) start\n    make e get a.pop()\n    a.push(e add "!")\n    a.push(e)\n    i get i add 1\n  end\n  return a\nend\nshout(f(["u" add "v"]))\n'),
    ("argument-aliases-variable-slot", 'make label get "job_" add "alpha"\nmake count get 0\ndo next_label() start\n    count get count add 1\n    label get "job_" add "beta_" add to_string(count)\n    return count\nend\ndo describe(name, n) start\n    return name add "#" add to_string(n)\nend\nshout(describe(label, next_label()))\nshout(label)\n'),
    ("argument-aliases-variable-slot", 'make title get "draft " add "one"\ndo retitle() start\n    title get "a considerably longer final title " add "two"\n    return 2\nend\ndo describe(name, n) start\n    return name add "#" add to_string(n)\nend\nshout(describe(title, retitle()))\nshout(title)\n'),
    ("argument-aliases-variable-slot", 'make s get "abcdefgh" add "i"\ndo g() start s get "ABCDEFGH" add "I" return "!" end\ndo f(p, q) start return p add q end\ndo h(p, q, w) start return p add q add w end\nshout(f(s, f(s, g())))\nshout(h(s, g(), s))\nshout(s.replace("a", g()))\nshout([s, g(), s])\nshout("{s}" add g())\nshout(s)\n'),
    ("argument-aliases-variable-slot", 'make a get ["x" add "y", "lit"]\ndo g() start a.push("p" add "q") a[0] get "r" add "s" return 1 end\ndo f(p, n) start return p end\nshout(f(a, g()))\nshout(a[g()])\nshout(f(a[0], g()))\na[g()] get a[0] add "!"\nshout(a)\n'),
    ("nested-empty-row-frame-allocator", 'make buckets get [[], [], []]\nmake i get 0\njasi (i small pass 9) start\n    buckets[i mod 3].push("item_{i}")\n    i get i add 1\nend\nshout(buckets[0].len())\nshout(buckets)\n'),
    ("nested-empty-row-frame-allocator", 'make table get [[], []]\ndo add_row(label) start\n    table[0].push(label add "-a")\n    table[1].push(label add "-b")\nend\nadd_row("x")\nadd_row("y")\nshout(table[0].len())\nshout(table)\n'),
    ("nested-empty-row-frame-allocator", 'make m get []\nm.push([])\nm.push([[]])\nmake i get 0\njasi (i small pass 5) start\n  m[0].push("a" add to_string(i))\n  m[1][0].push(i)\n  make t get [i, i, i, i, i, i]\n  i get i add 1\nend\nshout(m)\n'),
    ("nested-empty-row-frame-allocator", 'do mk() start return [[], ["k" add "l"]] end\ndo fill(t, n) start\n  if to say (n small pass 1) start return t end\n  t[0].push("d" add to_string(n))\n  shout(t[1].pop())\n  t[1].push("e" add to_string(n))\n  return fill(t, n minus 1)\nend\nmake q get fill(mk(), 6)\nshout(q)\nmake i get 0\njasi (i small pass 4) start\n  q[1].pop()\n  q[1].push("z" add to_string(i))\n  q[0].push(q[1][0])\n  i get i add 1\nend\nshout(q)\n'),
    ("probe-index-swap-loop", 'make a get ["a" add "b", "c" add "d"]\nmake i get 0\njasi (i small pass 3) start\n  a[0] get a[1] add "x"\n  a[1] get a[0] add "y"\n  i get i add 1\nend\nshout(a)\n'),
    ("probe-pop-reuse", 'make a get []\nmake i get 0\njasi (i small pass 20) start\n  a.push("s" add to_string(i))\n  i get i add 1\nend\njasi (a.len() pass 10) start\n  shout(a.pop())\nend\nmake b get a.pop()\na.push("zz" add b)\nshout(a)\nshout(b)\n'),
    ("probe-deep-recursion", 'do mk(n) start\n  if to say (n small pass 1) start return "" end\n  return "ab" add mk(n minus 1)\nend\nshout(mk(30))\nmake x get mk(5)\nx get mk(3) add x\nshout(x)\n'),
    ("probe-array-result", 'do arr(n) start\n  make r get []\n  make i get 0\n  jasi (i small pass n) start\n    r.push("e" add to_string(i))\n    i get i add 1\n  end\n  return r\nend\nmake q get arr(5)\nshout(q)\nshout(arr(3)[1])\nq[0] get arr(2)[1]\nshout(q)\n'),
    ("probe-swap-vars", 'make x get "a" add "b"\nmake y get x\nx get y add x\ny get x add y\nshout(x) shout(y)\nshout("{x}-{y}")\n'),
    ("probe-param-strings", 'do f(p, q) start\n  p get q add p\n  q get p add q\n  return p add q\nend\nmake s get "12345678"\nshout(f(s, s))\nshout(f("lit", s))\nshout(s)\n'),
    ("probe-param-elem-assign", 'do f(p) start\n  p[0] get "x" add "y"\n  return p[0]\nend\nmake a get ["q" add "r"]\nshout(f(a))\nshout(a)\n'),
    ("probe-return-in-loop", 'do f(n) start\n make acc get ""\n make i get 0\n jasi (true) start\n  acc get acc add "ab"\n  if to say (i pass n) start return acc add "!" end\n  i get i add 1\n end\n return "never"\nend\nshout(f(3))\nshout(f(0) add f(2))\n'),
    ("probe-break-next", 'make out get []\nmake i get 0\njasi (i small pass 6) start\n i get i add 1\n make t get "t" add to_string(i)\n if to say (i na 2) start next end\n if to say (i na 5) start comot end\n out.push(t add t)\nend\nshout(out)\n'),
    ("probe-fn-in-loop", 'make i get 0\nmake acc get "z"\njasi (i small pass 3) start\n do g(s) start acc get acc add s return acc end\n shout(g("k" add to_string(i)))\n i get i add 1\nend\nshout(acc)\n'),
    ("probe-nested-arrays", 'do wrap(x) start return [x, [x add "!", [x]]] end\nmake store get []\nmake i get 0\njasi (i small pass 4) start\n store.push(wrap("v" add to_string(i)))\n i get i add 1\nend\nshout(store)\nstore[1][1][1][0] get store[2][0] add store[3][1][0]\nshout(store[1])\nmake pp get store.pop()\nshout(pp[1][1][0])\nshout(store.len())\n'),
    ("probe-over-256", 'make b get "%s" add "x"\nmake c get b add b\ndo id(q) start return q end\nshout(id(c).len())\nc get id(b)\nshout(c.len())\nb get "s"\nshout(c.slice(298,301))\n' % ("q" * 299)),
]


def classify(src):
    """stable key of a failing program (after shrinking)"""
    if re.search(r"\w+\(\s*\w+\s*,\s*(?:\w+\([^()]*,\s*)?\w+\(\s*\)", src) and len(src.splitlines()) <= 14 and ".push(" not in src:
        return "argument-aliases-variable-slot"
    if re.search(r"\[\s*\]", src) and re.search(r"\]\s*\.push\(", src) and not re.search(r"do\s+\w+\(\s*\w", src):
        return "nested-empty-row-frame-allocator"
    for m in re.finditer(r"do\s+\w+\(([^)]*)\)\s+start", src):
        for p in [x.strip() for x in m.group(1).split(",") if x.strip()]:
            if re.search(r"\b%s(\[[^\]]*\])*\.(push|pop)\(" % re.escape(p), src):
                return "param-array-in-frame"
    return "nf-differs:" + common.chash(src)


def oracle(rec):
    """-> list of (kind, detail) failures of the property on one implementation record"""
    bad = []
    for a, b in (("nf", "nn"), ("pf", "pn")):
        if a not in rec["runs"] or b not in rec["runs"]:
            continue
        ea, eb = langrun.ending_class(rec["runs"][a][0]), langrun.ending_class(rec["runs"][b][0])
        if eb in ("panic", "crash"):
            continue        # the frame-less run itself dies: not a reclamation question (C06/C08)
        if ea == "timeout" and eb != "timeout":
            rec.setdefault("framed_only_timeout", []).append(a)   # counted, never a verdict (DESIGN §3)
        sb = langcheck.same_behaviour(rec, a, b)
        if sb is False:
            bad.append((a, {"with_frame": (langrun.panic_text(rec["runs"][a][0])[:200], rec["runs"][a][1][:300]),
                            "without": (rec["runs"][b][0][:80], rec["runs"][b][1][:300])}))
    return bad


def shrink(env, src, release=False, budget=90.0):
    """greedy line removal while the oracle still fails; bounded in time (a stale read can also hang)"""
    import time
    lines = src.splitlines()
    t0 = time.time()

    def pred(ls):
        if time.time() - t0 > budget:
            return False
        recs = langrun.run_impl(env, "shr", [("s", "\n".join(ls) + "\n")], ["nn", "nf"], release=release, timeout=15)
        r = recs.get("s")
        return bool(r and r.get("accepted") and oracle(r))
    if len(lines) > 60 or not pred(lines):
        return src
    return "\n".join(common.ddmin_lines(lines, pred, keep_head=0)) + "\n"


def correspond(env, searching=False, model=True):
    tier = env.tier
    n_prog = 1000 if tier == "quick" else 12000
    n_shape = 300 if tier == "quick" else 4000
    if searching:
        n_prog = int(n_prog * 1.5)
    rng = env.rng
    failures, disagreements, samples = [], [], []
    extra = {"templates": {}, "endings": {}, "frontend_crashes": 0, "inconclusive": 0}
    evaluations = 0
    nontrivial = set()
    counted = {"resets": 0, "returns": 0, "promotions": 0}
    memeval_stats = {}
    shrinks = [0]

    def fail(key, src, observed, profile):
        if any(f["key"] == key for f in failures):
            return
        failures.append({"key": key, "case": src, "observed": observed, "profile": profile})

    profiles = [False] if tier == "quick" else [False, True]
    if True in profiles:
        ok, out = common.build_harness(release=True)
        if not ok:
            raise RuntimeError("release harness build failed: " + out[-1500:])

    # ---------------- stream 1: corpus + generated programs, oracle on the implementation
    cases = [("corpus%d" % i, src) for i, (_, src) in enumerate(CORPUS)]
    corpus_key = {"corpus%d" % i: k for i, (k, _) in enumerate(CORPUS)}
    while len(cases) < len(CORPUS) + n_prog:
        src, st, tst = gen_program(rng, tier)
        for k, v in tst.items():
            extra["templates"][k] = extra["templates"].get(k, 0) + v
        cases.append(("g%d" % len(cases), src))
    shard = 500
    for release in profiles:
        for s0 in range(0, len(cases), shard):
            part = cases[s0:s0 + shard]
            recs = langrun.run_impl(env, "p%d_%d" % (int(release), s0), part, langrun.CFGS, release=release, timeout=240)
            ok_cases = []
            for cid, src in part:
                r = recs.get(cid)
                if not r:
                    continue
                if r.get("crash") and r["crash"][0] == "frontend":
                    extra["frontend_crashes"] += 1
                    continue
                if not r.get("accepted"):
                    continue
                evaluations += 1
                for c, (e, _) in r["runs"].items():
                    k = langrun.ending_class(e)
                    extra["endings"][k] = extra["endings"].get(k, 0) + 1
                bad = oracle(r)
                if r.get("framed_only_timeout"):
                    extra["framed_only_timeouts"] = extra.get("framed_only_timeouts", 0) + 1
                if bad:
                    extra["oracle_failures_total"] = extra.get("oracle_failures_total", 0) + 1
                    if cid in corpus_key:
                        small, key = src, corpus_key[cid]
                    elif shrinks[0] < 4:
                        shrinks[0] += 1
                        small = shrink(env, src, release)
                        key = classify(small)
                    elif len(failures) < 10:
                        small, key = src, classify(src)
                    else:
                        continue
                    fail(key, small, {"differs": bad[0][0], "detail": bad[0][1]}, "release" if release else "debug")
                    continue
                if any(langrun.ending_class(e) in ("panic", "crash") for e, _ in r["runs"].values()):
                    extra["inconclusive"] += 1
                    continue
                ok_cases.append((cid, src))
            if release:
                continue
            # ---- model tie (a): the framed configurations agree with Lang.run_impl (no reclamation)
            if model and ok_cases:
                mrecs = run_lang_model(env, "m%d" % s0, recs, [c for c, _ in ok_cases], extra)
                for cid, src in ok_cases:
                    st, detail = langcheck.compare(recs[cid], mrecs.get(cid), cfgs=("nf", "pf"))
                    if st == "disagree" and len(disagreements) < 5:
                        disagreements.append({"stream": "lang-model-vs-framed", "case": src, "detail": detail})
            # ---- model tie (b): counters — did the run exercise reclamation at all?
            ctr, rc = run_counters(env, "c%d" % s0, ok_cases, ("nf", "pf") if model else ("nf",))
            # ---- model tie (d): the instrumented evaluator — machine output and implied counters
            if model and ok_cases:
                me = run_memeval(env, "e%d" % s0, recs, [c for c, _ in ok_cases])
                for cid, src in ok_cases:
                    if cid not in me:
                        memeval_stats["missing"] = memeval_stats.get("missing", 0) + 1
                        continue
                    for stream, detail in memeval_compare(recs[cid], me[cid], ctr.get(cid), memeval_stats):
                        if sum(1 for d in disagreements if d["stream"] == stream) < 3:
                            disagreements.append({"stream": stream, "case": src, "detail": detail})
            for cid, src in ok_cases:
                c = ctr.get(cid, {}).get("nf")
                if not c:
                    continue
                counted["resets"] += c[0]
                counted["returns"] += c[1]
                counted["promotions"] += c[2]
                nf = recs[cid]["runs"].get("nf")
                if nf and (c[3], c[4]) != (langrun.ending_class(nf[0]), nf[1]) and len(disagreements) < 5:
                    disagreements.append({"stream": "counters-run-vs-lang-run", "case": src, "detail": [c[3:], nf]})
                if c[0] >= 1 and c[1] >= 1:
                    nontrivial.add(common.chash(src))
                    if len(samples) < 3 and len(src) < 700:
                        samples.append({"program": src, "frame_resets": c[0], "pool_returns": c[1], "promotions": c[2],
                                        "nf": recs[cid]["runs"]["nf"][1][:200]})

    # ---------------- stream 2: shapes — implementation vs Mem.run vs Mem.arun
    shape_stats = {"shapes": 0, "agree": 0, "variant_faults": {"alias": 0, "noparam": 0, "nostage": 0}, "ill": 0}
    if model:
        shapes = []
        for name, (st, _) in sorted(WITNESS_SHAPES.items()):
            src, ops = Shape().compile(st)
            shapes.append(("w_" + name, src, ops))
        for i in range(n_shape):
            src, ops = Shape().compile(gen_shape(rng))
            shapes.append(("s%d" % i, src, ops))
        recs = langrun.run_impl(env, "shapes", [(c, s) for c, s, _ in shapes], ["nn", "nf"], timeout=600)
        mres = run_mem_model(env, "shapes", [(c, o) for c, _, o in shapes])
        sh_ok = [(c, s_) for c, s_, _ in shapes if recs.get(c) and recs[c].get("accepted")
                 and not any(langrun.ending_class(e) in ("panic", "crash") for e, _ in recs[c]["runs"].values())]
        sh_ctr, _ = run_counters(env, "shapes", sh_ok, ("nf",))
        sh_me = run_memeval(env, "shapes", recs, [c for c, _ in sh_ok])
        for cid, src in sh_ok:
            if cid not in sh_me:
                memeval_stats["missing"] = memeval_stats.get("missing", 0) + 1
                continue
            for stream, detail in memeval_compare(recs[cid], sh_me[cid], sh_ctr.get(cid), memeval_stats):
                if sum(1 for d in disagreements if d["stream"] == stream) < 3:
                    disagreements.append({"stream": stream, "case": src, "detail": detail})
        for cid, src, ops in shapes:
            r, m = recs.get(cid), mres.get(cid)
            if not r or not r.get("accepted") or not m:
                if r and r.get("accepted") is False and len(disagreements) < 5:
                    disagreements.append({"stream": "shape-rejected", "case": src, "detail": r["diags"][:2]})
                continue
            shape_stats["shapes"] += 1
            evaluations += 1
            bad = oracle(r)
            if bad:
                fail(classify(src), src, {"differs": bad[0][0], "detail": bad[0][1]}, "debug")
                continue
            nf = r["runs"].get("nf", ("missing", ""))
            rep = m["mem"].get("repaired", ("missing", ""))
            ref = m["ref"] or ("missing", "")
            if rep[0] == "ill" or ref[0] == "ill":
                shape_stats["ill"] += 1
                if langrun.ending_class(nf[0]) == "ok" and len(disagreements) < 5:
                    disagreements.append({"stream": "shape-trace-ill-formed", "case": src, "ops": ops[:80], "detail": [rep, ref]})
                continue
            if langrun.ending_class(nf[0]) != "ok":
                continue
            if not (rep[0] == "ok" and ref[0] == "ok" and rep[1] == ref[1] == nf[1]):
                if len(disagreements) < 5:
                    disagreements.append({"stream": "mem-model-vs-framed", "case": src, "detail": {"impl_nf": nf, "mem": rep, "ref": ref}})
                continue
            shape_stats["agree"] += 1
            for v in ("alias", "noparam", "nostage"):
                mv = m["mem"].get(v, ("missing", ""))
                if mv[0] != "ok" or mv[1] != ref[1]:
                    shape_stats["variant_faults"][v] += 1
            if cid.startswith("w_") and WITNESS_SHAPES[cid[2:]][1]:
                want = WITNESS_SHAPES[cid[2:]][1]
                mv = m["mem"].get(want, ("missing", ""))
                if mv[0] == "ok" and mv[1] == ref[1] and len(disagreements) < 5:
                    disagreements.append({"stream": "mem-model-blind-to-witness", "case": src, "detail": {want: mv}})

    # ---------------- stream 3: host values — builders configured with computed strings inside functions / loops,
    # results of run() crossing call and loop boundaries, frame churn, then observation through the child and the script
    host_stats = {"programs": 0, "accepted": 0, "rejected": 0, "oracle_failures": 0, "child_output_seen": 0}
    n_host = 120 if tier == "quick" else 1200
    hcases = [("hc%d" % i, src) for i, src in enumerate(HOST_CORPUS)]
    while len(hcases) < len(HOST_CORPUS) + n_host:
        hcases.append(("h%d" % len(hcases), gen_host(rng)))
    for release in profiles:
        for s0 in range(0, len(hcases), 200):
            part = hcases[s0:s0 + 200]
            recs = langrun.run_impl(env, "host%d_%d" % (int(release), s0), part, langrun.CFGS, release=release, timeout=300)
            for cid, src in part:
                r = recs.get(cid)
                if not r:
                    continue
                host_stats["programs"] += 1
                if not r.get("accepted"):
                    host_stats["rejected"] += 1
                    if sum(1 for d in disagreements if d["stream"] == "host-program-rejected") < 2:
                        disagreements.append({"stream": "host-program-rejected", "case": src, "detail": (r.get("diags") or [])[:2]})
                    continue
                host_stats["accepted"] += 1
                evaluations += 1
                bad = oracle(r)
                if bad:
                    host_stats["oracle_failures"] += 1
                    small = src
                    if shrinks[0] < 4:
                        shrinks[0] += 1
                        small = shrink(env, src, release)
                    fail("host-value-frame-storage", small, {"differs": bad[0][0], "detail": bad[0][1]}, "release" if release else "debug")
                    continue
                nf = r["runs"].get("nf")
                if nf and langrun.ending_class(nf[0]) == "ok" and "s:" in nf[1]:
                    host_stats["child_output_seen"] += 1
                    if not release:
                        nontrivial.add(common.chash(src))
    extra["host_stream"] = host_stats

    extra["reclamation_counters_total"] = counted
    extra["shape_stream"] = shape_stats
    extra["memeval_stream"] = memeval_stats
    extra["profiles"] = ["debug"] + (["release"] if True in profiles else [])
    return {
        "evaluations": evaluations,
        "distinct_nontrivial": len(nontrivial),
        "rule": "oracle: nf==nn and pf==pn (values + ending; debug build with 0xDD poisoning, thorough also release) on the fixed "
                "corpus and on generated programs biased as in DESIGN §6 C02; non-trivial = distinct accepted program whose nf run "
                "performed >= 1 frame reset AND >= 1 pool-slot return (guarded counters); model ties: nf/pf vs extracted "
                "Lang.run_impl, and statically-controlled shapes compiled to op sequences: implementation nf output == "
                "Mem.run(repaired) output == Mem.arun output, witnesses must fault under the shipped-variant configurations; "
                "instrumented evaluator (MemEval.eval_ops) on every corpus/generated program and shape: values read back from the "
                "machine with reclamation == reclamation-free machine == evaluator output == implementation nf/pf output, same "
                "ending, and frame resets / pool returns / promotions implied by the issued ops == the runtime's counters; host stream: "
                "process builders configured with computed strings (arg/cwd/env key+value/stdin_text/program) inside functions, loops and "
                "nested helpers on outer builders or builders passed in and returned, results of run() returned / bound / stored from "
                "functions and loops, frame churn, then the child's view (pwd, environment, arguments, stdin) and the script's view "
                "(stdout, stderr, exit code) — same nf==nn / pf==pn oracle with process spawning enabled; non-trivial also = host program "
                "whose child output was observed",
        "samples": samples,
        "failures": failures,
        "disagreements": disagreements,
        "extra": extra,
    }


def replay(env, payload):
    common.refresh_tables()
    case = payload.get("case") or {}
    src = case.get("case") if isinstance(case, dict) else None
    if not src:
        d = (payload.get("disagreements") or [{}])[0]
        src = d.get("case")
    if not src:
        print("replay: no concrete program in this file (obligations: %s)" % payload.get("no_longer_checks"))
        return 1
    release = isinstance(case, dict) and case.get("profile") == "release"
    if release:
        common.build_harness(release=True)
    recs = langrun.run_impl(env, "replay", [("r", src)], langrun.CFGS, release=release, timeout=120)
    r = recs.get("r")
    if not r or not r.get("accepted"):
        print("replay: program not accepted any more")
        return 1
    for c in langrun.CFGS:
        if c in r["runs"]:
            print("%s: %s | %s" % (c, langrun.panic_text(r["runs"][c][0])[:200], r["runs"][c][1][:400]))
    bad = oracle(r)
    print("replay: %s" % ("still failing (%s differs)" % bad[0][0] if bad else "passes now"))
    return 1 if bad else 0
