"""C02 — memory reclamation is invisible.

ORACLE (on the implementation, independent of any model): every generated program is run in the four
configurations of `nsverif lang`; `nf` must behave exactly like `nn` and `pf` like `pn` (same printed
values, same ending).  The debug build poisons reset frames and freed pool slots with 0xDD and keeps the
UB precondition checks, so a stale read shows up as different bytes, a panic or a native crash; a
panic/crash that exists only with the frame arena is a failure.  Thorough repeats it in release.

MODEL TIE: (a) the framed configurations must agree with the extracted `Lang.run_impl` (which has no
reclamation at all); (b) `nsverif mem` (harness/src/mem.rs, counters behind cfg(naijascript_verif) in
src/runtime.rs) reports per program how many frame resets, pool returns and promotions the `nf` run
performed — a program counts as non-trivial only when it did >= 1 frame reset and >= 1 pool return;
(c) the extracted storage model `Mem.run` (theories/Mem.v) is replayed on op sequences (`nsmodel mem`)
and must report neither a fault nor a root that erases to a different value than the reclamation-free
machine, while the shipped-variant configurations must fault on the recorded witnesses."""
import os
import re

import common
import langgen
import langrun
import langcheck
from langgen import NUM, STR, BOOL, ARR, Var, Fn

TRUSTED_EXTRA = [
    "C02: theories/Mem.v is a hand transcription of Value::clone_into/promote/return_to_pool, ArenaCow::promote, "
    "overwrite_slot, define/assign/assign_index/push/pop, pop_scope, parameter binding, relocate_return_value and the "
    "loop/call frame resets at object granularity (one address per allocation); the op-sequence discipline is my reading "
    "of eval_expr/exec_stmt/eval_function_call",
    "C02: the guarded counters in src/runtime.rs (frame resets / pool returns / promotions) are evidence only",
]
ASSUMPTIONS = [
    "host/process values, read_line and the backing stores of the scope vectors (Vec<LocalSlot> in the frame arena) are not in the storage model",
    "in-place growth of a Vec that is the last allocation of its arena is modelled as a reallocation",
    "runs ending in Stack overflow or a timeout are not compared",
]
CAN_RUN_WITHOUT_MODEL = True

SIZES = [1, 2, 7, 8, 9, 15, 16, 17, 23, 24, 25, 31, 32, 33, 63, 64, 65, 119, 120, 121, 127, 128, 129, 130,
         159, 160, 161, 191, 192, 193, 223, 224, 225, 255, 256, 257, 258, 300]
UNITS = ["a", "xy", "abc", "0123456789", "Zq", "é", "-"]


def sized(r, n=None):
    """text of exactly n bytes (n from the class boundaries when not given)"""
    n = n if n is not None else r.choice(SIZES)
    u = r.choice(UNITS)
    ub = u.encode("utf-8")
    k = n // len(ub)
    s = u * k
    s += "." * (n - len(s.encode("utf-8")))
    return s


class C02Gen(langgen.Gen):
    """Bias of DESIGN.md §6 C02 on top of the shared generator."""

    P_TEMPLATE = 0.5

    def __init__(self, rng, opts=None):
        super().__init__(rng, opts)
        self.tstats = {}

    def t(self, k):
        self.tstats[k] = self.tstats.get(k, 0) + 1

    # ---- strings crossing every pool class boundary
    def str_lit(self, interp=True):
        r = self.r
        if r.random() < 0.35:
            return '"%s"' % sized(r)
        return super().str_lit(interp)

    def dyn(self, n=None):
        """an expression that builds an owned string of a boundary size at run time"""
        r = self.r
        n = n if n is not None else r.choice(SIZES)
        if n < 2:
            return '("%s" add "")' % sized(r, n)
        k = r.randint(1, n - 1)
        return '("%s" add "%s")' % (sized(r, k), sized(r, n - k))

    def sx(self):
        """some string expression"""
        r = self.r
        k = r.random()
        vs = self.strvars()
        if vs and k < 0.45:
            return r.choice(vs).name
        if k < 0.7:
            return self.dyn()
        if k < 0.8:
            return '"%s"' % sized(r)
        return self.par(self.expr(STR, 2))

    def strvars(self, assignable=False):
        vs = [v for v in self.visible(STR) if not getattr(v, "protected", False)]
        return vs

    def a_strvar(self, pad, lines):
        """an assignable string variable (declares one when none is visible)"""
        vs = self.strvars()
        if vs and self.r.random() < 0.7:
            return self.r.choice(vs)
        name = self.fresh("s")
        lines.append("%smake %s get %s" % (pad, name, self.dyn()))
        return self.declare(name, STR)

    def can_define_fn(self):
        return len(self.fn_stack) < 2

    def reg_fn(self, name, ptypes, rty, captures=(), relem=None):
        f = Fn(name, list(ptypes), rty, list(captures), not captures, relem=relem)
        f.rec = False
        f.defined = True
        self.fscopes[-1].append(f)
        return f

    # ---- statement level: a template or the shared generator
    def stmt(self, ind):
        r = self.r
        if r.random() < self.P_TEMPLATE:
            tpl = r.choice(self.TEMPLATES)
            out = getattr(self, "t_" + tpl)(ind)
            if out:
                self.t(tpl)
                return out
        return super().stmt(ind)

    TEMPLATES = ["self_assign", "call_reassign", "returns", "nested_store", "pop_reuse", "index_overwrite",
                 "interp", "deep_rec", "churn", "param_array", "many_locals", "param_string", "shout_recycle",
                 "returns", "call_reassign", "churn", "fn_array_result"]

    def t_self_assign(self, ind):
        pad = "  " * ind
        lines = []
        x = self.a_strvar(pad, lines)
        n = x.name
        forms = ["%s get %s" % (n, n), "%s get %s add %s" % (n, n, n), "%s get %s.slice(0, %d)" % (n, n, self.r.choice([3, 8, 9, 130])),
                 '%s get "{%s}"' % (n, n), "%s get %s add %s" % (n, n, self.sx()), "%s get (%s add \"\").trim()" % (n, n)]
        for _ in range(self.r.randint(1, 3)):
            lines.append(pad + self.r.choice(forms))
        lines.append("%sshout(%s)" % (pad, n))
        return lines

    def t_call_reassign(self, ind):
        if not self.can_define_fn():
            return None
        pad = "  " * ind
        lines = []
        x = self.a_strvar(pad, lines)
        f = self.fresh("f")
        ret = self.r.choice(['"!"', x.name, '%s add "r"' % x.name, self.dyn(), '"%s"' % sized(self.r)])
        lines += ["%sdo %s() start" % (pad, f),
                  "%s  %s get %s" % (pad, x.name, self.r.choice([self.dyn(), '%s add "%s"' % (x.name, sized(self.r, 3)), '"%s"' % sized(self.r)])),
                  "%s  return %s" % (pad, ret),
                  "%send" % pad]
        self.reg_fn(f, [], STR, captures=[x])
        uses = ["shout(%s add %s())" % (x.name, f), "shout(%s() add %s)" % (f, x.name),
                "make %s get %s add %s() add %s" % (self.fresh("v"), x.name, f, x.name),
                "%s get %s add %s()" % (x.name, x.name, f), "shout([%s, %s(), %s])" % (x.name, f, x.name),
                'shout("{%s}" add %s())' % (x.name, f)]
        for _ in range(self.r.randint(1, 3)):
            u = self.r.choice(uses)
            if u.startswith("make "):
                self.declare(u.split()[1], STR)
            lines.append(pad + u)
        lines.append("%sshout(%s)" % (pad, x.name))
        return lines

    def t_returns(self, ind):
        if not self.can_define_fn():
            return None
        r = self.r
        pad = "  " * ind
        lines = []
        k = r.randrange(9)
        f = self.fresh("f")
        lit = sized(r)
        if k == 0:
            lines += ["%sdo %s(p) start return p end" % (pad, f)]
            self.reg_fn(f, [STR], STR)
            call = lambda a: "%s(%s)" % (f, a)
        elif k == 1:
            lines += ["%sdo %s(p) start" % (pad, f), '%s  make s get p add "%s"' % (pad, lit), "%s  return s" % pad, "%send" % pad]
            self.reg_fn(f, [STR], STR)
            call = lambda a: "%s(%s)" % (f, a)
        elif k == 2:
            lines += ["%sdo %s(a) start return a[0] end" % (pad, f)]
            call = lambda a: '%s([%s, "%s"])' % (f, a, lit)
        elif k == 3:
            lines += ["%sdo %s(p, q) start return p add q end" % (pad, f)]
            self.reg_fn(f, [STR, STR], STR)
            call = lambda a: "%s(%s, %s)" % (f, a, self.sx())
        elif k == 4:
            lines += ['%sdo %s(p) start return [p, p add "x", [p]] end' % (pad, f)]
            call = lambda a: "%s(%s)%s" % (f, a, r.choice(["", "[0]", "[1]", "[2][0]", "[2]"]))
        elif k == 5:
            lines += ['%sdo %s() start return "%s" end' % (pad, f, lit)]
            self.reg_fn(f, [], STR)
            call = lambda a: "%s()" % f
        elif k == 6:
            lines += ["%sdo %s(p) start" % (pad, f), "%s  if to say (p.len() pass %d) start return p end" % (pad, r.choice([3, 8, 128])),
                      '%s  return p add "%s"' % (pad, lit), "%send" % pad]
            self.reg_fn(f, [STR], STR)
            call = lambda a: "%s(%s)" % (f, a)
        elif k == 7:
            lines += ["%sdo %s(p) start" % (pad, f), "%s  make i get 0" % pad, "%s  jasi (i small pass 5) start" % pad,
                      "%s    make t get p add to_string(i)" % pad, "%s    if to say (i na %d) start return t end" % (pad, r.randint(0, 5)),
                      "%s    i get i add 1" % pad, "%s  end" % pad, "%s  return p" % pad, "%send" % pad]
            self.reg_fn(f, [STR], STR)
            call = lambda a: "%s(%s)" % (f, a)
        else:
            lines += ["%sdo %s(p) start" % (pad, f), "%s  make a get [p, p add p]" % pad, "%s  make b get a.pop()" % pad,
                      "%s  a.push(b add \"%s\")" % (pad, lit), "%s  return %s" % (pad, r.choice(["a.pop()", "a[1]", "b", "a[0] add b"])), "%send" % pad]
            self.reg_fn(f, [STR], STR)
            call = lambda a: "%s(%s)" % (f, a)
        for _ in range(r.randint(1, 3)):
            m = r.random()
            c = call(self.sx())
            if m < 0.4:
                lines.append("%sshout(%s)" % (pad, c))
            elif m < 0.6 and self.strvars() and k not in (4,):
                lines.append("%s%s get %s" % (pad, r.choice(self.strvars()).name, c))
            elif m < 0.8 and k not in (4,):
                v = self.fresh("v")
                lines.append("%smake %s get %s" % (pad, v, c))
                self.declare(v, STR)
            else:
                lines.append("%sshout(%s add %s)" % (pad, self.sx(), c) if k != 4 else "%sshout(%s)" % (pad, c))
        return lines

    def t_nested_store(self, ind):
        if self.loop_depth >= 2:
            return None
        r = self.r
        pad = "  " * ind
        lines = []
        x = self.a_strvar(pad, lines)
        st, i = self.fresh("st"), self.fresh("i")
        k = r.randint(2, 6)
        lines += ["%smake %s get []" % (pad, st), "%smake %s get 0" % (pad, i), "%sjasi (%s small pass %d) start" % (pad, i, k),
                  '%s  %s.push([%s add to_string(%s), [%s, "%s"]])' % (pad, st, x.name, i, x.name, sized(r)),
                  "%s  %s get %s" % (pad, x.name, r.choice([self.dyn(), '%s add "%s"' % (x.name, sized(r, 2)), "%s.slice(1, 200)" % x.name])),
                  "%s  %s get %s add 1" % (pad, i, i), "%send" % pad,
                  "%sshout(%s)" % (pad, st), "%sshout(%s[%d][1][0])" % (pad, st, k - 1),
                  '%s%s[0][1][0] get %s[%d][0] add "!"' % (pad, st, st, k - 1),
                  "%s%s[1][1].push(%s)" % (pad, st, x.name), "%sshout(%s[0])" % (pad, st), "%sshout(%s[1])" % (pad, st)]
        self.declare(i, NUM)
        self.declare(st, ARR, elem=None, minlen=0)
        return lines

    def t_pop_reuse(self, ind):
        r = self.r
        pad = "  " * ind
        lines = []
        x = self.a_strvar(pad, lines)
        q, t = self.fresh("q"), self.fresh("t")
        lines += ["%smake %s get [%s, %s, %s]" % (pad, q, self.sx(), self.sx(), x.name),
                  "%smake %s get %s.pop()" % (pad, t, q), '%s%s.push(%s add "%s")' % (pad, q, t, sized(r, 2)),
                  "%s%s get %s.pop()" % (pad, x.name, q), "%s%s[0] get %s" % (pad, q, t), "%s%s.push(%s.pop() add %s.pop())" % (pad, q, q, q),
                  "%sshout(%s)" % (pad, q), "%sshout(%s)" % (pad, t), "%sshout(%s)" % (pad, x.name)]
        self.declare(t, STR)
        self.declare(q, ARR, elem=STR, minlen=1)
        return lines

    def t_index_overwrite(self, ind):
        if self.loop_depth >= 2:
            return None
        r = self.r
        pad = "  " * ind
        lines = []
        x = self.a_strvar(pad, lines)
        a, i = self.fresh("a"), self.fresh("i")
        k = r.randint(2, 12)
        lines += ['%smake %s get [%s, "%s", %s add "y"]' % (pad, a, x.name, sized(r), x.name),
                  "%smake %s get 0" % (pad, i), "%sjasi (%s small pass %d) start" % (pad, i, k),
                  "%s  %s[%s mod 3] get %s[(%s add 1) mod 3] add to_string(%s)" % (pad, a, i, a, i, i),
                  "%s  %s get %s add 1" % (pad, i, i), "%send" % pad, "%sshout(%s)" % (pad, a)]
        self.declare(i, NUM)
        self.declare(a, ARR, elem=STR, minlen=3)
        return lines

    def t_interp(self, ind):
        pad = "  " * ind
        lines = []
        x = self.a_strvar(pad, lines)
        y = self.fresh("y")
        lines += ["%s%s get %s" % (pad, x.name, self.sx()), '%sshout("<{%s}>")' % (pad, x.name),
                  '%smake %s get "{%s}{%s}"' % (pad, y, x.name, x.name), '%s%s get "{%s}-{%s}"' % (pad, x.name, y, x.name),
                  "%sshout(%s)" % (pad, x.name)]
        self.declare(y, STR)
        return lines

    def t_deep_rec(self, ind):
        if not self.can_define_fn():
            return None
        r = self.r
        pad = "  " * ind
        f = self.fresh("f")
        u = sized(r, r.choice([1, 2, 5, 9]))
        d = r.choice([3, 8, 20, 45, 60])
        form = r.randrange(3)
        lines = ["%sdo %s(n, acc) start" % (pad, f), "%s  if to say (n small pass 1) start return acc end" % pad]
        if form == 0:
            lines += ['%s  return "%s" add %s(n minus 1, acc)' % (pad, u, f)]
        elif form == 1:
            lines += ['%s  make t get acc add "%s"' % (pad, u), "%s  return %s(n minus 1, t)" % (pad, f)]
        else:
            lines += ['%s  make t get %s(n minus 1, acc add "%s")' % (pad, f, u), "%s  return t.slice(0, 250) add to_string(n)" % pad]
        lines += ["%send" % pad, "%sshout(%s(%d, %s))" % (pad, f, d, self.sx())]
        return lines

    def t_churn(self, ind):
        if self.loop_depth >= 1:
            return None
        r = self.r
        pad = "  " * ind
        i, s, keep = self.fresh("i"), self.fresh("s"), self.fresh("k")
        n = r.choice(SIZES)
        k = r.choice([5, 10, 40, 150])
        lines = ["%smake %s get 0" % (pad, i), '%smake %s get ""' % (pad, s), "%smake %s get []" % (pad, keep),
                 "%sjasi (%s small pass %d) start" % (pad, i, k),
                 '%s  make t get "%s" add to_string(%s)' % (pad, sized(r, n), i),
                 "%s  %s get t.slice(0, %d)" % (pad, s, n + r.choice([0, 1, 2])),
                 "%s  if to say (%s mod 7 na 0) start %s.push(%s) end" % (pad, i, keep, s),
                 "%s  %s get %s add 1" % (pad, i, i), "%send" % pad, "%sshout(%s)" % (pad, s), "%sshout(%s)" % (pad, keep)]
        self.declare(i, NUM)
        self.declare(s, STR)
        self.declare(keep, ARR, elem=STR, minlen=1)
        return lines

    def t_param_array(self, ind):
        """array parameters grown / overwritten inside loops and nested calls of the callee"""
        if not self.can_define_fn():
            return None
        r = self.r
        pad = "  " * ind
        f = self.fresh("f")
        k = r.randrange(5)
        ret = r.choice(["p", "p.len()", "p[0]"])
        if k == 0:
            body = ["make i get 0", "jasi (i small pass n) start", '  p.push("e" add to_string(i))', "  i get i add 1", "end"]
        elif k == 1:
            body = ["do g() start", '  p.push("%s" add "g")' % sized(r), "end", "g()", "g()"]
        elif k == 2:
            body = ["make i get 0", "jasi (i small pass n) start", '  p[0] get p[0] add "%s"' % sized(r, 3), "  i get i add 1", "end"]
        elif k == 3:
            body = ['p.push("%s" add "y")' % sized(r), "p.push(p[0])", "make q get p.pop()", 'p[0] get q add "z"']
        else:
            body = ["make i get 0", "jasi (i small pass n) start", "  if to say (i mod 2 na 0) start p.push([to_string(i)]) end",
                    "  i get i add 1", "end"]
            ret = r.choice(["p", "p.len()"])
        lines = ["%sdo %s(p, n) start" % (pad, f)] + [pad + "  " + b for b in body] + ["%s  return %s" % (pad, ret), "%send" % pad]
        arg = r.choice(["[%s]" % self.sx(), '["%s", %s]' % (sized(r), self.sx())])
        arrs = [v for v in self.visible(ARR) if v.elem == STR and v.minlen > 0]
        if arrs and r.random() < 0.5 and k != 4:
            arg = r.choice(arrs).name
        lines.append("%sshout(%s(%s, %d))" % (pad, f, arg, r.randint(1, 6)))
        return lines

    def t_many_locals(self, ind):
        if self.loop_depth >= 2 or not self.can_define_fn():
            return None
        r = self.r
        pad = "  " * ind
        f = self.fresh("f")
        n = r.randint(5, 11)
        lines = ["%sdo %s(a) start" % (pad, f)]
        for j in range(3):
            lines.append('%s  make l%d get a add "%d"' % (pad, j, j))
        lines += ["%s  make j get 0" % pad, "%s  jasi (j small pass %d) start" % (pad, r.randint(1, 4))]
        prev = "l0"
        for j in range(n):
            lines.append("%s    make m%d get %s%s" % (pad, j, prev, r.choice(["", " add l1", ' add "%s"' % sized(r, 2)])))
            prev = "m%d" % j
        lines += ["%s    l1 get %s.slice(0, %d)" % (pad, prev, r.choice([4, 9, 130])), "%s    j get j add 1" % pad, "%s  end" % pad]
        for j in range(3, 8):
            lines.append("%s  make l%d get l%d add l1" % (pad, j, j - 1))
        lines += ["%s  return l7 add l2" % pad, "%send" % pad, "%sshout(%s(%s))" % (pad, f, self.sx())]
        self.reg_fn(f, [STR], STR)
        return lines

    def t_param_string(self, ind):
        if not self.can_define_fn():
            return None
        r = self.r
        pad = "  " * ind
        f = self.fresh("f")
        lines = ["%sdo %s(p, q) start" % (pad, f), "%s  make i get 0" % pad, "%s  jasi (i small pass %d) start" % (pad, r.randint(1, 5)),
                 "%s    p get q add p" % pad, "%s    q get p.slice(0, %d)" % (pad, r.choice([2, 8, 9, 129])), "%s    i get i add 1" % pad,
                 "%s  end" % pad, "%s  return %s" % (pad, r.choice(["p", "q", "p add q", '"{p}/{q}"'])), "%send" % pad]
        self.reg_fn(f, [STR, STR], STR)
        a = self.sx()
        b = r.choice([a, self.sx(), '"%s"' % sized(r)])
        lines.append("%sshout(%s(%s, %s))" % (pad, f, a, b))
        return lines

    def t_shout_recycle(self, ind):
        pad = "  " * ind
        lines = []
        x = self.a_strvar(pad, lines)
        for _ in range(self.r.randint(2, 4)):
            lines.append("%sshout(%s)" % (pad, self.r.choice([x.name, "[%s, %s]" % (x.name, x.name), '%s add ""' % x.name])))
            lines.append("%s%s get %s" % (pad, x.name, self.sx()))
        return lines

    def t_fn_array_result(self, ind):
        if not self.can_define_fn():
            return None
        r = self.r
        pad = "  " * ind
        f, q = self.fresh("f"), self.fresh("q")
        lines = ["%sdo %s(n, s) start" % (pad, f), "%s  make out get []" % pad, "%s  make i get 0" % pad,
                 "%s  jasi (i small pass n) start" % pad, "%s    out.push(s add to_string(i))" % pad,
                 "%s    out.push([s, \"%s\"])" % (pad, sized(r)), "%s    i get i add 1" % pad, "%s  end" % pad, "%s  return out" % pad, "%send" % pad,
                 "%smake %s get %s(%d, %s)" % (pad, q, f, r.randint(1, 4), self.sx()),
                 "%sshout(%s)" % (pad, q), "%sshout(%s(2, %s)[1][0])" % (pad, f, self.sx()), "%s%s[0] get %s(1, %s)[0]" % (pad, q, f, self.sx()),
                 "%sshout(%s[0])" % (pad, q)]
        self.declare(q, ARR, elem=None, minlen=0)
        return lines


def gen_program(rng, tier):
    opts = langgen.Opts(str_long=0.3, p_loop=0.16, p_fn=0.22, p_trap=0.02, p_unused=0.05, p_dead=0.04,
                        max_stmts=10 if tier == "quick" else 16)
    g = C02Gen(rng, opts)
    src = g.program()
    return src, g.stats, g.tstats
