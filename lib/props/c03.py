"""C03 — analysis-driven pruning never changes what a program does.

The static analysis (src/analysis: cfg, reachability, summary, liveness, diagnostics, opt — about
3000 lines) is NOT modelled in Coq.  The proof side is translation validation: theories/PlanCheck.v
defines a classifier `plan_ok` for the entries of ANY plan and proofs/PlanProofs.v proves that dropping
the entries it calls Unreachable / UnusedFn / NeverRead does not change `Lang.run_impl`
(Properties/C03.v).  This module runs, for every generated accepted program:

ORACLE (implementation only, no model):
  * outputs and ending with the plan equal those without (pn = nn, pf = nf);
  * every `shout` carries a unique tag "@k@": a shout inside a region reported as "Unreachable code"
    must never print in the plan-less run;
  * every string literal may carry a unique value tag "%k%": a tag inside the right-hand side of a
    statement reported "Unused assignment" (call-free right-hand side) must never be printed;
  * the front end must not crash (liveness bitset shape).
MODEL TIE:
  * extracted `Lang.run_impl` on the implementation's own AST and REAL plan must agree with the
    implementation with and without the plan (langcheck.compare);
  * extracted `PlanCheck.plan_ok` on the real plan: its own verdict `v_checked` (= the hypothesis of
    theorem C03_plan_ok_sound) must hold, and every entry must fall in a known class; an entry in no
    class (e.g. a pruned statement with a call to shout, a pruned trapping expression, a pruned function
    that live code can call) is a broken obligation.
  * round 2: extracted `LiveCheck.plan_ok3` = plan_ok + the verified backward liveness `ds_ok` on the residual plan
    (flow-sensitive dead stores across branches, loops, scope exits, calls, captures, recursion; theorems
    C03_prune_dead_stores_sound / C03_plan_ok3_sound): its hypotheses (`v_checked`, `x_checked`) must hold; an entry
    the liveness checker accepts although it is in no class is a broken obligation.
The class histogram (entries covered by a theorem vs. covered only by the plan/no-plan oracle), before and after the
liveness class, is reported in the evidence."""
import os
import re

import common
import langgen
import langrun
import langcheck
from langgen import NUM, STR, BOOL, ARR

TRUSTED_EXTRA = [
    "C03: the analysis itself (cfg/reachability/summary/liveness/diagnostics/opt) is not modelled; the theorems are about the "
    "plan CHECKER (PlanCheck.plan_ok) applied to the plan the real analysis printed, and about Lang.run_impl's pruning hooks "
    "(in_plan_stmt / in_plan_fn), which transcribe runtime.rs stmt_is_pruned / function_is_pruned",
    "C03: coq/extract/mode_langc03.ml (AST reader copied from mode_lang.ml, verdict printer)",
    "C03 round 2: the search for the accepted dead-store set is inside Coq (LiveCheck.ds_candidates, untrusted helper); what the theorem "
    "needs is only the final boolean LiveCheck.ds_ok of that set, which plan_ok3 recomputes (x_checked)",
]
ASSUMPTIONS = [
    "runs ending in Stack overflow or a timeout (implementation) / fuel (model) are not compared",
    "never-read theorem: the unpruned run must not end in the model's variable-missing panic sites (scoping is C04/C06) — the oracle checks that the implementation does not panic",
    "dead-store theorem (round 2): same exclusions as the never-read theorem (fuel, the three variable-missing panic sites of the less-pruned run)",
    "round 4: a dropped ASSIGNMENT / re-declaration whose right-hand side calls a pure, trap-free user function is covered (class C, theorem "
    "C03_prune_sound_all_classes: besides fuel and the variable-missing sites, the panic sites PFuncMissing/PArgCount/PParamRange/PBreakEscapes of the "
    "less-pruned run are not compared; C03_prune_sound_all_classes_wf discharges all panic sites with C06's wf_static/wf_scoped, leaving fuel only); "
    "a pruned FIRST declaration with such a right-hand side is not (statement C03_first_declaration_with_call_statement_partial)",
    "round 3: the only plan entries the shipped analysis emits that no theorem covers are stores whose right-hand side calls a USER function "
    "(pruned when the callee's transitive class is PureNoTrap and it has no transitive capture write; the analysis does not require the callee to "
    "terminate: a pruned run can end where the plain run exhausts the stack or never ends - not compared, resource exhaustion) and command(..) "
    "(outside the model); they are counted in entries_outside_every_proved_class / unproved_entry_shapes and stay covered by the plan-vs-no-plan oracle",
]
CAN_RUN_WITHOUT_MODEL = True
CFGS = ["nn", "pn", "nf", "pf"]

KEY_KILL = "callee-capture-write-kills-store"
KEY_IMPURE = "callee-capture-write-not-impure"
KEY_TYPEMIS = "pruned-stmt-can-raise-type-mismatch"
KEY_BITSET = "liveness-bitset-index-oob"
KEY_READ_AFTER_WRITE = "callee-capture-read-after-own-write"
KEY_MEMBER = "member-access-classified-trap-free"

# fixed corpus: the defects this property's machinery confirmed (all repaired in /repo; they stay here so a
# regression is reported again), plus shapes around them
CORPUS = [
    (KEY_MEMBER, 'make x get "ab"\nmake u get x.len\nshout("@1@" add to_string(2))\n'),
    (KEY_MEMBER + "/assign", 'make x get [1]\nmake u get 0\nu get x.len\nshout("@1@" add to_string(2))\n'),
    (KEY_MEMBER + "/array", 'make x get 3\nmake u get [1, x.abs]\nshout("@1@" add to_string(2))\n'),
    # boundary, not compared (resource exhaustion): the analysis does not ask a pruned callee to terminate
    # boundary (round 4), not compared: the pruned callee never returns; the checker accepts the entry (class C), the
    # theorem's hypothesis "the less-pruned run does not exhaust its fuel" is what excludes it
    ("pure-callee-recursion-assignment", 'do f() start\n  return f()\nend\nmake u get 0\nu get f()\nshout("@1@" add to_string(2))\n'),
    ("pure-callee-deep-recursion", 'do f() start\n  return f()\nend\nmake u get f()\nshout("@1@" add to_string(2))\n'),
    (KEY_KILL, 'make x get 1\ndo m(c) start\n  if to say (c) start x get 2 end\nend\nx get 5\nm(false)\nshout("@1@" add to_string(x))\n'),
    (KEY_IMPURE, 'make x get 1\ndo set_x() start\n  x get 2\n  return 0\nend\nmake y get set_x()\nshout("@1@" add to_string(x))\n'),
    (KEY_TYPEMIS, 'make x get 1\nif to say (true) start x get "s" end\nmake u get x minus 1\nshout("@1@" add to_string(2))\n'),
    (KEY_TYPEMIS + "/param", 'do f(p) start\n  make u get p minus 1\n  return 0\nend\nshout("@1@" add to_string(f("a")))\n'),
    (KEY_TYPEMIS + "/method", 'do f(p) start\n  make u get p.len()\n  return 0\nend\nshout("@1@" add to_string(f(3)))\n'),
    (KEY_TYPEMIS + "/cond", 'do f(p) start\n  if to say (p) start return 1 end\n  return 0\nend\nmake u get f(3)\nshout("@1@" add to_string(1))\n'),
    (KEY_TYPEMIS + "/or", 'make u get null or 5\nshout("@1@" add to_string(1))\n'),
    (KEY_BITSET, "make a get 1\ndo g() start\n" + "".join("  make l%d get 0\n" % i for i in range(70)) + "  return 0\nend\nmake b get 2\nshout(\"@1@\" add to_string(a add b))\n"),
    (KEY_READ_AFTER_WRITE, 'make x get "one"\ndo twice() start return "{x}{x}" end\nx get "five"\nif to say (true) start\n  x get twice()\n  shout("@1@" add to_string(x))\nend\n'),
    (KEY_READ_AFTER_WRITE + "/loop", 'make x get 1\ndo rd() start return x add 1 end\nx get 5\nmake i get 0\njasi (i small pass 2) start\n  x get rd()\n  i get i add 1\nend\nshout("@1@" add to_string(x))\n'),
    (KEY_READ_AFTER_WRITE + "/push", 'make a get [1]\ndo n() start return a.len() end\na get [1, 2, 3]\nif to say (true) start\n  a.push(n())\nend\nshout("@1@" add to_string(a))\n'),
    ("self-update-next-block", 'make x get 1\nx get 4\nif to say (true) start\n  x get x times 10\nend\nshout("@1@" add to_string(x))\nmake items get [1]\nitems get [2]\nif to say (true) start\n  items.push(3)\nend\nshout("@2@" add to_string(items))\n'),
    ("hoisted-after-return", 'do f() start\n  g()\n  return 1\n  do g() start\n    shout("@1@" add to_string(7))\n  end\n  shout("@2@" add to_string(8))\nend\nshout("@3@" add to_string(f()))\n'),
    ("keeps-declaration", 'make x get 1\nx get 2\nshout("@1@" add to_string(x))\n'),
    ("never-read-reassigned", 'make u get 1 add 2\nu get "%1%a"\nmake x get 5\nshout("@1@" add to_string(x))\n'),
    ("all-classes", 'do g() start\n  shout("@1@" add to_string(7))\nend\ndo f(p) start\n  if to say (p) start\n    return 1\n  end\n  if not so start\n    return 2\n  end\n  shout("@2@" add to_string(9))\nend\nmake u get [1, "b"]\nmake p0 get 3\nshout("@3@" add to_string(f(true)))\n'),
]


# --------------------------------------------------------------------------------------------
# generator

class C03Gen(langgen.Gen):
    """Bias of DESIGN.md §6 C03: functions reading/writing enclosing variables conditionally, calls only from
    dead code, trapping / dynamically typed expressions in dead stores, redeclarations, loop-carried stores,
    many locals interleaved with nested functions."""

    P_TEMPLATE = 0.34
    TEMPLATES = ["cond_capture_write", "capture_write_unused_result", "capture_read", "dead_only_call",
                 "trap_dead_store", "redeclare", "loop_carried", "dyn_param_dead", "retype", "cond_param",
                 "overwrite", "shadow_block", "loop_ctl_dead", "if_else_return", "unused_cycle",
                 "hoisted_in_dead", "never_read", "never_read", "overwrite", "cond_capture_write", "many_locals",
                 "self_update_via_callee", "self_update_via_callee", "self_update_via_callee", "self_update_direct",
                 "self_update_direct", "hoisted_after_ctl", "ds_flow", "ds_flow", "ds_flow", "callee_mutates_array",
                 "scc_group", "scc_group", "scc_group", "scc_group", "call_chain", "loop_branch_jump", "loop_branch_jump",
                 "loop_branch_jump", "loop_branch_jump", "round3", "round3", "round3", "round3"]

    def __init__(self, rng, opts=None):
        super().__init__(rng, opts)
        self.tstats = {}
        self.vtag = 0

    def t(self, k):
        self.tstats[k] = self.tstats.get(k, 0) + 1

    def str_lit(self, interp=True):
        s = super().str_lit(interp)
        if s.startswith('"') and self.r.random() < 0.5:
            self.vtag += 1
            return '"%%%d%%%s' % (self.vtag, s[1:])
        return s

    def tagged(self, body=""):
        self.vtag += 1
        return '"%%%d%%%s"' % (self.vtag, body)

    def can_fn(self):
        return len(self.fn_stack) < 2

    def lit(self, ty):
        r = self.r
        if ty == NUM:
            return self.num_lit()
        if ty == STR:
            return self.tagged(r.choice(["a", "bc", "", "xyz"]))
        return r.choice(["true", "false"])

    def newvar(self, ty, pad, lines, init=None):
        n = self.fresh("v")
        lines.append("%smake %s get %s" % (pad, n, init if init is not None else self.lit(ty)))
        return self.declare(n, ty)

    def stmt(self, ind):
        if self.r.random() < self.P_TEMPLATE:
            tpl = self.r.choice(self.TEMPLATES)
            out = getattr(self, "t_" + tpl)(ind)
            if out:
                self.t(tpl)
                return out
        return super().stmt(ind)

    # ---- callee writes an enclosing variable on one path only (defect 1 shape)
    def t_cond_capture_write(self, ind):
        if not self.can_fn():
            return None
        r, pad = self.r, "  " * ind
        ty = r.choice([NUM, STR, STR])
        lines = []
        x = self.newvar(ty, pad, lines)
        f = self.fresh("f")
        form = r.randrange(4)
        if form == 0:
            body = ["if to say (c) start %s get %s end" % (x.name, self.lit(ty))]
        elif form == 1:
            body = ["if to say (c) start", "  return 0", "end", "%s get %s" % (x.name, self.lit(ty))]
        elif form == 2:
            body = ["make k get 0", "jasi (k small pass 2) start", "  if to say (c) start %s get %s end" % (x.name, self.lit(ty)),
                    "  k get k add 1", "end"]
        else:
            g = self.fresh("f")
            body = ["do %s() start" % g, "  if to say (c) start %s get %s end" % (x.name, self.lit(ty)), "end", "%s()" % g]
        lines += ["%sdo %s(c) start" % (pad, f)] + [pad + "  " + b for b in body] + ["%send" % pad]
        lines.append("%s%s get %s" % (pad, x.name, self.lit(ty)))
        lines.append("%s%s(%s)" % (pad, f, r.choice(["true", "false", "false"])))
        lines.append("%sshout(%s)" % (pad, x.name))
        if r.random() < 0.5:
            lines.append("%s%s get %s" % (pad, x.name, self.lit(ty)))
            lines.append("%s%s(%s)" % (pad, f, r.choice(["true", "false"])))
            lines.append("%sshout(%s)" % (pad, x.name))
        return lines

    # ---- unused result of a call whose callee assigns a captured variable (defect 16 shape)
    def t_capture_write_unused_result(self, ind):
        if not self.can_fn():
            return None
        r, pad = self.r, "  " * ind
        ty = r.choice([NUM, STR])
        lines = []
        x = self.newvar(ty, pad, lines)
        f, g = self.fresh("f"), self.fresh("f")
        lines += ["%sdo %s() start" % (pad, f), "%s  %s get %s" % (pad, x.name, self.lit(ty)), "%s  return 0" % pad, "%send" % pad]
        call = "%s()" % f
        if r.random() < 0.4:
            lines += ["%sdo %s() start" % (pad, g), "%s  return %s() add 1" % (pad, f), "%send" % pad]
            call = "%s()" % g
        u = self.fresh("u")
        form = r.randrange(3)
        if form == 0:
            lines.append("%smake %s get %s" % (pad, u, call))
        elif form == 1:
            lines += ["%smake %s get 0" % (pad, u), "%s%s get %s add 1" % (pad, u, call)]
        else:
            lines.append("%smake %s get [%s, 2]" % (pad, u, call))
        lines.append("%sshout(%s)" % (pad, x.name))
        return lines

    # ---- store that is live only through a callee's capture read
    def t_capture_read(self, ind):
        if not self.can_fn():
            return None
        r, pad = self.r, "  " * ind
        ty = r.choice([NUM, STR])
        lines = []
        x = self.newvar(ty, pad, lines)
        f = self.fresh("f")
        lines += ["%sdo %s() start" % (pad, f), "%s  return %s" % (pad, r.choice([x.name, "[%s]" % x.name, '"{%s}"' % x.name])), "%send" % pad,
                  "%s%s get %s" % (pad, x.name, self.lit(ty)), "%sshout(%s())" % (pad, f),
                  "%s%s get %s" % (pad, x.name, self.lit(ty))]
        if r.random() < 0.5:
            lines.append("%sshout(%s())" % (pad, f))
        return lines

    # ---- function called only from dead code / from another unused function
    def t_dead_only_call(self, ind):
        if not self.can_fn():
            return None
        r, pad = self.r, "  " * ind
        h, k = self.fresh("f"), self.fresh("f")
        lines = ["%sdo %s() start" % (pad, h), "%s  shout(%s)" % (pad, self.lit(NUM)), "%s  return 1" % pad, "%send" % pad,
                 "%sdo %s() start" % (pad, k), "%s  return 2" % pad, "%s  shout(%s())" % (pad, h), "%send" % pad,
                 "%sshout(%s())" % (pad, k)]
        if r.random() < 0.4:
            lines.append("%sshout(%s())" % (pad, h))
        return lines

    # ---- dead stores whose right-hand side can fail at run time: must stay
    def t_trap_dead_store(self, ind):
        r, pad = self.r, "  " * ind
        u = self.fresh("u")
        lines = []
        form = r.randrange(5)
        if form == 0:
            lines.append("%smake %s get %s divide %s" % (pad, u, self.num_lit(), r.choice(["0", "(1 minus 1)", "2"])))
        elif form == 1:
            lines.append("%smake %s get %s mod %s" % (pad, u, self.num_lit(), r.choice(["0", "3"])))
        elif form == 2:
            a = self.fresh("v")
            lines += ["%smake %s get [1, 2]" % (pad, a), "%smake %s get %s[%s]" % (pad, u, a, r.choice(["5", "1", "0.5", "(minus 1)"]))]
            self.declare(a, ARR, elem=NUM, minlen=2)
        elif form == 3:
            lines += ["%smake %s get 0" % (pad, u), "%s%s get 1 divide %s" % (pad, u, r.choice(["0", "4"]))]
        else:
            lines += ["%smake %s get null or %s" % (pad, u, r.choice(["5", "true", '"s"']))]
        lines.append("%sshout(%s)" % (pad, self.lit(NUM)))
        return lines

    def t_redeclare(self, ind):
        r, pad = self.r, "  " * ind
        ty = r.choice([NUM, STR])
        lines = []
        x = self.newvar(ty, pad, lines)
        if r.random() < 0.5:
            lines.append("%sshout(%s)" % (pad, x.name))
        ty2 = r.choice([NUM, STR])
        lines.append("%smake %s get %s" % (pad, x.name, self.lit(ty2)))
        self.declare(x.name, ty2)
        if r.random() < 0.7:
            lines.append("%sshout(%s)" % (pad, x.name))
        return lines

    # ---- a store inside a loop that is read by the next iteration (or not at all)
    def t_loop_carried(self, ind):
        if self.loop_depth >= 2:
            return None
        r, pad = self.r, "  " * ind
        lines = []
        acc = self.newvar(STR, pad, lines)
        i = self.fresh("v")
        lines += ["%smake %s get 0" % (pad, i), "%sjasi (%s small pass %d) start" % (pad, i, r.randint(1, 3))]
        self.declare(i, NUM)
        body = []
        if r.random() < 0.6:
            body.append("shout(%s)" % acc.name)
        body.append("%s get %s" % (acc.name, self.lit(STR)))
        if r.random() < 0.4:
            body.append("if to say (%s na 1) start next end" % i if False else "%s get %s" % (acc.name, self.lit(STR)))
        body.append("%s get %s add 1" % (i, i))
        if r.random() < 0.3:
            body.append("if to say (%s pass 1) start comot end" % i)
        lines += [pad + "  " + b for b in body] + ["%send" % pad]
        if r.random() < 0.5:
            lines.append("%sshout(%s)" % (pad, acc.name))
        return lines

    # ---- operators on a dynamically typed parameter in a dead store (defect 3 shape)
    def t_dyn_param_dead(self, ind):
        if not self.can_fn():
            return None
        r, pad = self.r, "  " * ind
        f = self.fresh("f")
        rhs = r.choice(["p minus 1", "p times 2", "minus p", "not p", "p and true", "p pass 1", "p.len()", '"{p}"', "p", "[p, 1]",
                        "p add 1", 'p.slice(0, 1)', "p na null", "to_string(p)", "typeof(p)"])
        arg = r.choice(["1", self.tagged("s"), "true", "null", "[1]"])
        lines = ["%sdo %s(p) start" % (pad, f), "%s  make u get %s" % (pad, rhs), "%s  return 0" % pad, "%send" % pad,
                 "%sshout(%s(%s))" % (pad, f, arg)]
        return lines

    def t_retype(self, ind):
        r, pad = self.r, "  " * ind
        lines = []
        x = self.newvar(NUM, pad, lines)
        lines.append("%sif to say (%s) start %s get %s end" % (pad, r.choice(["true", "false"]), x.name, self.lit(STR)))
        x.ty = "dyn"
        u = self.fresh("u")
        lines.append("%smake %s get %s" % (pad, u, r.choice(["%s minus 1", "%s times 2", "minus %s", "%s pass 0", "%s.abs()"]) % x.name))
        lines.append("%sshout(%s)" % (pad, self.lit(NUM)))
        return lines

    def t_cond_param(self, ind):
        if not self.can_fn():
            return None
        r, pad = self.r, "  " * ind
        f = self.fresh("f")
        lines = ["%sdo %s(p) start" % (pad, f), "%s  if to say (p) start return 1 end" % pad, "%s  return 0" % pad, "%send" % pad,
                 "%smake %s get %s(%s)" % (pad, self.fresh("u"), f, r.choice(["3", "true", "false", "null", '"s"'])),
                 "%sshout(%s)" % (pad, self.lit(NUM))]
        return lines

    # ---- overwritten before read: straight line, across branches, across loops
    def t_overwrite(self, ind):
        r, pad = self.r, "  " * ind
        ty = r.choice([STR, STR, NUM])
        lines = []
        x = self.newvar(ty, pad, lines)
        form = r.randrange(5)
        if form == 0:
            lines += ["%s%s get %s" % (pad, x.name, self.lit(ty)), "%s%s get %s" % (pad, x.name, self.lit(ty))]
        elif form == 1:
            lines += ["%s%s get %s" % (pad, x.name, self.lit(ty)),
                      "%sif to say (%s) start %s get %s end" % (pad, self.expr(BOOL, 2), x.name, self.lit(ty))]
        elif form == 2:
            lines += ["%s%s get %s" % (pad, x.name, self.lit(ty)),
                      "%sif to say (%s) start %s get %s end" % (pad, self.expr(BOOL, 2), x.name, self.lit(ty)),
                      "%sif not so start %s get %s end" % (pad, x.name, self.lit(ty))]
        elif form == 3 and self.loop_depth < 2:
            i = self.fresh("v")
            lines += ["%s%s get %s" % (pad, x.name, self.lit(ty)), "%smake %s get 0" % (pad, i),
                      "%sjasi (%s small pass %d) start" % (pad, i, r.randint(0, 2)),
                      "%s  %s get %s" % (pad, x.name, self.lit(ty)), "%s  %s get %s add 1" % (pad, i, i), "%send" % pad]
            self.declare(i, NUM)
        else:
            lines += ["%s%s get %s" % (pad, x.name, self.lit(ty)), "%sstart" % pad, "%s  %s get %s" % (pad, x.name, self.lit(ty)), "%send" % pad]
        lines.append("%sshout(%s)" % (pad, x.name))
        return lines

    def t_shadow_block(self, ind):
        r, pad = self.r, "  " * ind
        lines = []
        x = self.newvar(STR, pad, lines)
        lines += ["%sstart" % pad, "%s  make %s get %s" % (pad, x.name, self.lit(STR))]
        if r.random() < 0.6:
            lines.append("%s  shout(%s)" % (pad, x.name))
        lines += ["%s  %s get %s" % (pad, x.name, self.lit(STR)), "%send" % pad, "%sshout(%s)" % (pad, x.name)]
        return lines

    def t_loop_ctl_dead(self, ind):
        if self.loop_depth >= 2:
            return None
        r, pad = self.r, "  " * ind
        i = self.fresh("v")
        lines = ["%smake %s get 0" % (pad, i), "%sjasi (%s small pass %d) start" % (pad, i, r.randint(1, 3)),
                 "%s  %s get %s add 1" % (pad, i, i)]
        self.declare(i, NUM)
        ctl = r.choice(["comot", "next"])
        form = r.randrange(3)
        if form == 0:
            lines += ["%s  %s" % (pad, ctl), "%s  shout(%s)" % (pad, self.lit(NUM))]
        elif form == 1:
            lines += ["%s  if to say (%s pass 1) start" % (pad, i), "%s    %s" % (pad, ctl), "%s    shout(%s)" % (pad, self.lit(NUM)), "%s  end" % pad,
                      "%s  shout(%s)" % (pad, i)]
        else:
            lines += ["%s  if to say (%s pass 1) start %s end if not so start %s end" % (pad, i, ctl, r.choice(["comot", "next"])),
                      "%s  shout(%s)" % (pad, self.lit(NUM))]
        lines.append("%send" % pad)
        lines.append("%sshout(%s)" % (pad, i))
        return lines

    def t_if_else_return(self, ind):
        if not self.can_fn():
            return None
        r, pad = self.r, "  " * ind
        f = self.fresh("f")
        lines = ["%sdo %s(c) start" % (pad, f)]
        form = r.randrange(3)
        if form == 0:
            lines += ["%s  if to say (c) start" % pad, "%s    return 1" % pad, "%s  end" % pad, "%s  if not so start" % pad, "%s    return 2" % pad, "%s  end" % pad]
        elif form == 1:
            lines += ["%s  start" % pad, "%s    if to say (c) start return 1 end if not so start return 2 end" % pad, "%s    shout(%s)" % (pad, self.lit(NUM)), "%s  end" % pad]
        else:
            lines += ["%s  if to say (c) start" % pad, "%s    return 1" % pad, "%s    shout(%s)" % (pad, self.lit(NUM)), "%s  end" % pad,
                      "%s  if not so start" % pad, "%s    start return 2 end" % pad, "%s  end" % pad]
        lines += ["%s  shout(%s)" % (pad, self.lit(NUM)), "%s  make w get %s" % (pad, self.lit(STR)), "%s  return w" % pad, "%send" % pad,
                  "%sshout(%s(%s))" % (pad, f, r.choice(["true", "false"]))]
        return lines

    # ---- mutually recursive functions nobody calls
    def t_unused_cycle(self, ind):
        if not self.can_fn():
            return None
        r, pad = self.r, "  " * ind
        a, b = self.fresh("f"), self.fresh("f")
        lines = ["%sdo %s(n) start" % (pad, a), "%s  if to say (n pass 0) start return %s(n minus 1) end" % (pad, b), "%s  return 0" % pad, "%send" % pad,
                 "%sdo %s(n) start" % (pad, b), "%s  shout(n)" % pad, "%s  return %s(n minus 1)" % (pad, a), "%send" % pad]
        if r.random() < 0.3:
            lines.append("%sshout(%s(2))" % (pad, a))
        return lines

    # ---- a function defined after `return` but called before it (definitions are hoisted)
    def t_hoisted_in_dead(self, ind):
        if not self.can_fn():
            return None
        r, pad = self.r, "  " * ind
        f, g = self.fresh("f"), self.fresh("f")
        lines = ["%sdo %s() start" % (pad, f), "%s  shout(%s())" % (pad, g), "%s  return 1" % pad,
                 "%s  do %s() start" % (pad, g), "%s    make q get %s" % (pad, self.lit(STR)), "%s    shout(q)" % pad, "%s    return q" % pad, "%s  end" % pad,
                 "%s  shout(%s)" % (pad, self.lit(NUM)), "%send" % pad, "%sshout(%s())" % (pad, f)]
        return lines

    # ---- plain never-read locals with total right-hand sides (the class the theorem covers)
    def t_never_read(self, ind):
        r, pad = self.r, "  " * ind
        lines = []
        for _ in range(r.randint(1, 3)):
            u = self.fresh("u")
            rhs = r.choice([self.num_lit(), self.tagged("x"), "[1, %s]" % self.tagged("y"), "1 add 2 times 3", '"a" add 1', "not true",
                            "null na 1", "minus 3", "true and null", '"{%s}"' % (self.visible()[0].name if self.visible() else "u")])
            if rhs == '"{u}"':
                rhs = "7"
            lines.append("%smake %s get %s" % (pad, u, rhs))
            if r.random() < 0.3:
                lines.append("%s%s get %s" % (pad, u, r.choice([self.num_lit(), self.tagged("z")])))
        lines.append("%sshout(%s)" % (pad, self.lit(NUM)))
        return lines

    # ---- a statement that assigns x while a callee it calls reads the captured x (`x get f()`,
    #      `x get x add f()`, `a.push(f())`): the earlier store to x sits in a preceding basic block
    def t_self_update_via_callee(self, ind):
        if not self.can_fn():
            return None
        r, pad = self.r, "  " * ind
        lines = []
        arr = r.random() < 0.3
        f = self.fresh("f")
        if arr:
            x = self.fresh("v")
            lines.append("%smake %s get [%s]" % (pad, x, self.lit(STR)))
            self.declare(x, ARR, elem=STR, minlen=1)
            ret = r.choice(["%s.len()" % x, "%s[0]" % x, '"{%s}"' % x, "%s" % x])
            store = "%s get [%s, %s]" % (x, self.lit(STR), self.lit(STR))
            upd = r.choice(["%s.push(%s())" % (x, f), "%s get [%s(), %s()]" % (x, f, f), "%s[0] get %s()" % (x, f)])
        else:
            ty = r.choice([STR, STR, NUM])
            xv = self.newvar(ty, pad, lines)
            x = xv.name
            if ty == STR:
                ret = r.choice(['"{%s}{%s}"' % (x, x), '%s add "!"' % x, '"<{%s}>"' % x, "[%s]" % x, "%s.len()" % x])
            else:
                ret = r.choice(["%s add 1" % x, "%s times 2" % x, '"{%s}"' % x, "[%s, %s]" % (x, x)])
            store = "%s get %s" % (x, self.lit(ty))
            if ret.startswith("[") or ".len()" in ret or (ty == NUM and ret.startswith('"')):
                upd = "%s get %s()" % (x, f)            # the variable changes type: allowed
                xv.ty = "dyn"
            else:
                upd = r.choice(["%s get %s()" % (x, f), "%s get %s()" % (x, f), "%s get %s add %s()" % (x, x, f),
                                "%s get %s() add %s" % (x, f, x)])
        body = ["return %s" % ret]
        if r.random() < 0.3:
            g = self.fresh("f")
            lines += ["%sdo %s() start" % (pad, g), "%s  return %s" % (pad, ret), "%send" % pad]
            body = ["return %s()" % g]
        lines += ["%sdo %s() start" % (pad, f)] + [pad + "  " + b for b in body] + ["%send" % pad]
        lines.append(pad + store)
        form = r.randrange(6)
        if form == 0:
            lines += ["%sif to say (%s) start" % (pad, r.choice(["true", "true", "false"])), "%s  %s" % (pad, upd), "%s  shout(%s)" % (pad, x), "%send" % pad]
        elif form == 1 and self.loop_depth < 2:
            i = self.fresh("v")
            lines += ["%smake %s get 0" % (pad, i), "%sjasi (%s small pass %d) start" % (pad, i, r.randint(1, 3)),
                      "%s  %s" % (pad, upd), "%s  %s get %s add 1" % (pad, i, i), "%send" % pad]
            self.declare(i, NUM)
        elif form == 2:
            lines += ["%sif to say (%s) start shout(%s) end" % (pad, r.choice(["true", "false"]), self.lit(NUM)), pad + upd]
        elif form == 3 and self.loop_depth < 2:
            # the store at the end of the loop body, the self-update at the start of the next iteration
            i = self.fresh("v")
            lines += ["%smake %s get 0" % (pad, i), "%sjasi (%s small pass %d) start" % (pad, i, r.randint(2, 3)),
                      "%s  %s" % (pad, upd), "%s  shout(%s)" % (pad, x), "%s  %s" % (pad, store),
                      "%s  %s get %s add 1" % (pad, i, i), "%send" % pad]
            self.declare(i, NUM)
        elif form == 4:
            lines += ["%sif to say (%s) start" % (pad, r.choice(["true", "false"])), "%s  shout(%s)" % (pad, self.lit(NUM)), "%send" % pad,
                      "%sif not so start" % pad, "%s  %s" % (pad, upd), "%send" % pad]
        else:
            lines += ["%sstart" % pad, "%s  if to say (true) start %s end" % (pad, upd), "%send" % pad]
        lines.append("%sshout(%s)" % (pad, x))
        return lines

    # ---- a callee that mutates / index-assigns a captured array after the caller stored a new array
    def t_callee_mutates_array(self, ind):
        if not self.can_fn():
            return None
        r, pad = self.r, "  " * ind
        a, f = self.fresh("v"), self.fresh("f")
        lines = ["%smake %s get [%s]" % (pad, a, self.lit(STR))]
        self.declare(a, ARR, elem=STR, minlen=1)
        mut = r.choice(["%s.push(%s)" % (a, self.lit(STR)), "%s[0] get %s" % (a, self.lit(STR)), "%s.reverse()" % a,
                        "if to say (c) start %s.push(%s) end" % (a, self.lit(STR)), "make t get %s.pop()" % a])
        lines += ["%sdo %s(c) start" % (pad, f), "%s  %s" % (pad, mut), "%s  return 0" % pad, "%send" % pad,
                  "%s%s get [%s, %s]" % (pad, a, self.lit(STR), self.lit(STR))]
        call = r.choice(["%s(true)" % f, "make %s get %s(%s)" % (self.fresh("u"), f, r.choice(["true", "false"])), "shout(%s(false))" % f])
        form = r.randrange(3)
        if form == 0:
            lines += ["%sif to say (%s) start" % (pad, r.choice(["true", "false"])), "%s  %s" % (pad, call), "%send" % pad]
        elif form == 1:
            lines += ["%sif to say (false) start shout(%s) end" % (pad, self.lit(NUM)), pad + call]
        else:
            lines.append(pad + call)
        lines.append("%sshout(%s)" % (pad, a))
        return lines

    # ---- a statement that reads and writes the same variable, the earlier store in a preceding block
    def t_self_update_direct(self, ind):
        r, pad = self.r, "  " * ind
        lines = []
        if r.random() < 0.35:
            x = self.fresh("v")
            lines.append("%smake %s get [%s]" % (pad, x, self.lit(NUM)))
            self.declare(x, ARR, elem=NUM, minlen=1)
            store = "%s get [%s, %s]" % (x, self.lit(NUM), self.lit(NUM))
            upd = r.choice(["%s.push(%s)" % (x, self.lit(NUM)), "%s[0] get %s" % (x, self.lit(NUM)), "%s.reverse()" % x,
                            "%s get [%s[0], %s.len()]" % (x, x, x)])
        else:
            ty = r.choice([NUM, STR])
            x = self.newvar(ty, pad, lines).name
            store = "%s get %s" % (x, self.lit(ty))
            upd = r.choice(["%s get %s times 10", "%s get %s add 1", "%s get 1 add %s"]) % (x, x) if ty == NUM else \
                r.choice(['%s get %s add "!"', '%s get "<{%s}>"', "%s get %s.trim()"]) % (x, x)
        lines.append(pad + store)
        form = r.randrange(4)
        if form == 0:
            lines += ["%sif to say (%s) start" % (pad, r.choice(["true", "false"])), "%s  %s" % (pad, upd), "%send" % pad]
        elif form == 1 and self.loop_depth < 2:
            i = self.fresh("v")
            lines += ["%smake %s get 0" % (pad, i), "%sjasi (%s small pass %d) start" % (pad, i, r.randint(1, 3)),
                      "%s  %s" % (pad, upd), "%s  %s get %s add 1" % (pad, i, i), "%send" % pad]
            self.declare(i, NUM)
        elif form == 2:
            lines += ["%sif to say (%s) start shout(%s) end" % (pad, r.choice(["true", "false"]), self.lit(NUM)), pad + upd]
        else:
            lines += ["%sif to say (false) start shout(%s) end" % (pad, self.lit(NUM)), "%sif not so start" % pad, "%s  %s" % (pad, upd), "%send" % pad]
        lines.append("%sshout(%s)" % (pad, x))
        return lines

    # ---- a helper defined after an unconditional return / comot / next but called from live code
    def t_hoisted_after_ctl(self, ind):
        if not self.can_fn():
            return None
        r, pad = self.r, "  " * ind
        g = self.fresh("f")
        helper = ["do %s(q) start" % g, "  return %s" % r.choice(['"<{q}>"', "[q]", "q"]), "end"]
        if self.loop_depth < 2 and r.random() < 0.5:
            i = self.fresh("v")
            lines = ["%smake %s get 0" % (pad, i), "%sjasi (%s small pass %d) start" % (pad, i, r.randint(1, 2)),
                     "%s  %s get %s add 1" % (pad, i, i), "%s  shout(%s(%s))" % (pad, g, self.lit(STR)), "%s  %s" % (pad, r.choice(["comot", "next"]))]
            lines += [pad + "  " + h for h in helper] + ["%send" % pad]
            self.declare(i, NUM)
            return lines
        f = self.fresh("f")
        lines = ["%sdo %s() start" % (pad, f), "%s  make w get %s(%s)" % (pad, g, self.lit(STR)), "%s  if to say (true) start return w end" % pad if r.random() < 0.3 else "%s  shout(w)" % pad,
                 "%s  return %s(%s)" % (pad, g, self.lit(NUM))]
        lines += [pad + "  " + h for h in helper] + ["%send" % pad, "%sshout(%s())" % (pad, f)]
        return lines

    # ---- a strongly connected group of 3-6 functions (ring + spur edges, any declaration order) in which
    #      exactly ONE member reads or writes a captured variable; a store to it right before the call
    #      into the group (the summaries' transitive capture sets must reach every member)
    def t_scc_group(self, ind, in_loop_ok=True):
        if not self.can_fn():
            return None
        r, pad = self.r, "  " * ind
        lines = []
        ty = r.choice([STR, STR, NUM])
        x = self.newvar(ty, pad, lines).name
        want_gap = r.random() < 0.7
        for attempt in range(60):
            k = r.randint(4, 6) if want_gap else r.randint(3, 6)
            ring = r.randint(3, k)
            edges = {i: [] for i in range(k)}
            for i in range(ring):
                edges[i].append((i + 1) % ring)
            for j in range(ring, k):                       # spur nodes hang off an earlier node ...
                edges[r.randrange(j)].append(j)
                if r.random() < 0.8:                       # ... and mostly call back into the group
                    edges[j].append(r.randrange(j))
            for _ in range(r.randint(0, 2)):               # extra chords
                a, b = r.randrange(k), r.randrange(k)
                if b not in edges[a] and len(edges[a]) < 3:
                    edges[a].append(b)
            for i in range(k):
                r.shuffle(edges[i])
            special = r.randrange(k)
            order = list(range(k))
            mode = r.randrange(4)
            if mode == 1:
                order.reverse()
            elif mode >= 2:
                r.shuffle(order)
            entry = r.randrange(ring)
            if not want_gap:
                break
            # prefer arrangements in which a fixpoint that lets only the last edge of a round decide about
            # another round would leave the entry function without the special member's capture access
            full = _summary_rounds(k, edges, order, special, True)
            lazy = _summary_rounds(k, edges, order, special, False)
            gap = [n for n in range(ring) if n in full and n not in lazy]
            if gap:
                entry = r.choice(gap)
                break
        names = [self.fresh("f") for _ in range(k)]
        write = r.random() < 0.35
        # optional guards on single call edges; an edge guarded by a threshold the counter never passes is
        # static only (it still shapes the summaries, like `report -> turn` in the seeded demonstration)
        guard = {}
        for i in range(k):
            if len(edges[i]) > 1 and r.random() < 0.3:
                guard[(i, r.choice(edges[i]))] = r.choice([0, 100, 100])

        def distances(open_edge):
            dist = {entry: 0}
            todo = [entry]
            while todo:
                a = todo.pop(0)
                for b in edges[a]:
                    if open_edge(a, b) and b not in dist:
                        dist[b] = dist[a] + 1
                        todo.append(b)
            return dist
        dist = distances(lambda a, b: guard.get((a, b), 0) == 0)
        if special not in dist:                  # keep the special member reachable at run time
            guard = {}
            dist = distances(lambda a, b: True)
        depth = dist.get(special, 1) + r.choice([1, 1, 2])
        defs = []
        for i in order:
            body = ["if to say (n small pass 1) start return 0 end"]
            acts = []
            for j in edges[i]:
                c = "%s(n minus 1)" % names[j]
                if (i, j) in guard:
                    c = "if to say (n pass %d) start %s end" % (guard[(i, j)], c)
                acts.append(c)
            if i == special:
                acc = ("%s get %s" % (x, self.lit(ty))) if write else "shout(%s)" % r.choice(['"{%s} {n}"' % x, x, "[%s, n]" % x])
                acts.insert(r.randrange(len(acts) + 1), acc)
            body += acts + ["return 0"]
            defs.append(["do %s(n) start" % names[i]] + ["  " + b for b in body] + ["end"])
        pre = defs if r.random() < 0.6 else defs[:len(defs) // 2]
        post = [] if pre is defs else defs[len(defs) // 2:]
        for d in pre:
            lines += [pad + l for l in d]
        lines.append("%s%s get %s" % (pad, x, self.lit(ty)))
        call = "%s(%d)" % (names[entry], depth)
        form = r.randrange(4)
        if form == 0:
            lines.append(pad + call)
        elif form == 1:
            lines += ["%sif to say (%s) start" % (pad, r.choice(["true", "true", "false"])), "%s  %s" % (pad, call), "%send" % pad]
        elif form == 2:
            lines += ["%sstart" % pad, "%s  shout(%s)" % (pad, call), "%send" % pad]
        else:
            lines.append("%smake %s get %s" % (pad, self.fresh("u"), call))
        for d in post:
            lines += [pad + l for l in d]
        if write or r.random() < 0.25:
            lines.append("%sshout(%s)" % (pad, x))
        elif r.random() < 0.5:
            lines += ["%s%s get %s" % (pad, x, self.lit(ty)), "%sshout(%s)" % (pad, x)]
        if write and r.random() < 0.5:
            lines += ["%s%s get %s" % (pad, x, self.lit(ty)), "%s%s(1)" % (pad, names[r.randrange(k)]), "%sshout(%s)" % (pad, x)]
        if in_loop_ok and self.loop_depth < 1 and r.random() < 0.2:
            # the whole family inside a loop body (functions defined in the loop)
            i = self.fresh("v")
            inner = ["  " + l for l in lines[1:]]       # the declaration of x stays outside the loop
            lines = [lines[0], "%smake %s get 0" % (pad, i), "%sjasi (%s small pass 2) start" % (pad, i), "%s  %s get %s add 1" % (pad, i, i)] + inner + ["%send" % pad]
            self.declare(i, NUM)
        return lines

    # ---- a chain of 3-5 non-recursive calls; only the last (or a middle) one touches the captured variable
    def t_call_chain(self, ind):
        if not self.can_fn():
            return None
        r, pad = self.r, "  " * ind
        lines = []
        ty = r.choice([STR, NUM])
        x = self.newvar(ty, pad, lines).name
        k = r.randint(3, 5)
        names = [self.fresh("f") for _ in range(k)]
        special = r.choice([k - 1, k - 1, r.randrange(k)])
        write = r.random() < 0.3
        order = list(range(k))
        if r.random() < 0.5:
            order.reverse()
        elif r.random() < 0.5:
            r.shuffle(order)
        for i in order:
            body = []
            if i == special:
                body.append(("%s get %s" % (x, self.lit(ty))) if write else "shout(%s)" % r.choice(['"<{%s}>"' % x, x]))
            if i + 1 < k:
                body.insert(r.randrange(len(body) + 1), "%s()" % names[i + 1])
            lines += ["%sdo %s() start" % (pad, names[i])] + ["%s  %s" % (pad, b) for b in body] + ["%s  return 0" % pad, "%send" % pad]
        lines += ["%s%s get %s" % (pad, x, self.lit(ty)),
                  r.choice(["%s%s()", "%smake u0 get %s()", "%sshout(%s())"]).replace("u0", self.fresh("u")) % (pad, names[0])]
        if write or r.random() < 0.3:
            lines.append("%sshout(%s)" % (pad, x))
        elif r.random() < 0.5:
            lines += ["%s%s get %s" % (pad, x, self.lit(ty)), "%sshout(%s)" % (pad, x)]
        return lines

    # ---- loops whose body jumps (`next` / `comot`) out of a THEN- or ELSE-branch (also nested) right after a
    #      store that is read at the top of the next iteration, after the loop, or later in the iteration
    def t_loop_branch_jump(self, ind):
        if self.loop_depth >= 2:
            return None
        r, pad = self.r, "  " * ind
        lines = []
        ty = r.choice([STR, STR, NUM])
        v = self.newvar(ty, pad, lines).name
        i = self.fresh("v")
        n = r.randint(2, 4)
        lines += ["%smake %s get 0" % (pad, i), "%sjasi (%s small pass %d) start" % (pad, i, n), "%s  %s get %s add 1" % (pad, i, i)]
        self.declare(i, NUM)
        body = []
        rd_fn = None
        top = r.randrange(4)
        if top == 0:
            body.append("shout(%s)" % v)
        elif top == 1:
            body.append('shout("%s {%s}")' % (r.choice(["top", "it"]), v))
        elif top == 2 and self.can_fn():
            rd_fn = self.fresh("f")
            body += ["do %s() start" % rd_fn, "  return %s" % r.choice([v, '"{%s}"' % v, "[%s]" % v]), "end", "shout(%s())" % rd_fn]
        jump = r.choice(["next", "next", "comot"])
        store = "%s get %s" % (v, self.lit(ty))
        cond = r.choice(["%s mod 2 na 0" % i, "%s pass 1" % i, "%s small pass 2" % i, "true", "false", "%s na %d" % (i, n)])
        jumper = [store, jump]
        shape = r.randrange(6)
        if shape == 1:
            jumper = ["if to say (%s) start" % r.choice(["true", "%s pass 0" % i]), "  " + store, "  " + jump, "end"]
        elif shape == 2:
            jumper = ["start", "  " + store, "  " + jump, "end"]
        elif shape == 3:
            jumper = [store, "if to say (%s) start %s end" % (r.choice(["true", "%s pass 1" % i]), jump)]
        elif shape == 4:
            jumper = ["if to say (false) start shout(%s) end" % self.lit(NUM), "if not so start", "  " + store, "  " + jump, "end"]
        other = r.choice([["shout(%s)" % v], ['shout("other {%s}")' % v], ["%s get %s" % (v, self.lit(ty))], ["shout(%s)" % self.lit(NUM)]])
        in_else = r.random() < 0.65
        th, el = (other, jumper) if in_else else (jumper, other)
        body.append("if to say (%s) start" % cond)
        body += ["  " + l for l in th]
        body.append("end")
        if in_else or r.random() < 0.6:
            body.append("if not so start")
            body += ["  " + l for l in el]
            body.append("end")
        tail = r.randrange(4)
        if tail == 0:
            body.append("shout(%s)" % v)
        elif tail == 1:
            body.append("%s get %s" % (v, self.lit(ty)))
        elif tail == 2 and rd_fn:
            body.append("shout(%s())" % rd_fn)
        if r.random() < 0.25:
            body = ["start"] + ["  " + b for b in body] + ["end"]
        lines += ["%s  %s" % (pad, b) for b in body] + ["%send" % pad]
        if r.random() < 0.7:
            lines.append("%sshout(%s)" % (pad, v))
        return lines

    # ---- more than 64 locals of a nested function interleaved with the enclosing function's locals
    # ---- round 2: stores that are dead only flow-sensitively: across a call that does not read them, around a
    #      recursive call, on every path of a loop with next/comot, at a scope exit, inside a callee with captures
    def t_ds_flow(self, ind):
        r, pad = self.r, "  " * ind
        ty = r.choice([STR, STR, NUM])
        lines = []
        form = r.randrange(6)
        if form in (0, 1, 4) and not self.can_fn():
            form = 2
        if form in (2, 3) and self.loop_depth >= 2:
            form = 5
        x = self.newvar(ty, pad, lines)
        if form == 0:
            # the callee reads ANOTHER captured variable and may write x: only the store before the overwrite is dead
            y = self.newvar(ty, pad, lines)
            f, g = self.fresh("f"), self.fresh("f")
            lines += ["%sdo %s() start" % (pad, f), "%s  return %s" % (pad, y.name), "%send" % pad,
                      "%sdo %s(c) start" % (pad, g), "%s  if to say (c) start %s get %s end" % (pad, x.name, self.lit(ty)), "%s  return 0" % pad, "%send" % pad,
                      "%s%s get %s" % (pad, x.name, self.lit(ty)), "%s%s get %s" % (pad, y.name, self.lit(ty)),
                      "%sshout(%s())" % (pad, f), "%s%s get %s" % (pad, x.name, self.lit(ty)),
                      "%s%s(%s)" % (pad, g, r.choice(["true", "false"])), "%sshout(%s)" % (pad, x.name),
                      "%s%s get %s" % (pad, y.name, self.lit(ty))]
            if r.random() < 0.5:
                lines.append("%sshout(%s())" % (pad, f))
        elif form == 1:
            # recursion: the caller's local is another slot
            f = self.fresh("f")
            lines += ["%sdo %s(n) start" % (pad, f), "%s  make t get %s" % (pad, self.lit(ty)), "%s  t get %s" % (pad, self.lit(ty)),
                      "%s  if to say (n pass 0) start" % pad, "%s    t get %s" % (pad, self.lit(ty)),
                      "%s    %s get %s(n minus 1)" % (pad, x.name, f) if ty == STR else "%s    %s(n minus 1)" % (pad, f),
                      "%s    t get %s" % (pad, self.lit(ty)), "%s  end" % pad]
            if r.random() < 0.5:
                lines.append("%s  shout(t)" % pad)
            lines += ["%s  t get %s" % (pad, self.lit(ty)), "%s  return t" % pad, "%send" % pad,
                      "%sshout(%s(%d))" % (pad, f, r.randint(0, 2)), "%sshout(%s)" % (pad, x.name)]
        elif form == 2:
            # every path of the loop body overwrites before reading; one path leaves through next, one through comot
            i = self.fresh("v")
            lines += ["%smake %s get 0" % (pad, i), "%sjasi (%s small pass %d) start" % (pad, i, r.randint(1, 3)),
                      "%s  %s get %s add 1" % (pad, i, i), "%s  %s get %s" % (pad, x.name, self.lit(ty)),
                      "%s  if to say (%s pass 1) start" % (pad, i), "%s    %s get %s" % (pad, x.name, self.lit(ty)),
                      "%s    %s" % (pad, r.choice(["next", "comot", "next"])), "%s  end" % pad,
                      "%s  %s get %s" % (pad, x.name, self.lit(ty))]
            self.declare(i, NUM)
            if r.random() < 0.6:
                lines.append("%s  shout(%s)" % (pad, x.name))
            lines += ["%send" % pad]
            if r.random() < 0.6:
                lines.append("%sshout(%s)" % (pad, x.name))
        elif form == 3:
            # loop-carried through the head: the store at the end of the body is read by the next iteration's condition-free read
            i = self.fresh("v")
            lines += ["%smake %s get 0" % (pad, i), "%sjasi (%s small pass %d) start" % (pad, i, r.randint(2, 4)),
                      "%s  %s get %s add 1" % (pad, i, i)]
            self.declare(i, NUM)
            if r.random() < 0.7:
                lines.append("%s  shout(%s)" % (pad, x.name))
            if r.random() < 0.7:
                # a store that reaches the next iteration only through `next` (back edge to the loop head)
                lines += ["%s  if to say (%s pass 1) start" % (pad, i), "%s    %s get %s" % (pad, x.name, self.lit(ty)),
                          "%s    %s" % (pad, r.choice(["next", "next", "comot"])), "%s  end" % pad]
            lines += ["%s  %s get %s" % (pad, x.name, self.lit(ty)), "%s  start" % pad, "%s    %s get %s" % (pad, x.name, self.lit(ty)),
                      "%s    if to say (%s pass 2) start comot end" % (pad, i), "%s  end" % pad,
                      "%s  %s get %s" % (pad, x.name, self.lit(ty)), "%send" % pad, "%s%s get %s" % (pad, x.name, self.lit(ty))]
            if r.random() < 0.7:
                lines.append("%sshout(%s)" % (pad, x.name))
        elif form == 4:
            # inside a callee: its own local dies at return, the captured one does not
            f = self.fresh("f")
            lines += ["%sdo %s(p) start" % (pad, f), "%s  make t get p" % pad, "%s  %s get %s" % (pad, x.name, self.lit(ty)),
                      "%s  start" % pad, "%s    make k get t" % pad, "%s    t get %s" % (pad, self.lit(ty)), "%s    k get %s" % (pad, self.lit(ty)), "%s  end" % pad,
                      "%s  if to say (p na null) start" % pad, "%s    t get %s" % (pad, self.lit(ty)), "%s    return 1" % pad, "%s  end" % pad,
                      "%s  t get %s" % (pad, self.lit(ty)), "%s  return [t]" % pad, "%send" % pad,
                      "%s%s get %s" % (pad, x.name, self.lit(ty)), "%sshout(%s(%s))" % (pad, f, r.choice(["null", "1", self.lit(STR)])),
                      "%sshout(%s)" % (pad, x.name)]
        else:
            # scope exit and branches
            lines += ["%s%s get %s" % (pad, x.name, self.lit(ty)), "%sstart" % pad, "%s  make t get %s" % (pad, x.name),
                      "%s  %s get %s" % (pad, x.name, self.lit(ty)), "%s  t get %s" % (pad, self.lit(ty)),
                      "%s  if to say (%s) start %s get %s end if not so start %s get %s end" % (pad, self.expr(BOOL, 2), x.name, self.lit(ty), x.name, self.lit(ty)),
                      "%send" % pad]
            if r.random() < 0.7:
                lines.append("%sshout(%s)" % (pad, x.name))
        return lines

    # ---- round 3: the shapes that used to lie outside every proved class
    def t_round3(self, ind):
        r, pad = self.r, "  " * ind
        ty = r.choice([STR, NUM])
        lines = []
        form = r.randrange(7)
        if form in (0, 1, 5) and not self.can_fn():
            form = 2
        if form == 6 and self.loop_depth >= 2:
            form = 3
        if form == 0:
            # FIRST declaration that only an unused function mentions
            x = self.fresh("u")
            g = self.fresh("f")
            lines += ["%smake %s get %s" % (pad, x, r.choice([self.lit(ty), "[1, %s]" % self.lit(STR), "typeof(%s)" % self.lit(ty)])),
                      "%sdo %s() start" % (pad, g), "%s  shout(%s)" % (pad, x), "%s  return %s" % (pad, x), "%send" % pad,
                      "%sshout(%s)" % (pad, self.lit(NUM))]
        elif form == 1:
            # FIRST declaration that only dead code mentions
            f = self.fresh("f")
            lines += ["%sdo %s(c) start" % (pad, f), "%s  make t get %s" % (pad, self.lit(ty)),
                      "%s  if to say (c) start return 1 end if not so start return 2 end" % pad, "%s  shout(t)" % pad, "%s  t get %s" % (pad, self.lit(ty)), "%send" % pad,
                      "%sshout(%s(%s))" % (pad, f, r.choice(["true", "false"]))]
        elif form == 2:
            # dead stores / unused declarations whose right-hand side is a pure built-in call
            x = self.newvar(ty, pad, lines)
            rhs = r.choice(["typeof(%s)" % x.name, "to_string(%s)" % x.name, "to_string([%s, 1])" % x.name, "typeof(to_string(%s))" % self.lit(ty),
                            "[typeof(%s), %s]" % (x.name, x.name), "to_string(\"{%s}\")" % x.name])
            if r.random() < 0.5:
                lines.append("%smake %s get %s" % (pad, self.fresh("u"), rhs))
            else:
                y = self.newvar(STR, pad, lines)
                lines += ["%s%s get %s" % (pad, y.name, rhs), "%s%s get %s" % (pad, y.name, self.lit(STR)), "%sshout(%s)" % (pad, y.name)]
            lines.append("%sshout(%s)" % (pad, x.name))
        elif form == 3:
            # operator trees over literals and template strings
            x = self.newvar(ty, pad, lines)
            rhs = r.choice(['"a" add "{%s}"' % x.name, '"{%s}" add 1' % x.name, '2 add "{%s}!"' % x.name, '"{%s}" na "x"' % x.name,
                            '"{%s}" pass "b" or false' % x.name, '[1 add 2, "p{%s}" add "q"]' % x.name])
            if r.random() < 0.5:
                lines.append("%smake %s get %s" % (pad, self.fresh("u"), rhs))
            else:
                y = self.newvar(STR, pad, lines)
                lines += ["%s%s get %s" % (pad, y.name, rhs), "%s%s get %s" % (pad, y.name, self.lit(STR)), "%sshout(%s)" % (pad, y.name)]
            lines.append("%sshout(%s)" % (pad, x.name))
        elif form == 4:
            # a member access that is not a call always raises Type mismatch: must never be pruned
            x = self.newvar(STR, pad, lines)
            u = self.fresh("u")
            lines += ["%sif to say (%s) start" % (pad, r.choice(["true", "false", "false"])),
                      "%s  make %s get %s" % (pad, u, r.choice(["%s.len" % x.name, "[1, %s.trim]" % x.name])), "%send" % pad,
                      "%sshout(%s)" % (pad, x.name)]
        elif form == 5:
            # result of a pure, trap-free user function never used
            f = self.fresh("f")
            body = r.choice([["make t get [p, 1]", 'return "{t}"'], ["if to say (true) start return p end", "return 0"],
                             ["make k get 0", "k get typeof(p)", "return [k, p]"], ["return to_string(p)"]])
            lines += ["%sdo %s(p) start" % (pad, f)] + ["%s  %s" % (pad, b) for b in body] + ["%send" % pad]
            if r.random() < 0.5:
                lines.append("%smake %s get %s(%s)" % (pad, self.fresh("u"), f, self.lit(ty)))
            else:
                y = self.newvar(STR, pad, lines)
                lines += ["%s%s get %s(%s)" % (pad, y.name, f, self.lit(ty)), "%s%s get %s" % (pad, y.name, self.lit(STR)), "%sshout(%s)" % (pad, y.name)]
            lines.append("%sshout(%s)" % (pad, self.lit(NUM)))
        else:
            # FIRST declaration in a loop body / branch that nothing reads
            i = self.fresh("v")
            lines += ["%smake %s get 0" % (pad, i), "%sjasi (%s small pass 2) start" % (pad, i), "%s  %s get %s add 1" % (pad, i, i),
                      "%s  make w get %s" % (pad, r.choice([self.lit(ty), "typeof(%s)" % i, '"n{%s}" add "!"' % i])),
                      "%s  if to say (%s pass 1) start make w get %s end" % (pad, i, self.lit(ty)), "%send" % pad, "%sshout(%s)" % (pad, i)]
            self.declare(i, NUM)
        return lines

    def t_many_locals(self, ind):
        if not self.can_fn() or self.r.random() < 0.85:
            return None
        r, pad = self.r, "  " * ind
        g = self.fresh("f")
        a, b = self.fresh("v"), self.fresh("v")
        n = r.choice([62, 63, 64, 65, 70, 130])
        lines = ["%smake %s get 1" % (pad, a), "%sdo %s() start" % (pad, g)]
        lines += ["%s  make l%d get %d" % (pad, k, k) for k in range(n)]
        lines += ["%s  return l%d add l0" % (pad, n - 1), "%send" % pad, "%smake %s get 2" % (pad, b),
                  "%s%s get %s add %s" % (pad, a, a, b)]
        if r.random() < 0.5:
            lines.append("%sshout(%s())" % (pad, g))
        lines.append("%sshout(%s add %s)" % (pad, a, b))
        self.declare(a, NUM)
        self.declare(b, NUM)
        return lines


def _summary_rounds(k, edges, order, special, sticky):
    """transitive-capture propagation of src/analysis/summary.rs over the call graph `edges` (function ids =
    declaration order `order`), with the sticky `changed` flag or with a flag that only the last edge of a
    round decides.  Used only to BIAS the generator towards arrangements in which the two schedules differ
    (groups whose last-numbered member converges before an earlier one); -> set of nodes that know `special`."""
    fid = dict((node, i) for i, node in enumerate(order))
    callees = dict((i, set(edges[i])) for i in range(k))
    knows = dict((i, i == special) for i in range(k))
    # strongly connected components by mutual reachability (k <= 6)
    reach = dict((i, set(edges[i])) for i in range(k))
    for _ in range(k):
        for i in range(k):
            for j in list(reach[i]):
                reach[i] |= reach[j]
    comp = {}
    for i in range(k):
        comp[i] = frozenset([i] + [j for j in reach[i] if i in reach[j]])
    comps = []
    for c in set(comp.values()):
        comps.append(c)
    done = set()
    pending = list(comps)
    while pending:
        for c in pending:
            outs = set(j for i in c for j in reach[i]) - c
            if outs <= done:
                break
        pending.remove(c)
        members = sorted(c, key=lambda n: fid[n])
        changed = True
        rounds = 0
        while changed and rounds < 50:
            rounds += 1
            changed = False
            for f in members:
                for g in edges[f]:
                    if g == f:
                        continue
                    grew = False
                    new = callees[g] - callees[f]
                    if new:
                        callees[f] |= new
                        grew = True
                    if knows[g] and not knows[f]:
                        knows[f] = True
                        grew = True
                    if sticky:
                        changed = changed or grew
                    else:
                        changed = grew
        done |= c
    return set(i for i in range(k) if knows[i])


_STR_RE = re.compile(r'"(?:[^"\\]|\\.)*"')


def tag_shouts(src):
    """wrap the argument of every `shout(` in `"@k@" add to_string(...)` with a unique k"""
    out = []
    i = 0
    k = 0
    n = len(src)
    while i < n:
        if src.startswith("shout(", i) and (i == 0 or not (src[i - 1].isalnum() or src[i - 1] == "_")):
            # find the matching parenthesis, skipping string literals
            j = i + 6
            depth = 1
            while j < n and depth > 0:
                c = src[j]
                if c == '"':
                    m = _STR_RE.match(src, j)
                    j = m.end() if m else j + 1
                    continue
                if c == "(":
                    depth += 1
                elif c == ")":
                    depth -= 1
                j += 1
            inner = src[i + 6:j - 1]
            k += 1
            out.append('shout("@%d@" add to_string(%s))' % (k, tag_shouts_inner(inner)))
            i = j
        elif src[i] == '"':
            m = _STR_RE.match(src, i)
            e = m.end() if m else i + 1
            out.append(src[i:e])
            i = e
        else:
            out.append(src[i])
            i += 1
    return "".join(out)


def tag_shouts_inner(s):
    return s


def gen_program(rng, tier):
    opts = langgen.Opts(p_unused=0.2, p_dead=0.12, p_trap=0.08, p_capture_write=0.7, p_fn=0.24, p_shadow=0.35,
                        str_long=0.02, max_stmts=rng.choice([6, 9, 12]) if tier == "quick" else rng.choice([8, 12, 16]))
    g = C03Gen(rng, opts)
    src = tag_shouts(g.program())
    return src, g.stats, g.tstats


# --------------------------------------------------------------------------------------------
# reading the implementation's AST dump (only what the oracles need)

class Node:
    __slots__ = ("kind", "sid", "kids", "fname", "tags", "parent", "infn")

    def __init__(self, kind, sid):
        self.kind, self.sid, self.kids, self.fname, self.tags, self.parent, self.infn = kind, sid, [], None, [], None, None


def parse_ast(line):
    """-> (root blocks as list of Node, all statement nodes).  Each shout statement node carries the tags
    found in string literals of its expression."""
    toks = line.split()[1:]
    pos = [0]

    def nxt():
        t = toks[pos[0]]
        pos[0] += 1
        return t

    def sid():
        t = nxt()
        return None if t == "-" else int(t)

    strs = []

    def expr():
        t = nxt()
        if t == "N":
            nxt()
        elif t == "S":
            strs.append(nxt())
        elif t == "I":
            for _ in range(int(nxt())):
                if nxt() == "L":
                    strs.append(nxt())
                else:
                    nxt()
                    nxt()
        elif t == "B":
            nxt()
        elif t == "Z":
            pass
        elif t == "V":
            nxt()
            nxt()
        elif t == "O":
            nxt()
            expr()
            expr()
        elif t == "U":
            nxt()
            expr()
        elif t == "A":
            for _ in range(int(nxt())):
                expr()
        elif t == "X":
            expr()
            expr()
        elif t == "M":
            expr()
            nxt()
        elif t == "C":
            expr()
            for _ in range(int(nxt())):
                expr()
            nxt()
        else:
            raise ValueError("expr " + t)

    allnodes = []

    def block(parent, infn):
        out = []
        for _ in range(int(nxt())):
            out.append(stmt(parent, infn))
        return out

    def stmt(parent, infn):
        t = nxt()
        nd = Node(t, sid())
        nd.parent, nd.infn = parent, infn
        allnodes.append(nd)
        del strs[:]
        if t == "F":
            nd.fname = bytes.fromhex(nxt()).decode("utf-8", "replace")
            for _ in range(int(nxt())):
                nxt()
            nd.kids = [block(nd, nd)]
            nxt()
            nxt()
            nxt()
        elif t in ("K", "T"):
            nxt()
            nxt()
            expr()
        elif t == "J":
            expr()
            expr()
        elif t == "IF":
            expr()
            mine = list(strs)
            nd.kids = [block(nd, infn)]
            if nxt() == "1":
                nd.kids.append(block(nd, infn))
            del strs[:]
            strs.extend(mine)
        elif t == "W":
            expr()
            mine = list(strs)
            nd.kids = [block(nd, infn)]
            del strs[:]
            strs.extend(mine)
        elif t == "BL":
            nd.kids = [block(nd, infn)]
            del strs[:]
        elif t == "R":
            if nxt() == "1":
                expr()
        elif t in ("BR", "NX"):
            pass
        elif t == "EX":
            expr()
        else:
            raise ValueError("stmt " + t)
        for h in strs:
            if h != "-":
                try:
                    txt = bytes.fromhex(h).decode("utf-8", "replace")
                except ValueError:
                    continue
                nd.tags += re.findall(r"@(\d+)@", txt)
        return nd

    root = block(None, None)
    return root, allnodes


def printed_tags(vals):
    """shout tags and value tags found in the printed values of one run"""
    st, vt = set(), set()
    for m in re.finditer(r"s:([0-9a-f]+)", vals):
        try:
            txt = bytes.fromhex(m.group(1)).decode("utf-8", "replace")
        except ValueError:
            continue
        st.update(re.findall(r"@(\d+)@", txt))
        vt.update(re.findall(r"%(\d+)%", txt))
    return st, vt


def diag_fields(d):
    p = d.split(" ")
    # phase severity code message-hex start end [first-label-hex]
    try:
        msg = bytes.fromhex(p[3]).decode("utf-8", "replace") if p[3] != "-" else ""
    except ValueError:
        msg = p[3]
    return p[0], p[1], msg, int(p[4]), int(p[5])


_CALL_RE = re.compile(r"[A-Za-z_][A-Za-z0-9_]*\s*\(")


# --------------------------------------------------------------------------------------------
# syntactic shape of the pruned statements (round 3: what lies outside the proved classes)

_BUILTINS = {"shout", "typeof", "read_line", "to_string", "command"}
_RANKS = ["literal", "trapping-operator-on-literals", "variable", "template-string", "operator-over-variables", "builtin-call",
          "user-call", "member-access", "index", "method-call"]


def entry_shapes(ast_line):
    """-> {stmt id (str): "declaration-first|declaration-again|assignment / <rhs shape>"} for every make/assignment.
    rhs shape = the highest-ranked construct of _RANKS that occurs in the right-hand side (arrays are transparent)."""
    toks = ast_line.split()[1:]
    pos = [0]

    def nxt():
        t = toks[pos[0]]
        pos[0] += 1
        return t

    def rk(name):
        return _RANKS.index(name)

    def expr():
        t = nxt()
        if t in ("N", "S", "B"):
            nxt()
            return 0
        if t == "Z":
            return 0
        if t == "I":
            r = 0
            for _ in range(int(nxt())):
                if nxt() == "L":
                    nxt()
                else:
                    nxt()
                    nxt()
                    r = rk("template-string")
            return r
        if t == "V":
            nxt()
            nxt()
            return rk("variable")
        if t == "O":
            op = nxt()
            r = max(expr(), expr())
            if r == 0 and op in ("divide", "mod"):
                return rk("trapping-operator-on-literals")
            if r in (rk("variable"), rk("template-string")):
                return rk("operator-over-variables")
            return r
        if t == "U":
            nxt()
            r = expr()
            return rk("operator-over-variables") if r in (rk("variable"), rk("template-string")) else r
        if t == "A":
            r = 0
            for _ in range(int(nxt())):
                r = max(r, expr())
            return r
        if t == "X":
            return max(expr(), expr(), rk("index"))
        if t == "M":
            r = expr()
            nxt()
            return max(r, rk("member-access"))
        if t == "C":
            # callee
            c = nxt()
            if c == "V":
                nm = bytes.fromhex(nxt()).decode("utf-8", "replace")
                nxt()
                r = rk("builtin-call") if nm in _BUILTINS else rk("user-call")
            elif c == "M":
                r = max(expr(), rk("method-call"))
                nxt()
            else:
                pos[0] -= 1
                r = max(expr(), rk("method-call"))
            for _ in range(int(nxt())):
                r = max(r, expr())
            nxt()
            return r
        raise ValueError("expr " + t)

    shapes = {}

    def block(scopes):
        scopes = scopes + [set()]
        for _ in range(int(nxt())):
            stmt(scopes)

    def stmt(scopes):
        t = nxt()
        sid = nxt()
        if t == "F":
            nxt()
            for _ in range(int(nxt())):
                nxt()
            block([set()])
            nxt()
            nxt()
            nxt()
        elif t in ("K", "T"):
            nxt()
            lid = nxt()
            r = expr()
            if t == "T":
                kind = "assignment"
            elif lid in scopes[-1]:
                kind = "declaration-again"
            else:
                kind = "declaration-first"
                scopes[-1].add(lid)
            shapes[sid] = "%s / %s" % (kind, _RANKS[r])
        elif t == "J":
            expr()
            expr()
        elif t == "IF":
            expr()
            block(scopes)
            if nxt() == "1":
                block(scopes)
        elif t == "W":
            expr()
            block(scopes)
        elif t == "BL":
            block(scopes)
        elif t == "R":
            if nxt() == "1":
                expr()
        elif t in ("BR", "NX"):
            pass
        elif t == "EX":
            expr()
        else:
            raise ValueError("stmt " + t)

    block([])
    return shapes


# --------------------------------------------------------------------------------------------
# the literal-operator family (fourth wave, C03-d2): the implementation-side test of C03_pure_total_never_errors.
# Every binary / unary operator x every pair of LITERAL operand kinds (number, string, boolean, null, array, template
# string, literal-only trees of depth 2), as the right-hand side of (a) an unused declaration, (b) an overwritten store,
# (c) the return expression of a function whose call result is dead, (d) an expression statement.  Acceptance is taken
# from the real front end; the oracle is the usual one (plain run = pruned run, outputs and ending); the extracted
# classifier puts a pruned literal-only tree its typing refuses in NO class (broken obligation).

_LIT_OPERANDS = [("n", "3"), ("n", "0"), ("s", '"s"'), ("b", "true"), ("b", "false"), ("z", "null"), ("a", "[1, 2]"), ("s", '"t{w}"')]
_BINOPS = ["add", "minus", "times", "divide", "mod", "and", "or", "na", "pass", "small pass"]
_UNOPS = ["not", "minus"]


def _lit_bin_ty(op, a, b):
    """replica of PlanCheck.bin_ty, used ONLY to pack trees that should not trap into one program"""
    if a is None or b is None:
        return None
    if op == "add":
        if a == "n" and b == "n":
            return "n"
        return "s" if (a, b) in (("s", "s"), ("s", "n"), ("n", "s")) else None
    if op in ("minus", "times"):
        return "n" if a == "n" and b == "n" else None
    if op in ("divide", "mod"):
        return None
    if op in ("and", "or"):
        return "b" if a in "bz" and b in "bz" else None
    if (a, b) in (("n", "n"), ("s", "s"), ("b", "b")) or a == "z" or b == "z":
        return "b"
    return None


def _lit_un_ty(op, a):
    if a is None:
        return None
    if op == "not":
        return "b" if a in "bz" else None
    return "n" if a == "n" else None


def literal_trees(full):
    """-> [(type predicted by the replica or None, source text)]"""
    trees = []
    for op in _BINOPS:
        for ta, a in _LIT_OPERANDS:
            for tb, b in _LIT_OPERANDS:
                trees.append((_lit_bin_ty(op, ta, tb), "%s %s %s" % (a, op, b)))
    for op in _UNOPS:
        for ta, a in _LIT_OPERANDS:
            trees.append((_lit_un_ty(op, ta), "%s %s" % (op, a)))
    # depth 2: one operand is itself a literal-only tree (parenthesised), the other a literal
    inner = [(t, "(%s)" % e) for t, e in trees if (" add " in e or " and " in e or " na " in e or e.startswith("not ") or " minus " in e)]
    # a spread over the predicted types (number, string, boolean, refused)
    by = {}
    for t, e in inner:
        by.setdefault(t, []).append((t, e))
    per = 10 if full else 2
    inner = [x for t in sorted(by, key=str) for x in by[t][::max(1, len(by[t]) // per)][:per]]
    for ti, ie in inner:
        for op in _BINOPS:
            for tb, b in (_LIT_OPERANDS if full else [_LIT_OPERANDS[0], _LIT_OPERANDS[2], _LIT_OPERANDS[3], _LIT_OPERANDS[5]]):
                trees.append((_lit_bin_ty(op, ti, tb), "%s %s %s" % (ie, op, b)))
                trees.append((_lit_bin_ty(op, tb, ti), "%s %s %s" % (b, op, ie)))
        for op in _UNOPS:
            trees.append((_lit_un_ty(op, ti), "%s %s" % (op, ie)))
    return trees


def _lit_context(k, ctx, tree):
    """statements exercising one tree in context ctx (0..3); k numbers the tagged shouts"""
    if ctx == 0:
        return ["make u%d get %s" % (k, tree), 'shout("@%d@" add to_string(%d))' % (k, k)]
    if ctx == 1:
        return ['make v%d get "i"' % k, "v%d get %s" % (k, tree), 'v%d get "o"' % k, 'shout("@%d@" add to_string(v%d))' % (k, k)]
    if ctx == 2:
        return ["do f%d() start" % k, "  return %s" % tree, "end", 'make r%d get "i"' % k, "r%d get f%d()" % (k, k), 'r%d get "o"' % k,
                'shout("@%d@" add to_string(r%d))' % (k, k)]
    return ["%s" % tree, 'shout("@%d@" add to_string(%d))' % (k, k)]


def literal_family(env, quick):
    trees = literal_trees(not quick)
    cases = []
    pack, n = [], 0
    for idx, (ty, tree) in enumerate(trees):
        off = env.seed if hasattr(env, "seed") else 0
        if quick:
            # (d) a bare literal tree is almost never a statement for the parser: thorough tier only
            ctxs = [0, 1, 2] if idx < 672 else [(idx + off) % 3]
        else:
            ctxs = [0, 1, 2, 3] if idx < 672 else [idx % 4, (idx + 2) % 4]
        for ctx in sorted(set(ctxs)):
            if ty is not None and ctx != 3:
                pack.append((ctx, tree))            # predicted trap-free: many per program
                if len(pack) == 12:
                    cases.append(pack)
                    pack = []
            else:
                cases.append([(ctx, tree)])         # predicted to trap (or an expression statement): alone
    if pack:
        cases.append(pack)
    out = []
    for ci, items in enumerate(cases):
        lines = ["make w get 1", 'shout("@0@" add to_string(w))']
        for k, (ctx, tree) in enumerate(items):
            lines += _lit_context(k + 1, ctx, tree)
        out.append(("lit/%d" % ci, "\n".join(lines) + "\n"))
    return out


def doc_programs():
    """/repo/examples/*.ns and the fenced code blocks of README.md and docs/*.md"""
    repo = os.environ.get("VERIF_REPO", "/repo")
    out = []
    ex = os.path.join(repo, "examples")
    if os.path.isdir(ex):
        for fn in sorted(os.listdir(ex)):
            if fn.endswith(".ns"):
                out.append(("doc/examples/" + fn, open(os.path.join(ex, fn), encoding="utf-8", errors="replace").read()))
    mds = [os.path.join(repo, "README.md")]
    dd = os.path.join(repo, "docs")
    if os.path.isdir(dd):
        mds += [os.path.join(dd, fn) for fn in sorted(os.listdir(dd)) if fn.endswith(".md")]
    for md in mds:
        if not os.path.exists(md):
            continue
        txt = open(md, encoding="utf-8", errors="replace").read()
        for k, m in enumerate(re.finditer(r"```[A-Za-z]*\n(.*?)```", txt, re.S)):
            body = m.group(1)
            if "read_line" in body or "command(" in body or len(body) > 6000:
                continue                      # would wait for input / spawn a process
            out.append(("doc/%s#%d" % (os.path.basename(md), k), body if body.endswith("\n") else body + "\n"))
    return out


# --------------------------------------------------------------------------------------------
# verdict lines of `nsmodel langc03`

def run_planok(env, name, recs, order):
    inp = os.path.join(env.work, name + ".model.in")       # written by langrun.run_model
    outp = os.path.join(env.work, name + ".planok")
    if not os.path.exists(inp):
        with open(inp, "w") as f:
            for cid in order:
                r = recs.get(cid)
                if r and r.get("ast") and r.get("plan"):
                    f.write("case %s\n%s\n%s\nend %s\n" % (cid, r["ast"], r["plan"], cid))
    rc, out = common.sh([common.NSMODEL, "langc03", inp, outp], timeout=900)
    if rc != 0:
        raise RuntimeError("nsmodel langc03 failed: %s" % out[-400:])
    res = {}
    cur = None
    for l in open(outp).read().splitlines():
        if l.startswith("case "):
            cur = l[5:]
        elif l.startswith("verdict ") and cur is not None:
            if l == "verdict none":
                res[cur] = None
                continue
            parts = [p.strip() for p in l[8:].split("|")]
            ent = lambda s: [tuple(x.split(":")) for x in s.split()] if s else []
            rs = parts[3].split()
            fi = rs.index("F")
            res[cur] = {"checked": parts[0] == "1", "stmts": ent(parts[1]), "fns": ent(parts[2]),
                        "residual": (rs[1:fi], rs[fi + 1:])}
        elif l.startswith("verdict2 ") and cur is not None and res.get(cur):
            parts = [p.strip() for p in l[9:].split("|")]
            ent = lambda s: [tuple(x.split(":")) for x in s.split()] if s else []
            rs = parts[2].split()
            fi = rs.index("F")
            c1, c2 = parts[0].split()
            v = res[cur]
            v["checked2"] = (c1 == "1", c2 == "1")
            v["residual2"] = (rs[1:fi], rs[fi + 1:])
            aug = dict(ent(parts[1]))
            # an entry the plain classifier leaves to the oracle but the augmented plan covers
            v["stmts"] = [(i, "N2" if (k == "NM" and aug.get(i) == "N") else k) for i, k in v["stmts"]]
        elif l.startswith("verdict3 ") and cur is not None and res.get(cur):
            # round 2: residual entries the verified liveness checker (LiveCheck.ds_ok) accepts as dead stores
            parts = [p.strip() for p in l[9:].split("|")]
            c1, c2 = parts[0].split()
            rs = parts[2].split()
            fi = rs.index("F")
            v = res[cur]
            v["checked3"] = (c1 == "1", c2 == "1")
            v["acc3"] = set(parts[1].split()[1:])
            v["residual3"] = (rs[1:fi], rs[fi + 1:])
        elif l.startswith("verdict4 ") and cur is not None and res.get(cur):
            # round 4: plan_ok4 = plan_ok3 with right-hand sides that call pure, trap-free user functions
            parts = [p.strip() for p in l[9:].split("|")]
            c1, c2 = parts[0].split()
            rs = parts[2].split()
            fi = rs.index("F")
            v = res[cur]
            v["checked4"] = (c1 == "1", c2 == "1")
            v["acc4"] = set(parts[1].split()[1:])
            v["residual4"] = (rs[1:fi], rs[fi + 1:])
    return res


# --------------------------------------------------------------------------------------------

def failure_key(rec, verdict):
    nn = rec["runs"].get("nn", ("", ""))
    pn = rec["runs"].get("pn", ("", ""))
    classes = set(k for _, k in (verdict or {}).get("stmts", []))
    if "Type_mismatch" in nn[0] and "Type_mismatch" not in pn[0]:
        # a pruned entry the classifier puts in no class (bare member access) vs. operators on dynamically typed operands
        return KEY_MEMBER if "X" in classes else KEY_TYPEMIS
    if "DC" in classes:
        return KEY_IMPURE
    if "DS" in classes:
        return KEY_KILL
    if "NM" in classes:
        return KEY_TYPEMIS
    return None


def judge(cid, src, rec, mrec, verdict, out, known_key=None):
    """evaluates the oracles and the model ties for one program"""
    fails = []
    crash = rec.get("crash")
    if crash and crash[0] == "frontend":
        text = crash[2] or ""
        if known_key == KEY_BITSET or "liveness.rs" in text:
            key = KEY_BITSET
        else:
            key = "analysis-crashes-front-end/" + common.chash(src)[:8]
        out["failures"].append({"key": key, "kind": "front-end-crash", "case": src,
                                "observed": "front end crashed (%s): %s" % (crash[1], text[-200:])})
        return
    if not rec.get("accepted"):
        out["rejected"] += 1
        return
    out["accepted"] += 1
    plan = rec.get("plan") or "plan none"
    toks = plan.split()
    ss, fs = [], []
    if len(toks) > 1 and toks[1] == "S":
        fi = toks.index("F")
        ss, fs = toks[2:fi], toks[fi + 1:]
    if ss or fs:
        out["plans_nonempty"] += 1
    # --- oracle A: plan vs no plan
    for a, b in (("pn", "nn"), ("pf", "nf")):
        same = langcheck.same_behaviour(rec, a, b)
        if same is False:
            fails.append(("plan-changes-behaviour", "%s: %s | %s   %s: %s | %s" % (
                a, langrun.panic_text(rec["runs"][a][0])[:120], rec["runs"][a][1][:160],
                b, langrun.panic_text(rec["runs"][b][0])[:120], rec["runs"][b][1][:160])))
            break
    # --- implementation must not panic/crash in any configuration (a panic with the plan only is a C03 matter)
    bad = langcheck.crashed(rec)
    if bad and not fails:
        only_plan = [c for c, _ in bad if c.startswith("p")] and not [c for c, _ in bad if c.startswith("n")]
        if only_plan:
            fails.append(("plan-only-panic", str(bad[:2])))
        else:
            out["panics_both"] += 1
    # --- tags
    try:
        root, nodes = parse_ast(rec["ast"])
    except Exception as ex:          # the dump grammar changed: the tie no longer checks
        out["disagreements"].append({"stream": "ast-dump-unreadable", "case": src, "detail": str(ex)})
        return
    nn = rec["runs"].get("nn")
    if nn is not None:
        st_printed, vt_printed = printed_tags(nn[1])
        b = src.encode("utf-8")
        # function definition offsets by (unique) name
        fn_off = {}
        for m in re.finditer(rb"\bdo\s+([A-Za-z_][A-Za-z0-9_]*)\s*\(", b):
            fn_off.setdefault(m.group(1).decode(), m.start())
        tag_fn = {}
        for nd in nodes:
            for t in nd.tags:
                tag_fn[t] = nd.infn.fname if nd.infn is not None else None
        for d in rec["diags"]:
            phase, sev, msg, s0, s1 = diag_fields(d)
            if sev != "warning":
                continue
            region = b[s0:s1]
            if msg.startswith("Unreachable code"):
                out["warn"]["unreachable"] += 1
                for m in re.finditer(rb"@(\d+)@", region):
                    t = m.group(1).decode()
                    f = tag_fn.get(t)
                    if f is not None and fn_off.get(f, -1) >= s0:
                        continue        # inside a function DEFINED in the dead region: its body is a separate region
                    out["tags_checked"] += 1
                    if t in st_printed:
                        fails.append(("unreachable-statement-executed", "shout @%s@ lies in the region %d..%d reported unreachable and printed" % (t, s0, s1)))
            elif msg.startswith("Unused assignment"):
                out["warn"]["unused_assignment"] += 1
                txt = region.decode("utf-8", "replace")
                rhs = txt.split(" get ", 1)[1] if " get " in txt else ""
                if _CALL_RE.search(_STR_RE.sub('""', rhs)) or "." in _STR_RE.sub('""', rhs):
                    continue
                for m in re.finditer(r"%(\d+)%", rhs):
                    out["values_checked"] += 1
                    if m.group(1) in vt_printed:
                        fails.append(("never-read-value-observed", "value tag %%%s%% assigned at %d..%d (reported never read) was printed" % (m.group(1), s0, s1)))
            elif msg.startswith("Unused variable"):
                out["warn"]["unused_variable"] += 1
            elif msg.startswith("Unused function"):
                out["warn"]["unused_function"] += 1
    # --- non-trivial: plan non-empty and a pruned, not-unreachable statement lies in a block that was executed
    if (ss or fs) and nn is not None:
        byid = dict((nd.sid, nd) for nd in nodes if nd.sid is not None)
        vclass = dict((i, k) for i, k in (verdict or {}).get("stmts", []))
        executed = False
        for i in ss:
            nd = byid.get(int(i))
            if nd is None or vclass.get(i, "U") == "U":
                continue
            if nd.parent is None:
                executed = executed or langrun.ending_class(nn[0]) == "ok"
            sibs = nd.parent.kids if nd.parent is not None else [root]
            for blk in sibs:
                if nd in blk:
                    after = blk[blk.index(nd) + 1:]
                    if any(t in st_printed for sb in after for t in sb.tags):
                        executed = True
        if executed:
            out["nontrivial"].add(common.chash(src))
    # --- model ties
    if mrec is not None:
        status, detail = langcheck.compare(rec, mrec, cfgs=("nn", "pn"))
        out["compare"][status] = out["compare"].get(status, 0) + 1
        if status == "disagree":
            out["disagreements"].append({"stream": "lang-model-vs-implementation", "case": src, "detail": detail})
    if verdict is not None:
        out["verdicts"] += 1
        for i, k in verdict["stmts"]:
            out["classes"][k] = out["classes"].get(k, 0) + 1
        for i, k in verdict["fns"]:
            out["classes"][k] = out["classes"].get(k, 0) + 1
        # round 2: the same histogram with the entries LiveCheck.ds_ok accepts (theorem C03_plan_ok3_sound)
        acc3 = verdict.get("acc3", set())
        acc4 = verdict.get("acc4", set()) if all(verdict.get("checked4", (False, False))) else set()
        if all(verdict.get("checked4", (False, False))):
            # round 5: plan_ok4's own never-read class (plan_ok_x) covers entries too: everything outside its residual is covered
            acc4 = set(acc4) | (set(i for i, _ in verdict["stmts"]) - set(verdict["residual4"][0]))
        if "checked4" in verdict and not set(acc3) <= set(verdict.get("acc4", set())) and all(verdict["checked4"]):
            out["disagreements"].append({"stream": "plan_ok4-accepts-less-than-plan_ok3", "case": src,
                                         "detail": "acc3 %s acc4 %s" % (sorted(acc3), sorted(verdict.get("acc4", [])))})
        c3 = out.setdefault("classes3", {})
        for i, k in verdict["stmts"]:
            k3 = ("L:" + k) if (i in acc3 and k not in ("U", "N")) else (("C:" + k) if (i in acc4 and k not in ("U", "N")) else k)
            c3[k3] = c3.get(k3, 0) + 1
        for i, k in verdict["fns"]:
            c3[k] = c3.get(k, 0) + 1
        # round 3: syntactic shape of every entry that no theorem covers
        unp = [(i, k) for i, k in verdict["stmts"] if not (k in ("U", "N", "N2") or (i in acc3) or (i in acc4))]
        if unp:
            try:
                shp = entry_shapes(rec["ast"])
            except Exception as ex:
                shp = {}
                out["disagreements"].append({"stream": "ast-dump-unreadable", "case": src, "detail": "entry_shapes: %s" % ex})
            us = out.setdefault("unproved_shapes", {})
            for i, k in unp:
                key = "%s [%s]" % (shp.get(i, "not a make/assignment"), k)
                us[key] = us.get(key, 0) + 1
                ex_ = out.setdefault("unproved_examples", {})
                if key not in ex_ and len(src) < 1500:
                    ex_[key] = {"stmt": i, "plan": plan, "program": src}
        out["entries_unproved"] = out.get("entries_unproved", 0) + len(unp) + sum(1 for _, k in verdict["fns"] if k != "UF")
        if "checked3" in verdict:
            if not verdict["checked3"][1]:
                # ds_ok fails even with nothing accepted: a construct the liveness checker does not support
                out["liveness_structural_rejects"] = out.get("liveness_structural_rejects", 0) + 1
            r3 = verdict.get("residual3")
            if (verdict["stmts"] or verdict["fns"]) and all(verdict["checked3"]) and r3 is not None and not r3[0] and not r3[1]:
                out["plans_fully_covered3"] = out.get("plans_fully_covered3", 0) + 1
            bad3 = [i for i in acc3 if dict(verdict["stmts"]).get(i) in ("X", None)]
            if bad3:
                out["disagreements"].append({"stream": "liveness-checker-accepts-entry-in-no-class", "case": src,
                                             "detail": "ds_ok accepted %s of plan %s" % (bad3, plan)})
        elif verdict["stmts"] or verdict["fns"]:
            out["disagreements"].append({"stream": "verdict3-missing", "case": src, "detail": "nsmodel langc03 printed no verdict3 line"})
        if verdict["stmts"] or verdict["fns"]:
            if not verdict["residual"][0] and not verdict["residual"][1]:
                out["plans_fully_covered"] += 1
            r2 = verdict.get("residual2")
            if r2 is not None and not r2[0] and not r2[1] and all(verdict.get("checked2", (False, False))):
                out["plans_fully_covered2"] = out.get("plans_fully_covered2", 0) + 1
        if "checked2" in verdict and not all(verdict["checked2"]):
            out["disagreements"].append({"stream": "plan_ok2-hypothesis-fails", "case": src,
                                         "detail": "covered_ok (main, augmented) = %s for plan %s" % (verdict["checked2"], plan)})
        if not verdict["checked"]:
            out["disagreements"].append({"stream": "plan_ok-hypothesis-fails", "case": src,
                                         "detail": "covered_ok is false for plan %s: the classifier's own configuration is not accepted by the verified checker" % plan})
        noclass = [(i, k) for i, k in verdict["stmts"] + verdict["fns"] if k in ("X", "XF")]
        if noclass:
            out["disagreements"].append({"stream": "plan-entry-in-no-class", "case": src,
                                         "detail": "plan %s prunes %s, which is in none of the classes a pruned entry can belong to "
                                                   "(output/input/mutation/trapping expression, a non-assignment statement in a live position, or a function live code can call)" % (plan, noclass)})
    # --- cross-check of the proof side: a plan all of whose entries are in one of the four proved classes cannot
    #     change the behaviour of the MODEL (theorem C03_prune_sound_four_classes); if the implementation's behaviour
    #     changes on such a plan, either the model tie is broken or the checker/theorem pair is
    if verdict is not None and "checked3" in verdict and any(k == "plan-changes-behaviour" for k, _ in fails):
        r3 = verdict.get("residual3") or (["?"], [])
        if all(verdict["checked3"]) and verdict["checked"] and not r3[0] and not r3[1]:
            out["disagreements"].append({"stream": "theorem-covered-plan-changes-behaviour", "case": src,
                                         "detail": "plan %s is fully covered by the four class theorems (plan_ok3: %s) but the implementation behaves differently with it"
                                                   % (plan, sorted(verdict.get("acc3", [])))})
    for kind, what in fails:
        key = known_key or failure_key(rec, verdict) or (kind + "/" + common.chash(src)[:10])
        if kind != "plan-changes-behaviour" and known_key is None:
            key = kind + "/" + common.chash(src)[:10]
        out["failures"].append({"key": key, "kind": kind, "case": src, "plan": plan, "observed": what,
                                "classes": (verdict or {}).get("stmts")})


def new_out():
    return {"evaluations": 0, "accepted": 0, "rejected": 0, "failures": [], "disagreements": [], "compare": {},
            "nontrivial": set(), "classes": {}, "plans_nonempty": 0, "plans_fully_covered": 0, "verdicts": 0,
            "tags_checked": 0, "values_checked": 0, "panics_both": 0,
            "warn": {"unreachable": 0, "unused_assignment": 0, "unused_variable": 0, "unused_function": 0}}


def run_stream(env, name, cases, out, model=True, keys=None, timeout=1200):
    order = [c for c, _ in cases]
    srcs = dict(cases)
    recs = langrun.run_impl(env, name, cases, CFGS, timeout=timeout)
    mrecs, verdicts = {}, {}
    if model:
        # a program on which the implementation itself died natively or timed out in the plan-less run
        # (resource exhaustion, e.g. a string doubled in nested loops) is not handed to the model
        morder = []
        for cid in order:
            r = recs.get(cid)
            if r is None:
                continue
            e = r.get("runs", {}).get("nn", ("", ""))[0]
            if r.get("crash") or e.startswith("crash") or e == "timeout" or "Stack_overflow" in e:
                out["resource_exhaustion"] = out.get("resource_exhaustion", 0) + 1
                continue
            morder.append(cid)
        mrecs = model_robust(env, name, recs, morder, out)
        verdicts = run_planok(env, name, recs, order)
    for cid in order:
        rec = recs.get(cid)
        if rec is None:
            continue
        out["evaluations"] += 1
        judge(cid, srcs[cid], rec, mrecs.get(cid) if model else None, verdicts.get(cid) if model else None, out,
              known_key=(keys or {}).get(cid))
    return recs


def model_robust(env, name, recs, order, out, depth=0):
    """langrun.run_model, isolating a case on which the model executable itself dies (native stack)"""
    if not order:
        return {}
    try:
        return langrun.run_model(env, "%s.m%d.%d" % (name, depth, len(order)) if depth else name, recs, order)
    except RuntimeError:
        if len(order) == 1:
            out["model_executable_died"] = out.get("model_executable_died", 0) + 1
            return {}
        h = len(order) // 2
        a = model_robust(env, name + "a", recs, order[:h], out, depth + 1)
        a.update(model_robust(env, name + "b", recs, order[h:], out, depth + 1))
        return a


def shrink(env, f):
    """line-wise reduction of a failing generated program while the same kind of failure persists"""
    lines = f["case"].splitlines()
    if len(lines) > 60:
        return f
    n = [0]
    import time
    t0 = time.time()

    def pred(cand):
        n[0] += 1
        if n[0] > 150 or time.time() - t0 > 25:       # shrinking is a convenience: bounded in steps and time
            return False
        o = new_out()
        # removing a line can make a loop endless: a candidate that does not finish quickly is rejected
        run_stream(env, "shrink", [("s", "\n".join(cand) + "\n")], o, model=False, timeout=5)
        return any(x["kind"] == f["kind"] for x in o["failures"])
    small = common.ddmin_lines(lines, pred, keep_head=0)
    g = dict(f)
    g["case"] = "\n".join(small) + "\n"
    g["original"] = f["case"]
    return g


def correspond(env, searching=False, model=True):
    quick = env.tier == "quick"
    out = new_out()
    # 1. corpus
    corpus = [("corpus/%d/%s" % (i, k), s) for i, (k, s) in enumerate(CORPUS)]
    keys = {}
    for (cid, _), (k, _) in zip(corpus, CORPUS):
        if k.split("/")[0] in (KEY_KILL, KEY_IMPURE, KEY_TYPEMIS, KEY_BITSET, KEY_READ_AFTER_WRITE, KEY_MEMBER):
            keys[cid] = k.split("/")[0]
    cdir = os.path.join(common.VERIF, "gen", "corpus", "C03")
    if os.path.isdir(cdir):
        for fn in sorted(os.listdir(cdir)):
            corpus.append(("corpus/file/" + fn, open(os.path.join(cdir, fn)).read()))
    run_stream(env, "corpus", corpus, out, model=model, keys=keys)
    # 1b. the programs the project itself ships: examples and documentation snippets
    docs = doc_programs()
    before = out["accepted"]
    run_stream(env, "docs", docs, out, model=model, timeout=300)
    out["doc_programs"] = (len(docs), out["accepted"] - before)
    # 1c. boundary programs (thorough tier only: each plain run hangs until the harness timeout): the pruned callee never
    #     returns.  Expected: the analysis prunes the store, the checker puts it in class C (assignment) or leaves the first
    #     declaration uncovered, and the pair of runs is NOT compared (resource exhaustion: time)
    if not quick:
        bnd = [("boundary/loop-assignment", 'do f() start\n  jasi (true) start end\n  return 1\nend\nmake u get 0\nu get f()\nshout("@1@" add to_string(2))\n'),
               ("boundary/loop-declaration", 'do f() start\n  jasi (true) start end\n  return 1\nend\nmake u get f()\nshout("@1@" add to_string(2))\n')]
        bout = new_out()
        brecs = run_stream(env, "boundary", bnd, bout, model=False, timeout=25)
        out["boundary_programs"] = dict((cid, {"plan": (brecs.get(cid) or {}).get("plan"),
                                               "endings": dict((c, e[0][:40]) for c, e in ((brecs.get(cid) or {}).get("runs") or {}).items()),
                                               "expected": "plan prunes the store; plain run: timeout; pruned run: ok; not compared"}) for cid, _ in bnd)
        out["failures"] += bout["failures"]
    # 1d. the literal-operator family
    lit = literal_family(env, quick)
    lo = new_out()
    lrecs = run_stream(env, "litops", lit, lo, model=model, timeout=600)
    # a pack the front end rejects, or whose plain run did not finish, hides the other trees: run its trees singly
    redo = []
    for cid, src in lit:
        r = lrecs.get(cid) or {}
        if src.count("@") > 6 and (not r.get("accepted") or langrun.ending_class((r.get("runs") or {}).get("nn", ("ok", ""))[0]) != "ok"):
            body = src.split("\n")[2:]
            chunk = []
            for ln in body:
                chunk.append(ln)
                if ln.startswith("shout("):
                    redo.append(("%s/%d" % (cid, len(redo)), "make w get 1\n" + "\n".join(chunk) + "\n"))
                    chunk = []
    if redo:
        run_stream(env, "litops2", redo, lo, model=model, timeout=600)
    for k in ("failures", "disagreements"):
        out[k] += lo[k]
    out["evaluations"] += lo["evaluations"]
    for k, v in lo.get("classes", {}).items():
        out["classes"][k] = out["classes"].get(k, 0) + v
    for k, v in lo.get("classes3", {}).items():
        out.setdefault("classes3", {})[k] = out.setdefault("classes3", {}).get(k, 0) + v
    out["entries_unproved"] = out.get("entries_unproved", 0) + lo.get("entries_unproved", 0)
    for k, v in lo.get("unproved_shapes", {}).items():
        out.setdefault("unproved_shapes", {})[k] = out.setdefault("unproved_shapes", {}).get(k, 0) + v
    out["nontrivial"] |= lo["nontrivial"]
    nerr = sum(1 for r in lrecs.values() if "Type_mismatch" in ((r.get("runs") or {}).get("nn", ("", ""))[0]) or "Division" in ((r.get("runs") or {}).get("nn", ("", ""))[0]))
    out["literal_family"] = {"programs": len(lit) + len(redo), "accepted_by_the_front_end": lo["accepted"], "rejected": lo["rejected"],
                             "plain_run_ends_in_a_runtime_error": nerr, "plans_nonempty": lo["plans_nonempty"],
                             "model_compare": lo["compare"]}
    # 2. generated programs
    n = 600 if quick else 12000
    if searching:
        n *= 2
    gstats, tstats = {}, {}
    cases = []
    for i in range(n):
        src, st, ts = gen_program(env.rng, env.tier)
        for k, v in st.items():
            gstats[k] = gstats.get(k, 0) + v
        for k, v in ts.items():
            tstats[k] = tstats.get(k, 0) + v
        cases.append(("G/%d" % i, src))
    for s0 in range(0, len(cases), 3000):
        run_stream(env, "gen%d" % s0, cases[s0:s0 + 3000], out, model=model)
    # shrink the first new failures (generated ones)
    shrunk = []
    for f in out["failures"]:
        if len(shrunk) < 3 and f.get("kind") and len(f["case"]) < 4000 and not f["case"].startswith("make a get 1\ndo g()"):
            try:
                f = shrink(env, f)
            except Exception:
                pass
            shrunk.append(1)
        f.pop("kind", None) if False else None
    covered = sum(v for k, v in out["classes"].items() if k in ("U", "N", "N2", "UF"))
    total = sum(out["classes"].values())
    c3 = out.get("classes3", {})
    covered3 = sum(v for k, v in c3.items() if k in ("U", "N", "N2", "UF") or k.startswith("L:") or k.startswith("C:"))
    ds_all = sum(v for k, v in c3.items() if k in ("DS", "L:DS"))
    samples = [{"id": cid, "program": s} for cid, s in cases[:3]]
    return {
        "evaluations": out["evaluations"],
        "distinct_nontrivial": len(out["nontrivial"]),
        "rule": "one evaluation = one program through the real pipeline in 4 configurations (plan x frame arena) + extracted Lang.run_impl with the REAL plan "
                "+ extracted plan_ok on the real plan; non-trivial = distinct accepted program whose plan is non-empty and in which a pruned statement that is "
                "not unreachable is followed, in its own block, by a tagged shout that printed in the plan-less run (or sits at the root of a run that ended ok), "
                "i.e. the pruned statement lies on an executed path",
        "samples": samples,
        "failures": out["failures"],
        "disagreements": out["disagreements"],
        "extra": {"accepted": out["accepted"], "rejected_by_checker": out["rejected"], "plans_nonempty": out["plans_nonempty"],
                  "plans_fully_covered_by_theorems": out["plans_fully_covered"],
                  "plans_fully_covered_with_augmented_plan": out.get("plans_fully_covered2", 0), "plan_verdicts": out["verdicts"],
                  "plan_entry_classes": out["classes"],
                  "plan_entries_total": total, "plan_entries_covered_by_a_theorem_round1": covered,
                  "plan_entries_covered_by_oracle_only_round1": total - covered,
                  "plan_entry_classes_round2": c3,
                  "plan_entries_covered_by_a_theorem": covered3,
                  "plan_entries_covered_by_oracle_only": total - covered3,
                  "flow_sensitive_dead_stores_total": ds_all,
                  "flow_sensitive_dead_stores_covered_by_the_liveness_theorem": c3.get("L:DS", 0),
                  "plans_fully_covered_by_the_four_class_theorem": out.get("plans_fully_covered3", 0),
                  "programs_the_liveness_checker_rejects_structurally": out.get("liveness_structural_rejects", 0),
                  "literal_operator_family": out.get("literal_family", {}),
                  "boundary_programs_not_compared": out.get("boundary_programs", "thorough tier only"),
                  "entries_outside_every_proved_class": out.get("entries_unproved", 0),
                  "unproved_entry_shapes": out.get("unproved_shapes", {}),
                  "unproved_entry_examples": out.get("unproved_examples", {}),
                  "shipped_examples_and_doc_snippets": {"programs": out.get("doc_programs", (0, 0))[0], "accepted": out.get("doc_programs", (0, 0))[1]},
                  "class_legend": {"U": "unreachable (theorem)", "N": "never-read local, total right-hand side (theorem)", "UF": "unused function (theorem)",
                                   "N2": "never-read local whose declaration the analysis keeps (theorem C03_plan_ok2_sound: via the augmented plan)",
                                   "NM": "never read, but some writer has a right-hand side that is not a total pure expression (oracle only)",
                                   "DS": "dead store by flow-sensitive liveness not accepted by LiveCheck.ds_ok (oracle only; none since round 3)",
                                   "DC": "store whose right-hand side contains a call and that neither the never-read class nor LiveCheck.ds_ok accepts: since round 3 only calls of USER functions (oracle only)",
                                   "L:<k>": "round 2: entry of round-1 class <k> accepted by the verified backward liveness LiveCheck.ds_ok "
                                            "(theorem C03_prune_dead_stores_sound / C03_plan_ok3_sound; all constructs incl. loops, scope exits, calls, captures, recursion)",
                                   "C:<k>": "round 4: store whose right-hand side calls a pure, trap-free user function, accepted by LiveCheck.ds_ok_x "
                                            "(theorem C03_prune_sound_all_classes; the panic sites the resolver rules out and fuel are not compared)",
                                   "X": "no class: broken obligation", "XF": "function live code can call: broken obligation"},
                  "model_compare": out["compare"], "warnings": out["warn"], "unreachable_tags_checked": out["tags_checked"],
                  "never_read_value_tags_checked": out["values_checked"], "panics_in_both_configurations": out["panics_both"],
                  "not_compared_resource_exhaustion": out.get("resource_exhaustion", 0), "model_executable_died": out.get("model_executable_died", 0),
                  "generator_stats": gstats, "template_stats": tstats, "configurations": CFGS},
    }


def replay(env, payload):
    common.refresh_tables()
    common.build_nsmodel()
    case = payload.get("case") or (payload.get("disagreements") or [{}])[0]
    src = case.get("case")
    if not src:
        print("replay: no concrete program in this file (obligations: %s)" % payload.get("no_longer_checks"))
        return 1
    out = new_out()
    recs = run_stream(env, "replay", [("replay", src)], out, model=True)
    rec = recs.get("replay", {})
    print("program:\n%s" % src)
    print("accepted: %s   %s" % (rec.get("accepted"), rec.get("plan")))
    for cfg, (e, v) in sorted(rec.get("runs", {}).items()):
        print("  %s: %s | %s" % (cfg, langrun.panic_text(e)[:200], v[:300]))
    for f in out["failures"]:
        print("failure key: %s   %s" % (f["key"], f["observed"][:300]))
    for d in out["disagreements"]:
        print("disagreement: %s %s" % (d.get("stream"), str(d.get("detail"))[:300]))
    bad = bool(out["failures"] or out["disagreements"])
    print("replay: %s" % ("still failing" if bad else "passes now"))
    return 1 if bad else 0
