"""C04 — names resolve lexically; functions are visible throughout their block.

Streams (all on programs generated from env.rng):
  * ORACLE on the implementation (configuration nn = no plan, no frame arena): printed values
    and ending must equal `run s` — Spec.run_spec, the names-only static-link reference
    interpreter — whenever `run s` is not stuck / fuel / unsupported.  When `run s` is stuck
    (a lexically bound variable that is not initialised in the activation the static chain
    designates) the implementation must not produce a normal result either: it would have read
    another activation's variable.
  * MODEL TIE: langcheck.compare (implementation vs Lang.run_impl) and the extracted binding
    checkers LexResolve.lexical / lexical_bij (= same_binding_structure p (lex_ids p)) on the
    `ast` line of every accepted program (nsmodel mode `langc04`); plus a self-test of the
    checkers on perturbed ids.
Generator bias: langgen with a 3-name pool, heavy shadowing, deep nesting, recursion; shape
templates (one name at every level, mutual recursion with several live activations, captures
read and assigned, forward calls of capture-free functions, same-named locals in caller and
callee, parameters shadowed by body locals, functions defined in loop bodies and if-branches,
placeholders and index assignments on captured variables); a dedicated early-capture stream
(DESIGN section 7 row 8) reported under the keys early-capture-recursion / early-capture-panic."""
import os

import common
import langcheck
import langgen
import langrun
try:
    import tinygen
except ImportError:          # the shared whole-grammar generator is optional
    tinygen = None

TRUSTED_EXTRA = [
    "C04: Spec.v (run_spec) is the formalisation of lexical scoping used as the oracle; the AST dump of harness/src/lang.rs "
    "(ids read through ProgramFacts::expr_local / stmt_local / string_segment_local / user_call_callee / local_range) and the "
    "AST reader of mode_langc04.ml are trusted glue",
]
ASSUMPTIONS = [
    "compared runs end normally or with a runtime error in the reference interpreter (stuck / fuel / unsupported reference runs are counted, not compared)",
    "the theorems are about run_impl without a plan (plan = None); pruning is C03",
]
COQ_TIMEOUT = 2400

POOL = ["a", "b", "c"]
SKIP_SPEC = ("stuck", "fuel", "unsupported", "missing")


# ------------------------------------------------------------------ generators
class C04Gen(langgen.Gen):
    """langgen with extra bias: functions inside loop bodies / if-branches are produced by the base
    generator already (blocks plan functions); here placeholders and captured-array updates are made
    more frequent inside functions."""

    def stmt(self, ind):
        r = self.r
        pad = "  " * ind
        if self.fn_stack and r.random() < 0.18:
            vs = self.visible(pred=lambda v: v.ty in (langgen.NUM, langgen.STR, langgen.BOOL))
            if vs:
                v = r.choice(vs)
                self.stat("placeholder_in_fn")
                return ['%sshout("%s={%s}")' % (pad, v.name, v.name)]
        if self.fn_stack and r.random() < 0.12:
            arrs = [a for a in self.visible(langgen.ARR) if a.minlen > 0 and a.elem == langgen.NUM]
            if arrs:
                a = r.choice(arrs)
                self.stat("captured_index_assign")
                return ["%s%s[%d] get %s" % (pad, a.name, r.randrange(a.minlen), self.expr(langgen.NUM, 2))]
        return langgen.Gen.stmt(self, ind)


def gen_base(rng, tier):
    deep = tier != "quick"
    depth = rng.choice([4, 6, 8, 12] if deep else [3, 4, 6])
    k = min(1.0, 3.0 / depth)          # deeper programs branch less, so sizes stay comparable
    o = langgen.Opts(name_pool=POOL, p_shadow=0.6, max_depth=depth,
                     p_recursion=0.6, p_fn=0.3 * k + 0.08, p_capture_write=0.7, p_forward_call=0.5, p_block=0.12 * k + 0.03,
                     p_if=0.2 * k + 0.04, p_loop=0.16 * k + 0.03, p_unused=0.05, p_dead=0.04, str_long=0.02,
                     max_stmts=rng.choice([6, 9, 12]))
    # nesting multiplies sizes: keep programs readable and runs short (deep AND narrow is what matters here)
    cap = 160 if tier == "quick" else 260
    for _ in range(30):
        g = C04Gen(rng, o)
        src = g.program()
        if src.count("\n") <= cap:
            return src, g.stats
        o.max_stmts = max(4, o.max_stmts - 1)
        o.p_fn, o.p_if, o.p_loop, o.p_block = o.p_fn * 0.9, o.p_if * 0.9, o.p_loop * 0.9, o.p_block * 0.9
    return src, g.stats


def _names(rng, k):
    pool = ["a", "b", "c", "x", "y"]
    return [rng.choice(pool) for _ in range(k)]


def shape_nest(rng, tier):
    """one name re-declared at every level, read/assigned/re-declared around each nested block"""
    d = rng.randint(3, 6 if tier == "quick" else 12)
    n = rng.choice(["a", "b", "x"])
    lines = ["make %s get 0" % n]
    for i in range(d):
        pad = "  " * i
        kind = rng.choice(["start", "if", "loop"])
        if kind == "start":
            lines.append("%sstart" % pad)
        elif kind == "if":
            lines.append("%sif to say (%s small pass 100) start" % (pad, n))
        else:
            lines.append("%smake g%d get 0" % (pad, i))
            lines.append("%sjasi (g%d small pass 2) start" % (pad, i))
            lines.append("%s  g%d get g%d add 1" % (pad, i, i))
        pad2 = "  " * (i + 1)
        c = rng.random()
        if c < 0.3:
            lines.append("%s%s get %s add %d" % (pad2, n, n, i + 1))           # assign outer
        elif c < 0.8:
            lines.append("%smake %s get %s add %d" % (pad2, n, n, 10 * (i + 1)))  # shadow, init from outer
        if rng.random() < 0.4:
            lines.append("%smake %s get %s times 2" % (pad2, n, n))           # same-block re-declaration
        lines.append('%sshout("%d:{%s}")' % (pad2, i, n))
    for i in reversed(range(d)):
        pad = "  " * i
        lines.append("%s  shout(%s)" % (pad, n))
        lines.append("%send" % pad)
    lines.append("shout(%s)" % n)
    return "\n".join(lines) + "\n"


def shape_mutual(rng, tier):
    """mutual recursion, several live activations, same-named locals in caller and callee, a
    captured counter that is read and assigned"""
    k = rng.randint(2, 5 if tier == "quick" else 8)
    loc, t = rng.choice([("a", "b"), ("x", "c"), ("b", "a")])
    return (
        "make %(t)s get 0\n"
        "do ev(n) start\n"
        "  make %(l)s get n times 2\n"
        "  if to say (n small pass 1) start return %(l)s end\n"
        "  make r get od(n minus 1)\n"
        "  %(t)s get %(t)s add 1\n"
        "  return r add %(l)s\n"
        "end\n"
        "do od(n) start\n"
        "  make %(l)s get n add 100\n"
        "  if to say (n small pass 1) start return %(l)s end\n"
        "  make r get ev(n minus 1)\n"
        "  %(t)s get %(t)s add 10\n"
        "  shout(\"od {n} {%(l)s} {%(t)s}\")\n"
        "  return r add %(l)s\n"
        "end\n"
        "make %(l)s get 7\n"
        "shout(ev(%(k)d))\nshout(%(t)s)\nshout(%(l)s)\n" % {"t": t, "l": loc, "k": k})


def shape_closure(rng, tier):
    """nested function reading and assigning the enclosing function's local and parameter, under
    recursion of the enclosing function (each activation has its own captured variable)"""
    k = rng.randint(1, 4 if tier == "quick" else 8)
    acc, p = rng.choice([("a", "b"), ("x", "a"), ("c", "c_p")])
    return (
        "make %(acc)s get 1000\n"
        "do mk(%(p)s) start\n"
        "  make %(acc)s get %(p)s\n"
        "  do bump(d) start\n"
        "    %(acc)s get %(acc)s add d add %(p)s\n"
        "    return %(acc)s\n"
        "  end\n"
        "  bump(1)\n"
        "  if to say (%(p)s pass 0) start shout(mk(%(p)s minus 1)) end\n"
        "  shout(\"{%(acc)s}\")\n"
        "  return bump(3)\n"
        "end\n"
        "shout(mk(%(k)d))\nshout(%(acc)s)\n" % {"acc": acc, "p": p, "k": k})


def shape_forward(rng, tier):
    """forward calls of capture-free functions, from top level, nested blocks and other functions"""
    v = rng.randint(2, 9)
    return (
        "shout(sq(%(v)d))\n"
        "start\n"
        "  shout(sq(inc(%(v)d)))\n"
        "  do inc(a) start return a add 1 end\n"
        "end\n"
        "do twice(a) start return sq(a) add sq(a) end\n"
        "shout(twice(%(v)d))\n"
        "do sq(a) start return a times a end\n" % {"v": v})


def shape_param_shadow(rng, tier):
    """parameters shadowed by body locals (the body block is a scope of its own), inner blocks
    shadowing again, a caller local with the callee's parameter name"""
    a = rng.choice(["a", "b", "x"])
    v = rng.randint(1, 9)
    return (
        "make %(a)s get 50\n"
        "do f(%(a)s) start\n"
        "  shout(%(a)s)\n"
        "  make %(a)s get %(a)s add 1\n"
        "  shout(%(a)s)\n"
        "  start\n"
        "    make %(a)s get %(a)s times 10\n"
        "    shout(\"{%(a)s}\")\n"
        "  end\n"
        "  %(a)s get %(a)s add 2\n"
        "  return %(a)s\n"
        "end\n"
        "shout(f(%(v)d))\nshout(f(%(a)s))\nshout(%(a)s)\n" % {"a": a, "v": v})


def shape_loop_fn(rng, tier):
    """functions defined in loop bodies and in if-branches, capturing the loop body's variables"""
    n = rng.randint(2, 4)
    k, i = rng.choice([("a", "b"), ("x", "y"), ("c", "a")])
    return (
        "make %(i)s get 0\n"
        "jasi (%(i)s small pass %(n)d) start\n"
        "  make %(k)s get %(i)s times 10\n"
        "  do g() start return %(k)s add %(i)s end\n"
        "  do setk(v) start %(k)s get v return g() end\n"
        "  shout(g())\n"
        "  shout(setk(%(i)s))\n"
        "  %(i)s get %(i)s add 1\n"
        "end\n"
        "if to say (%(i)s pass 1) start\n"
        "  do g() start return 5 end\n"
        "  shout(g())\n"
        "end\n"
        "if not so start\n"
        "  do g() start return 6 end\n"
        "  shout(g())\n"
        "end\n"
        "shout(%(i)s)\n" % {"i": i, "k": k, "n": n})


def shape_array_capture(rng, tier):
    """placeholders and index-assignment / push targets on captured variables"""
    arr, nm = rng.choice([("a", "b"), ("x", "y"), ("c", "a")])
    j = rng.randint(0, 2)
    return (
        "make %(arr)s get [1, 2, 3]\n"
        "make %(nm)s get \"n\"\n"
        "do upd(j, v) start\n"
        "  %(arr)s[j] get v\n"
        "  %(arr)s.push(v)\n"
        "  return \"{%(nm)s}:{%(arr)s}\"\n"
        "end\n"
        "do outerf(%(arr)s) start\n"
        "  shout(upd(%(j)d, 7))\n"
        "  %(arr)s.push(99)\n"
        "  return %(arr)s\n"
        "end\n"
        "shout(outerf([0]))\nshout(%(arr)s)\n" % {"arr": arr, "nm": nm, "j": j})


def shape_callee_assign(rng, tier):
    """a function that reads and assigns a variable of the enclosing scope, called from functions that
    have a local / a parameter with the same name (dynamic scoping would hit the caller's variable)"""
    x = rng.choice(["a", "b", "count"])
    v = rng.randint(1, 5)
    return (
        "make %(x)s get 0\n"
        "do bump() start\n"
        "  %(x)s get %(x)s add %(v)d\n"
        "  return %(x)s\n"
        "end\n"
        "do peek() start return \"{%(x)s}\" end\n"
        "do runner() start\n"
        "  make %(x)s get 100\n"
        "  bump()\n"
        "  shout(bump())\n"
        "  shout(peek())\n"
        "  shout(%(x)s)\n"
        "end\n"
        "do withparam(%(x)s) start\n"
        "  bump()\n"
        "  shout(peek())\n"
        "  return %(x)s\n"
        "end\n"
        "runner()\nshout(%(x)s)\nshout(withparam(7))\nbump()\nshout(%(x)s)\n" % {"x": x, "v": v})


def shape_rec_array(rng, tier):
    """every activation of a recursive function owns its own array; it is mutated in place (index
    assignment, push, pop, reverse, nested index) while deeper and shallower activations are live"""
    k = rng.randint(1, 3 if tier == "quick" else 7)
    it = rng.choice(["a", "items", "c"])
    op = rng.choice(["%(it)s.push(n add 100)", "%(it)s.reverse()", "shout(%(it)s.pop())", "%(it)s[0] get n add 7"]) % {"it": it}
    return (
        "make %(it)s get [\"outer\"]\n"
        "do build(n) start\n"
        "  make %(it)s get [n, 0, [n]]\n"
        "  if to say (n pass 0) start build(n minus 1) end\n"
        "  %(it)s[1] get n times 10\n"
        "  %(it)s[2].push(n)\n"
        "  %(op)s\n"
        "  if to say (n na 1) start build(0) end\n"
        "  shout(%(it)s)\n"
        "end\n"
        "build(%(k)d)\nshout(%(it)s)\n" % {"it": it, "k": k, "op": op})


def shape_positions(rng, tier):
    """one variable referenced in EVERY syntactic position (each placeholder of a template string incl.
    repeated and padded ones, operands, call arguments, array elements, index base and index, member
    receiver, condition, loop condition, return, assignment target and right-hand side, index-assignment
    base, mutating-method receiver and argument) x binding kind (global, captured from 1 or 2 function
    levels up, parameter, local) x a same-named variable live in the caller, in another activation of
    the enclosing function and in a sibling block"""
    v, arr = rng.choice([("v", "w"), ("a", "b"), ("b", "c")])
    levels = rng.choice([0, 1, 2])
    kind = rng.choice(["captured", "captured", "param", "local"])
    pad = "  " * levels
    body = [
        'shout("{%(v)s}|{%(v)s} / {%(v)s}!{%(arr)s}{%(v)s}")',
        'shout("{%(arr)s}{%(arr)s}")',
        "shout(%(v)s add %(v)s times 2)",
        "shout(idf(%(v)s, %(v)s minus 1))",
        "shout([%(v)s, %(v)s])",
        "shout(%(arr)s[%(v)s mod 2])",
        "shout(to_string(%(v)s).len())",
        "shout(%(arr)s.len())",
        'if to say (%(v)s pass 2) start shout("big {%(v)s} {%(v)s}") end',
        "make zk get 0\njasi (zk small pass %(v)s mod 3) start zk get zk add 1 end\nshout(zk)",
        "%(v)s get %(v)s add 1",
        "%(arr)s[0] get %(v)s",
        "%(arr)s[%(v)s mod 2] get %(arr)s[0] add 1",
        "%(arr)s.push(%(v)s)",
        "%(arr)s.reverse()",
        'shout("{%(v)s} {%(arr)s} {%(v)s}")',
        "return %(v)s",
    ]
    rng.shuffle(body)
    body = [b for b in body if not b.startswith("return")] + ["return %(v)s"]
    if kind == "param":
        head = "do probe(%(v)s, %(arr)s) start"
        call = "probe(%(v)s, %(arr)s)"
    elif kind == "local":
        head = "do probe() start\n" + pad + "    make %(v)s get 40\n" + pad + "    make %(arr)s get [7, 8]"
        call = "probe()"
    else:
        head = "do probe() start"
        call = "probe()"
    lines = ["do idf(%(v)s, %(arr)s) start return %(v)s times 10 add %(arr)s end",
             "make %(v)s get 3", "make %(arr)s get [1, 2, 3]"]
    # enclosing functions that declare their own v / arr (capture from 1 or 2 levels up) and recurse
    for l in range(levels):
        p = "  " * l
        lines += [p + "do lvl%d(n) start" % l,
                  p + "  make %(v)s get n add " + str(10 * (l + 1)),
                  p + "  make %(arr)s get [n, " + str(l) + "]"]
    p = "  " * levels
    lines.append(p + head)
    lines += [p + "  " + bl for b in body for bl in b.split("\n")]
    lines.append(p + "end")
    # callers with a same-named parameter / local, a sibling block with a same-named variable
    lines += [p + "do viaparam(%(v)s, %(arr)s) start return " + call + " end",
              p + "do vialocal() start",
              p + "  make %(v)s get 500",
              p + "  make %(arr)s get [5]",
              p + "  make r get " + call,
              p + '  shout("{%(v)s} {%(arr)s} {%(v)s}")',
              p + "  return r",
              p + "end",
              p + "start",
              p + "  make %(v)s get 77",
              p + "  make %(arr)s get [77]",
              p + "  shout(" + call + ")",
              p + "end",
              p + "shout(" + call + ")",
              p + "shout(viaparam(9, [9, 9]))",
              p + "shout(vialocal())",
              p + 'shout("{%(v)s} {%(arr)s}")']
    for l in reversed(range(levels)):
        p = "  " * l
        inner = "lvl%d(n)" % (l + 1) if l + 1 < levels else None
        if inner:
            lines.append(p + "  shout(" + inner + ")")
        lines += [p + "  if to say (n pass 0) start shout(lvl%d(n minus 1)) end" % l,
                  p + '  shout("{%(v)s}{%(v)s}")',
                  p + "  return %(v)s",
                  p + "end"]
    if levels:
        lines.append("shout(lvl0(%d))" % rng.randint(1, 2))
    lines.append('shout("{%(v)s} {%(arr)s} {%(v)s}")')
    return ("\n".join(lines) + "\n") % {"v": v, "arr": arr}


def shape_fn_names(rng, tier):
    """function-name collisions: a function that redefines its own name in its body or in a nested block
    (the inner definition shadows, also before its definition), a parameter / local named like the
    enclosing function, sibling blocks defining the same name, calls from a nested function back to the
    enclosing one (real recursion), a block-level function shadowing a global one"""
    f = rng.choice(["f", "a", "step"])
    g = rng.choice(["g", "b", "fmt"])
    where = rng.choice(["body", "nested", "loop"])
    early = rng.random() < 0.5
    inner = ["do %(f)s(k) start return k times 100 end"]
    use = ["make r get %(f)s(n minus 1)"]
    seq = (use + inner) if early else (inner + use)
    if where == "body":
        core = seq + ["return r add 1"]
    elif where == "nested":
        core = ["if to say (n pass 0) start"] + ["  " + x for x in seq] + ["  return r add 1", "end", "return 0 minus 1"]
    else:
        core = ["make i get 0", "make acc get 0", "jasi (i small pass 2) start", "  i get i add 1"] + \
               ["  " + x for x in seq] + ["  acc get acc add r", "end", "return acc"]
    lines = ["do %(f)s(n) start"] + ["  " + x for x in core] + ["end",
             "shout(%(f)s(0))", "shout(%(f)s(3))",
             # a parameter and a local named like the enclosing function; the call still means the function
             "do %(g)s(%(g)s) start",
             "  if to say (%(g)s small pass 1) start return %(g)s end",
             "  make %(f)s get %(g)s times 2",
             "  shout(\"{%(g)s} {%(f)s} {%(g)s}\")",
             "  return %(g)s(%(g)s minus 1) add %(f)s",
             "end",
             "shout(%(g)s(2))",
             # nested function calling the enclosing one: real recursion
             "do count(n) start",
             "  do again(k) start return count(k minus 1) end",
             "  if to say (n pass 0) start return again(n) add 1 end",
             "  return 0",
             "end",
             "shout(count(3))",
             # sibling blocks defining the same name; a block-level definition shadows the global one
             "if to say (true) start",
             "  shout(%(g)s(1))",
             "  do %(g)s(x) start return \"then\" end",
             "end",
             "if not so start",
             "  do %(g)s(x) start return \"else\" end",
             "  shout(%(g)s(1))",
             "end",
             "start",
             "  do %(f)s(x) start return \"block {x} {x}\" end",
             "  start",
             "    shout(%(f)s(5, 6))",
             "    do %(f)s(x, y) start return x add y end",
             "    shout(%(f)s(1, 2))",
             "  end",
             "  shout(%(f)s(6))",
             "end",
             "shout(%(f)s(1))"]
    return ("\n".join(lines) + "\n") % {"f": f, "g": g}


# ---- whole-grammar stream: lib/tinygen.py (shared generator over a 3-name pool used for variables,
# parameters AND functions at every level), made terminating by a tree transformation
def _tg_bound(stmts, ctr):
    out = []
    for s in stmts:
        k = s[0]
        if k == "fun":
            pre = [("set", "zd", ("bin", "add", ("var", "zd"), ("num", "1"))),
                   ("if", ("bin", "pass", ("var", "zd"), ("num", "40")), [("return", ("null",))], None)]
            out.append(("fun", s[1], s[2], pre + _tg_bound(s[3], ctr)))
        elif k == "loop":
            ctr[0] += 1
            zk = "zk%d" % ctr[0]
            pre = [("set", zk, ("bin", "add", ("var", zk), ("num", "1"))),
                   ("if", ("bin", "pass", ("var", zk), ("num", "3")), [("break",)], None)]
            out.append(("make", zk, ("num", "0")))
            out.append(("loop", s[1], pre + _tg_bound(s[2], ctr)))
        elif k == "if":
            out.append(("if", s[1], _tg_bound(s[2], ctr), None if s[3] is None else _tg_bound(s[3], ctr)))
        elif k == "block":
            out.append(("block", _tg_bound(s[1], ctr)))
        else:
            out.append(s)
    return out


def gen_tiny(rng, tier):
    """a tinygen program whose loops run at most 3 times and whose call depth is bounded (a global call
    counter that every function body increments: itself a captured variable that is assigned everywhere);
    programs that would read stdin or spawn a process are not used"""
    for _ in range(50):
        o = tinygen.Opts(p_sane=rng.choice([1.0, 1.0, 0.98]), max_depth=rng.choice([3, 4, 5]))
        src, tree, _ = tinygen.gen(rng, o)
        if "read_line" in src or "command" in src or ".run" in src:
            continue
        body = [("make", "zd", ("num", "0"))] + _tg_bound(tree, [0])
        return tinygen.render(body)
    return "shout(1)\n"


SHAPES = [shape_positions, shape_fn_names, shape_callee_assign, shape_rec_array, shape_nest, shape_mutual, shape_closure, shape_forward, shape_param_shadow, shape_loop_fn, shape_array_capture]


def early_capture(rng, recursion):
    """DESIGN section 7 row 8: a hoisted function called before the captured `make`"""
    x, n = rng.choice([("x", "n"), ("a", "b"), ("c", "a")])
    v = rng.randint(1, 3)
    if recursion:
        return (
            "do outer(%(n)s) start\n"
            "  if to say (%(n)s na 0) start shout(helper()) end\n"
            "  make %(x)s get %(n)s\n"
            "  if to say (%(n)s pass 0) start outer(%(n)s minus 1) end\n"
            "  do helper() start return %(x)s end\n"
            "end\n"
            "outer(%(v)d)\n" % {"x": x, "n": n, "v": v})
    return (
        "do outer() start\n"
        "  shout(helper())\n"
        "  make %(x)s get %(v)d\n"
        "  do helper() start return %(x)s end\n"
        "end\n"
        "outer()\n" % {"x": x, "v": v})


# ------------------------------------------------------------------ running
def run_model_safe(env, name, recs, order, depth=0):
    """`nsmodel lang` on the ast/plan lines of a batch (same input format as langrun.run_model), with a
    large native stack and a time limit: the extracted evaluator's recursion depth follows loop
    iterations and call depth, and a program that doubles a string in a loop can take minutes in the
    list-based model.  A batch that dies or times out is split; a case that fails alone gets no model
    record and is counted as inconclusive."""
    inp = os.path.join(env.work, name + ".model.in")
    outp = os.path.join(env.work, name + ".model")
    n = 0
    with open(inp, "w") as f:
        for cid in order:
            r = recs.get(cid)
            if not r or not r.get("ast") or not r.get("plan"):
                continue
            f.write("case %s\n%s\n%s\nend %s\n" % (cid, r["ast"], r["plan"], cid))
            n += 1
    if n == 0:
        return {}
    if os.path.exists(outp):
        os.remove(outp)
    cmd = "ulimit -s unlimited 2>/dev/null || ulimit -s 1000000 2>/dev/null; exec %s lang %s %s %s" % (
        common.NSMODEL, langrun.eps_hex(), inp, outp)
    rc, out = common.sh(["bash", "-c", cmd], timeout=max(15, min(120, n)))
    if rc == 0:
        return langrun.parse_records(open(outp).read().splitlines())
    if len(order) <= 1:
        return {}
    mid = len(order) // 2
    res = run_model_safe(env, "%s.l%d" % (name, depth), recs, order[:mid], depth + 1)
    res.update(run_model_safe(env, "%s.r%d" % (name, depth), recs, order[mid:], depth + 1))
    return res


def run_checker(env, name, recs=None, order=None):
    """nsmodel langc04 on the `ast` lines of a batch -> dict id -> list of flags"""
    inp = os.path.join(env.work, name + ".c04.in")
    outp = os.path.join(env.work, name + ".c04")
    if recs is not None:
        with open(inp, "w") as f:
            for cid in order:
                r = recs.get(cid)
                if r and r.get("ast"):
                    f.write("case %s\n%s\nend %s\n" % (cid, r["ast"], cid))
    else:
        inp = os.path.join(env.work, name + ".model.in")
    rc, out = common.sh([common.NSMODEL, "langc04", inp, outp], timeout=900)
    if rc != 0:
        raise RuntimeError("nsmodel langc04 failed: %s" % out[-500:])
    lex, cur = {}, None
    for l in open(outp):
        w = l.split()
        if not w:
            continue
        if w[0] == "case":
            cur = w[1]
        elif w[0] == "lex":
            lex[cur] = w[1:]
        elif w[0] == "badast":
            lex[cur] = ["badast"]
    return lex


def run_batch(env, name, cases, model=True):
    recs = langrun.run_impl(env, name, cases, ["nn"])
    order = [c for c, _ in cases]
    mrecs, lex = {}, {}
    if model:
        mrecs = run_model_safe(env, name, recs, order)
        lex = run_checker(env, name, recs, order)
    return recs, mrecs, lex


def oracle(rec, mrec, lexflags):
    """-> (status, detail); status: ok | skip | fail-mismatch | fail-other-activation | panic-stuck"""
    if not rec or not rec.get("accepted") or "nn" not in rec["runs"] or not mrec:
        return "skip", None
    ei, vi = rec["runs"]["nn"]
    ci = langrun.ending_class(ei)
    es, vs = mrec["runs"].get("s", ("missing", ""))
    if ci in ("err:Stack_overflow", "timeout", "crash"):
        return "skip", None          # resource exhaustion / native crash: C06 and C08, not a binding question
    if es == "stuck":
        if ci == "panic":
            return "panic-stuck", {"impl": (langrun.panic_text(ei)[:200], vi[:200])}
        return "fail-other-activation", {"impl": (ci, vi[:300]), "reference": "stuck after |%s" % vs[:300]}
    if es in SKIP_SPEC:
        return "skip", None
    if (ci, vi) != (es, vs):
        return "fail-mismatch", {"impl": (langrun.panic_text(ei)[:200], vi[:300]), "reference": (es, vs[:300])}
    return "ok", None


def nontrivial(ast):
    """a user function exists and some name is declared with two different ids (shadowing)"""
    t = ast.split()
    if "F" not in t:
        return False
    ids = {}
    for i, w in enumerate(t[:-3]):
        if w == "K" and t[i + 3] != "-":
            ids.setdefault(t[i + 2], set()).add(t[i + 3])
    return any(len(v) > 1 for v in ids.values())


def perturb(ast, rng):
    """change one bound local id of an occurrence (`V name id`) to another id used in the program"""
    t = ast.split()
    occ = [i for i in range(len(t) - 2) if t[i] == "V" and t[i + 2].isdigit()]
    ids = sorted({t[i + 2] for i in occ})
    if len(ids) < 2 or not occ:
        return None
    i = rng.choice(occ)
    t[i + 2] = rng.choice([x for x in ids if x != t[i + 2]])
    return " ".join(t)


def checker_selftest(env, recs, order, rng, limit=40):
    """perturbed bindings must be rejected by both checkers"""
    inp = os.path.join(env.work, "selftest.model.in")
    n = 0
    with open(inp, "w") as f:
        for cid in order:
            r = recs.get(cid)
            if not r or not r.get("accepted") or not r.get("ast"):
                continue
            p = perturb(r["ast"], rng)
            if p is None:
                continue
            f.write("case %s\n%s\nplan none\nend %s\n" % (cid, p, cid))
            n += 1
            if n >= limit:
                break
    if n == 0:
        return 0, []
    lex = run_checker(env, "selftest")
    missed = [c for c, fl in lex.items() if fl[0] != "0" or (len(fl) > 1 and fl[1] != "0")]
    return n, missed


def shrink(env, src, pred):
    lines = src.splitlines()
    small = common.ddmin_lines(lines, lambda c: pred("\n".join(c) + "\n"), keep_head=0)
    return "\n".join(small) + "\n"


def correspond(env, searching=False, model=True):
    rng = env.rng
    quick = env.tier == "quick"
    n_base = 700 if quick else 21000
    n_shape = 280 if quick else 8400
    n_tiny = (300 if quick else 9000) if tinygen is not None else 0
    if searching:
        n_base, n_shape, n_tiny = n_base * 2, n_shape * 2, n_tiny * 2
    failures, disagreements, samples = [], [], []
    evaluations = 0
    nontriv = set()
    hist = {"accepted": 0, "rejected": 0, "spec_stuck": 0, "spec_fuel": 0, "spec_unsupported": 0, "compared": 0,
            "impl_inconclusive": 0, "no_early_capture_false": 0, "nofn": 0, "lexical_true": 0}
    gstats = {}

    # dedicated early-capture stream (known finding, DESIGN section 7 row 8)
    ec_cases = [("ec-rec-%d" % i, early_capture(rng, True)) for i in range(3)] + \
               [("ec-pan-%d" % i, early_capture(rng, False)) for i in range(3)]
    recs, mrecs, lex = run_batch(env, "ec", ec_cases, model)
    seen_keys = set()
    for cid, src in ec_cases:
        st, det = oracle(recs.get(cid), mrecs.get(cid), lex.get(cid))
        evaluations += 1
        key = None
        if st == "fail-other-activation":
            key = "early-capture-recursion"
        elif st == "panic-stuck":
            key = "early-capture-panic"
        elif st == "fail-mismatch":
            key = "early-capture-mismatch:" + common.chash(src)
        if key and key not in seen_keys:
            seen_keys.add(key)
            failures.append({"key": key, "case": src, "observed": det,
                             "note": "a hoisted function called before the captured `make`: lexically the variable is not "
                                     "initialised; the implementation searches the dynamic scope stack by id"})
        if model and lex.get(cid) and lex[cid][0] == "1" and lex[cid][4] != "0":
            disagreements.append({"stream": "no-early-capture-checker", "case": src, "flags": lex[cid]})

    # generated programs
    def batches():
        made = 0
        size = 250
        total = n_base + n_shape + n_tiny
        while made < total:
            cases = []
            for _ in range(size):
                if made >= total:
                    break
                u = rng.random() * total
                if u >= n_base + n_shape:
                    gstats["tinygen"] = gstats.get("tinygen", 0) + 1
                    cases.append(("t%d" % made, gen_tiny(rng, env.tier)))
                elif u < n_base:
                    src, st = gen_base(rng, env.tier)
                    for k, v in st.items():
                        gstats[k] = gstats.get(k, 0) + v
                    cases.append(("g%d" % made, src))
                else:
                    f = rng.choice(SHAPES)
                    gstats[f.__name__] = gstats.get(f.__name__, 0) + 1
                    cases.append(("s%d" % made, f(rng, env.tier)))
                made += 1
            yield cases

    selftest_total, selftest_missed = 0, []
    bi = 0
    for cases in batches():
        bi += 1
        recs, mrecs, lex = run_batch(env, "b%d" % bi, cases, model)
        srcs = dict(cases)
        for cid, src in cases:
            r = recs.get(cid)
            if not r or r.get("accepted") is None:
                continue
            if not r["accepted"]:
                hist["rejected"] += 1
                if cid.startswith("s") and len(failures) < 5:
                    # the shape templates are valid programs: a rejection means a name (typically a function
                    # called before its definition or from a nested block) is no longer visible where it must be
                    errs = [bytes.fromhex(d.split()[3]).decode("utf-8", "replace") if len(d.split()) > 3 and d.split()[3] != "-" else d
                            for d in r.get("diags", []) if " error " in " " + d + " "]
                    failures.append({"key": "valid-program-rejected:" + common.chash(src), "case": src,
                                     "observed": {"diagnostics": errs[:3]}})
                continue
            hist["accepted"] += 1
            evaluations += 1
            m = mrecs.get(cid)
            fl = lex.get(cid)
            if model and m is None:
                hist["model_inconclusive"] = hist.get("model_inconclusive", 0) + 1
            # model tie 1: implementation vs run_impl
            if model:
                st, det = langcheck.compare(r, m, cfgs=("nn",))
                if st == "disagree" and len(disagreements) < 10:
                    disagreements.append({"stream": "run_impl", "case": src, "detail": det})
                # model tie 2: the binding checkers
                if fl is None or fl[0] != "1" or fl[1] != "1":
                    if len(disagreements) < 10:
                        disagreements.append({"stream": "binding-structure", "case": src, "flags": fl,
                                              "what": "lexical / lexical_bij (same_binding_structure with the names-only "
                                                      "re-resolution) is false on an accepted program"})
                else:
                    hist["lexical_true"] += 1
                if fl and len(fl) >= 6:
                    if fl[4] == "0":
                        hist["no_early_capture_false"] += 1
                    if fl[5] == "1":
                        hist["nofn"] += 1
            # property oracle on the implementation
            st, det = oracle(r, m, fl)
            es = m["runs"].get("s", ("missing", ""))[0] if m else "missing"
            if es == "stuck":
                hist["spec_stuck"] += 1
            elif es == "fuel":
                hist["spec_fuel"] += 1
            elif es == "unsupported":
                hist["spec_unsupported"] += 1
            if st == "skip":
                if es not in SKIP_SPEC:
                    hist["impl_inconclusive"] += 1
                continue
            if st == "ok":
                hist["compared"] += 1
                if r.get("ast") and nontrivial(r["ast"]):
                    nontriv.add(common.chash(r["ast"]))
                    if len(samples) < 4 and len(src) < 500:
                        samples.append({"case": src, "impl": r["runs"]["nn"], "reference": m["runs"]["s"]})
                continue
            if st == "panic-stuck":
                # reference stuck and the implementation panics: the crash itself is C06's finding; here it
                # is only reported when the binding checker does not classify it as early capture
                if fl and len(fl) >= 5 and fl[4] == "0":
                    continue
                if len(failures) < 5:
                    failures.append({"key": "stuck-panic:" + common.chash(src), "case": src, "observed": det})
                continue
            if st == "fail-other-activation" and fl and len(fl) >= 5 and fl[4] == "0":
                key = "early-capture-recursion"
                if key not in seen_keys:
                    seen_keys.add(key)
                    failures.append({"key": key, "case": src, "observed": det})
                continue
            # a new failure: shrink while the oracle still fails in the same way
            if len(failures) < 5:
                def pred(text, want=st):
                    rr, mm, ll = run_batch(env, "shr", [("x", text)], True)
                    return oracle(rr.get("x"), mm.get("x"), ll.get("x"))[0] == want
                small = shrink(env, src, pred) if model else src
                rr, mm, ll = run_batch(env, "shr", [("x", small)], model)
                failures.append({"key": "%s:%s" % (st, common.chash(small)), "case": small,
                                 "observed": oracle(rr.get("x"), mm.get("x"), ll.get("x"))[1]})
        if model and selftest_total < (40 if quick else 400):
            n, missed = checker_selftest(env, recs, [c for c, _ in cases], rng)
            selftest_total += n
            selftest_missed += [srcs.get(c, c) for c in missed]
        if len(failures) >= 5:
            break
    if selftest_missed:
        disagreements.append({"stream": "checker-selftest", "what": "a perturbed binding was accepted by lexical/lexical_bij",
                              "cases": selftest_missed[:3]})
    return {
        "evaluations": evaluations,
        "distinct_nontrivial": len(nontriv),
        "rule": "accepted generated programs (langgen with a 3-name pool, p_shadow 0.6, nesting up to %s, recursion; 11 shape templates incl. a position x binding-kind matrix and function-name collisions; lib/tinygen.py whole-grammar programs made terminating; "
                "a dedicated early-capture stream); oracle: implementation (nn) printed values and ending = Spec.run_spec (names-only "
                "static-link interpreter) unless the reference is stuck/fuel/unsupported, and a stuck reference must not be a normal "
                "implementation result; model tie: implementation = Lang.run_impl and lexical / lexical_bij true on every accepted "
                "program, false on perturbed ids; non-trivial = distinct resolved AST with a user function and one name declared under "
                "two different local ids, compared equal" % ("6" if quick else "12"),
        "samples": samples,
        "failures": failures,
        "disagreements": disagreements,
        "extra": {"histogram": hist, "generator_stats": gstats, "checker_selftest": {"perturbed": selftest_total,
                                                                                      "accepted_wrongly": len(selftest_missed)}},
    }


def replay(env, payload):
    common.refresh_tables()
    common.build_nsmodel()
    case = payload.get("case") or (payload.get("disagreements") or [{}])[0]
    src = case.get("case") if isinstance(case, dict) else None
    if not src:
        print("replay: no concrete program in this file (obligations: %s)" % payload.get("no_longer_checks"))
        return 1
    recs, mrecs, lex = run_batch(env, "replay", [("x", src)], True)
    r, m, fl = recs.get("x"), mrecs.get("x"), lex.get("x")
    print(src)
    print("impl     :", r and r["runs"].get("nn"))
    print("run_impl :", m and m["runs"].get("n"))
    print("reference:", m and m["runs"].get("s"))
    print("checkers : lexical lexical_bij chk_block ids_ok no_early_capture nofn =", fl)
    st, det = oracle(r, m, fl)
    bad = st.startswith("fail") or st == "panic-stuck"
    if r and r.get("accepted") is False and str(case.get("key", "")).startswith("valid-program-rejected"):
        bad = True
    if r and r.get("accepted") and m:
        bad = bad or langcheck.compare(r, m, cfgs=("nn",))[0] == "disagree" or not fl or fl[0] != "1" or fl[1] != "1"
    print("replay: %s (%s)" % ("still failing" if bad else "passes now", st))
    return 1 if bad else 0
